"""C06 — closed-form fields are reproduced: exactly if linear, to mesh accuracy otherwise.
Theorems (ClosedFormProofs.v, AsmEProofs.stiffness_row_on_affine, Properties_C06.v): the element
row applied to an affine potential has a closed form whose sum over ANY closed fan of elements
vanishes (any valence, any coordinates), also across a material interface with continuous normal
flux; element energy of an affine field = 1/2 eps E^2 * volume.  Real runs through femmcli:
(a) problems whose exact solution is affine (plates, two materials in series, slab with
convection, uniform flux density with prescribed A; planar and axial axisymmetric): every mesh
node must carry the affine value to solver precision and derived quantities equal their closed
forms; (b) classical non-affine solutions (coaxial / spherical capacitor, heated cylinder, skin
effect in a slab) must converge to the closed form under mesh refinement."""
import os, math, cmath, json
import vlib, femgen, femmrun, geomgen
from femgen import Builder, mesh_diameter, UNIT_M

# theorems about the axisymmetric magnetics model AsmMAxi.v that belong to this property (the model is tied to the code by C05 / C11: props/xaxi.py)
EXTRA_PROPERTY_FILES = ["C06_axi"]
LEVEL = "proof"
COQ_MODULES = []
ASSUMPTIONS = [
    "uniqueness of the discrete solution (positive definiteness) is not proved; that the solvers return the affine field is observed on runs, that it satisfies every assembled interior equation is proved",
    "the mesh-convergence part (non-affine closed forms) is numerical evidence only",
]
EO = 8.85418781762e-12
MUO = 4e-7 * math.pi


def affine_case(rng, kind, variant):
    """returns (problem, exact(x,y)->value in the file's units, derived dict)"""
    B = Builder(kind)
    p = B.p
    axi = variant in ("axi", "axi-convection", "axi-series")
    p["problemtype"] = "axisymmetric" if axi else "planar"
    p["units"] = rng.choice(femgen.UNITS)
    p["depth"] = rng.choice([1.0, 2.0, 5.0])
    p["precision"] = 1e-10        # the claim is "to solver precision": ask for a precision the tolerance below can resolve on a 300 K level
    p["dosmartmesh"] = rng.choice([0, 1])
    p["minangle"] = rng.choice([15.0, 30.0])
    W, H = rng.choice([2.0, 3.0, 5.0]), rng.choice([1.0, 2.0, 4.0])
    x0 = rng.choice([0.0, 0.5]) if axi else rng.choice([-1.0, 0.0, 2.0])
    y0 = rng.choice([-1.0, 0.0])
    d = mesh_diameter(W * H / rng.choice([40, 120]))
    u = UNIT_M[p["units"]]
    two = variant in ("series", "axi-series", "interior-flux", "interior-surface-charge")
    # direction of the field: planar plates / series cases run along x or along y; axisymmetric ones along z
    along = "y" if axi else (rng.choice(["x", "y"]) if variant in ("plates", "series", "interior-flux", "interior-surface-charge") else "x")
    interior = variant in ("interior-flux", "interior-surface-charge")
    V0, V1 = rng.choice([0.0, 5.0, -2.0]), rng.choice([10.0, 3.0, 7.5])
    info = dict(kind=kind, variant=variant, along=along)
    # both materials anisotropic, with different ratios between their two directions
    a1x, a1y = rng.choice([(1.0, 5.0), (2.0, 1.0), (4.0, 3.0), (2.0, 2.0)])
    a2x, a2y = rng.choice([(3.0, 8.0), (8.0, 2.0), (6.0, 6.0)])
    if kind == "fem":
        a2x, a2y = rng.choice([(100.0, 100.0), (5.0, 50.0), (60.0, 7.0)])
    elif kind == "feh" and rng.random() < 0.3:
        a1x, a1y = 40.0, 25.0
    # "nearly the same" materials (the post-processors' nodal smoothing stops at material borders by comparing material
    # constants): the second material is the first with ONE constant changed, or with the two directions exchanged, the first
    # one isotropic half of the time
    near = two and rng.random() < 0.5
    if near:
        if rng.random() < 0.5:
            a1y = a1x
        c = rng.choice([v for v in (1.0, 2.0, 3.0, 5.0, 8.0) if v not in (a1x, a1y)])
        a2x, a2y = rng.choice([(a1x, c), (c, a1y), (a1y, a1x) if a1x != a1y else (a1x, c), (a1x, c)])
    info["near_same_materials"] = near
    if kind == "fee":
        m1 = B.prop("blockprops", name="m1", ex=a1x, ey=a1y, qv=0.0)
        m2 = B.prop("blockprops", name="m2", ex=a2x, ey=a2y, qv=0.0)
        bA = B.prop("bdryprops", name="A", type=0, V=V0)
        bB = B.prop("bdryprops", name="B", type=0, V=V1)
        e1, e2 = (a1x, a2x) if along == "x" else (a1y, a2y)
        if interior:
            bI = B.prop("bdryprops", name="I", type=2, qs=0.0)      # surface charge density (C/m^2), set below from the wanted step
            bB = 0
            info.update(step=rng.choice([4.0, -2.5, 10.0]))
    elif kind == "feh":
        m1 = B.prop("blockprops", name="m1", kx=a1x, ky=a1y, kt=0.0, qv=0.0)
        m2 = B.prop("blockprops", name="m2", kx=a2x, ky=a2y, kt=0.0, qv=0.0)
        V0, V1 = 300.0 + V0, 300.0 + V1
        bA = B.prop("bdryprops", name="A", type=0, Tset=V0)
        if variant in ("convection", "axi-convection"):
            hh, Tinf = rng.choice([5.0, 50.0]), rng.choice([280.0, 320.0])
            bB = B.prop("bdryprops", name="B", type=2, h=hh, Tinf=Tinf)
            info.update(h=hh, Tinf=Tinf)
        else:
            bB = B.prop("bdryprops", name="B", type=0, Tset=V1)
        e1, e2 = (a1x, a2x) if along == "x" else (a1y, a2y)
        if interior:
            # a heat flux (W/m^2, positive = heat taken out) prescribed on the INTERIOR line between the two materials, the far side
            # insulated: every bit of it flows through material 1 to the fixed-temperature side; material 2 is isothermal
            bI = B.prop("bdryprops", name="I", type=1, qs=0.0)      # set below from the wanted temperature step
            bB = 0
            info.update(step=rng.choice([4.0, -2.5, 10.0]))
    else:
        m1 = B.prop("blockprops", name="m1", mu_x=a1x, mu_y=a1y)
        m2 = B.prop("blockprops", name="m2", mu_x=a2x, mu_y=a2y)
        V0, V1 = V0 * 1e-3, V1 * 1e-3
        bA = B.prop("bdryprops", name="A", type=0, A_0=V0)
        bB = B.prop("bdryprops", name="B", type=0, A_0=V1)
        # A varying along x: B_y = -dA/dx, H_y = B_y / mu_y;  along y: B_x = dA/dy, H_x = B_x / mu_x
        e1, e2 = (a1y, a2y) if along == "x" else (a1x, a2x)
    if along == "y":
        # plates at y = y0 and y = y0 + H (axisymmetric: field along z)
        B.rect(x0, y0, x0 + W, y0 + H, dict(b=dict(bdry=bA), t=dict(bdry=bB), l={}, r={}))
        if two:
            ym = y0 + H * rng.choice([0.25, 0.5, 0.625])
            a = B.point(x0 + W, ym); b = B.point(x0, ym)
            segs = p["segments"]
            bot, right, top, left = segs[0], segs[1], segs[2], segs[3]
            p["segments"] = [bot, dict(right, n1=a), dict(right, n0=a), top, dict(left, n1=b), dict(left, n0=b)]
            B.seg(a, b, **(dict(bdry=bI) if interior else {}))
            B.label(x0 + W * 0.3, y0 + (ym - y0) * 0.5, m1, maxarea=d)
            B.label(x0 + W * 0.6, ym + (y0 + H - ym) * 0.5, m2, maxarea=d)
            c1, c2 = (e1, e2) if kind != "fem" else (1.0 / e1, 1.0 / e2)
            L1, L2 = ym - y0, y0 + H - ym
            if interior:
                # potential step `step` over material 1: heat k1 dT/dn = -qs, electrostatics eps0 e1 dV/dn = +sigma
                g1 = info["step"] / L1
                g2 = 0.0
                p["bdryprops"][bI - 1]["qs"] = (-e1 * g1 / u) if kind == "feh" else (EO * e1 * g1 / u)
                info["qs"] = p["bdryprops"][bI - 1]["qs"]
            else:
                g1 = (V1 - V0) / (L1 + L2 * c1 / c2)
                g2 = g1 * c1 / c2
            exact = lambda x, y: V0 + g1 * (y - y0) if y <= ym else V0 + g1 * L1 + g2 * (y - ym)
        else:
            B.label(x0 + W * 0.3, y0 + H * 0.4, m1, maxarea=d)
            if variant == "axi-convection":
                # the temperature rise (0.1 K) is tiny against the level (300 K): ask for a tighter solve so that
                # "to solver precision" (relative to the level) resolves it
                p["precision"] = 1e-10
                # disk / washer cooled on its top face (an edge along which r varies): k dT/dz = -h (T(top) - Tinf), T linear in z
                ga = -info["h"] * (V0 - info["Tinf"]) / (e1 + info["h"] * H * u)
                exact = lambda x, y: V0 + ga * (y - y0) * u
            else:
                exact = lambda x, y: V0 + (V1 - V0) * (y - y0) / H
                vol = math.pi * ((x0 + W) ** 2 - x0 ** 2) * H * u ** 3 if axi else W * H * u * u * p["depth"] * u
                info.update(E=(V1 - V0) / (H * u), vol=vol, eps=e1)
    else:
        B.rect(x0, y0, x0 + W, y0 + H, dict(l=dict(bdry=bA), r=dict(bdry=bB), b={}, t={}))
        if two:
            xm = x0 + W * rng.choice([0.25, 0.5, 0.625])
            a = B.point(xm, y0); b = B.point(xm, y0 + H)
            segs = p["segments"]
            bot, right, top, left = segs[0], segs[1], segs[2], segs[3]
            p["segments"] = [dict(bot, n1=a), dict(bot, n0=a), right, dict(top, n1=b), dict(top, n0=b), left]
            B.seg(a, b, **(dict(bdry=bI) if interior else {}))
            B.label(x0 + (xm - x0) * 0.5, y0 + H * 0.3, m1, maxarea=d)
            B.label(xm + (x0 + W - xm) * 0.5, y0 + H * 0.6, m2, maxarea=d)
            # series: flux continuous: e1 a1 = e2 a2 (for magnetics A: the normal derivative is weighted by 1/mu)
            c1, c2 = (e1, e2) if kind != "fem" else (1.0 / e1, 1.0 / e2)
            L1, L2 = xm - x0, x0 + W - xm
            if interior:
                # potential step `step` over material 1: heat k1 dT/dn = -qs, electrostatics eps0 e1 dV/dn = +sigma
                g1 = info["step"] / L1
                g2 = 0.0
                p["bdryprops"][bI - 1]["qs"] = (-e1 * g1 / u) if kind == "feh" else (EO * e1 * g1 / u)
                info["qs"] = p["bdryprops"][bI - 1]["qs"]
            else:
                g1 = (V1 - V0) / (L1 + L2 * c1 / c2)
                g2 = g1 * c1 / c2
            exact = lambda x, y: V0 + g1 * (x - x0) if x <= xm else V0 + g1 * L1 + g2 * (x - xm)
        else:
            B.label(x0 + W * 0.3, y0 + H * 0.4, m1, maxarea=d)
            if variant == "convection":
                # k dT/dx = -h (T(W) - Tinf) at the right face: T linear
                k = e1
                hh, Tinf = info["h"], info["Tinf"]
                Wm = W * u
                g = -hh * (V0 - Tinf) / (k + hh * Wm)          # K/m
                exact = lambda x, y: V0 + g * (x - x0) * u
            else:
                exact = lambda x, y: V0 + (V1 - V0) * (x - x0) / W
                info.update(E=(V1 - V0) / (W * u), vol=W * H * u * u * p["depth"] * u, eps=e1)
    p["features"] = [kind, variant, "along-" + along, p["units"], "smart%d" % p["dosmartmesh"]]
    return p, exact, info


FIELD_STATS = dict(points=0, interface_points=0, worst=0.0)


def check_fields(ctx, kind, p, exact, info, nodes, elems, wd, worst=0.0):
    """field values (second clause of the property: 'derived quantities (... field values) equal their closed-form values', observed
    at post-processor point values with the default settings, i.e. nodal smoothing ON): the gradient / curl of the exact piecewise
    linear solution at the centroids of elements next to the material interface (both sides), next to the outer boundary and
    elsewhere; flux quantities with the material constant of the region"""
    u = UNIT_M[p["units"]]
    segs = p["segments"]
    pts = p["points"]
    # interface = the segment added last in two-material cases
    iface = None
    if len(p["labels"]) == 2:
        sg = segs[-1]
        iface = (pts[sg["n0"]], pts[sg["n1"]])
    def on_iface(n):
        if not iface:
            return False
        (a, b) = iface
        ax, ay, bx, by = a["x"], a["y"], b["x"], b["y"]
        return abs((bx - ax) * (n[1] - ay) - (by - ay) * (n[0] - ax)) < 1e-9 * (abs(bx - ax) + abs(by - ay))
    near, other = [], []
    hmin = float("inf")
    for e in elems:
        tri = [nodes[i] for i in e[:3]]
        c = (sum(t[0] for t in tri) / 3.0, sum(t[1] for t in tri) / 3.0)
        (near if any(on_iface(t) for t in tri) else other).append(c)
        a2 = abs((tri[1][0] - tri[0][0]) * (tri[2][1] - tri[0][1]) - (tri[2][0] - tri[0][0]) * (tri[1][1] - tri[0][1]))
        lmax = max(math.hypot(tri[i][0] - tri[(i + 1) % 3][0], tri[i][1] - tri[(i + 1) % 3][1]) for i in range(3))
        hmin = min(hmin, a2 / lmax)                      # smallest altitude of the mesh
    # the nodal values are exact only to solver precision (`worst` = largest deviation of a written potential from the exact
    # function): a field value, being a difference quotient, inherits up to a few `worst` / altitude on top of the relative tolerance
    slack = 6.0 * worst / (hmin * u) if hmin > 0 else 0.0
    rng = vlib.Rng(ctx.seed + len(elems))
    rng.shuffle(near); rng.shuffle(other)
    cents = near[:10] + other[:6]
    if not cents:
        return None
    r, err = femmrun.run(ctx, p, [("point", c[0], c[1]) for c in cents], "probf", workdir=wd)
    if err:
        return "run failed on a well-formed problem (field queries): " + err
    xs = [n[0] for n in nodes]; ys = [n[1] for n in nodes]
    h = 1e-7 * max(max(xs) - min(xs), max(ys) - min(ys))
    grads = []
    for c in cents:
        gx = (exact(c[0] + h, c[1]) - exact(c[0] - h, c[1])) / (2 * h * u)
        gy = (exact(c[0], c[1] + h) - exact(c[0], c[1] - h)) / (2 * h * u)
        grads.append((gx, gy))
    gmax = max(max(abs(g[0]), abs(g[1])) for g in grads) or 1.0
    for k, (c, g) in enumerate(zip(cents, grads)):
        v = r["q%d" % k]
        if kind == "fee":
            got = (v[3], v[4]); want = (-g[0], -g[1]); name = "E"
        elif kind == "feh":
            got = (v[3], v[4]); want = (-g[0], -g[1]); name = "G"
        else:
            if p["problemtype"] != "planar":
                continue
            got = (v[1], v[2]); want = (g[1], -g[0]); name = "B"
        errv = max(abs(got[0] - want[0]), abs(got[1] - want[1]))
        FIELD_STATS["points"] += 1
        FIELD_STATS["interface_points"] += 1 if k < len(near[:10]) else 0
        FIELD_STATS["worst"] = max(FIELD_STATS["worst"], errv / gmax)
        FIELD_STATS["largest_precision_slack_rel"] = max(FIELD_STATS.get("largest_precision_slack_rel", 0.0), slack / gmax)
        if errv > 1e-3 * gmax + slack:
            return ("field value %s at (%.9g,%.9g)%s: post-processor returned (%.10g, %.10g), the exact (piecewise constant) field is "
                    "(%.10g, %.10g) [default settings, smoothing on]" % (name, c[0], c[1], " in an element touching the material interface"
                                                                           if k < len(near[:10]) else "", got[0], got[1], want[0], want[1]))
    return None


def check_affine(ctx, k, p, exact, info):
    kind = p["kind"]
    wd = os.path.join(ctx.work, "aff%d" % k)
    os.makedirs(wd, exist_ok=True)
    lab = p["labels"][0]
    q = [("nodes",), ("point", lab["x"], lab["y"])]
    if kind == "fee":
        q.append(("block", [(l["x"], l["y"]) for l in p["labels"]], 0))
    r, err = femmrun.run(ctx, p, q, "prob", workdir=wd)
    if err:
        return "run failed on a well-formed problem: " + err
    nodes, elems = femmrun.read_solution(kind, os.path.join(wd, "prob"))
    vals = [exact(n[0], n[1]) for n in nodes]
    scale = max(max(abs(v) for v in vals), 1e-300)
    span = max(vals) - min(vals) or scale
    worst = max(abs(n[2] - v) for n, v in zip(nodes, vals))
    # solver precision: the PCG stops at a relative residual of 1e-8 (relative to the right-hand side,
    # i.e. to the magnitude of the potentials, not to their variation)
    if worst > 2e-6 * span + 5e-8 * scale:
        i = max(range(len(nodes)), key=lambda i: abs(nodes[i][2] - vals[i]))
        return ("node %d at (%g,%g): solver returned %.12g, the exact linear solution is %.12g (mesh of %d nodes)"
                % (i, nodes[i][0], nodes[i][1], nodes[i][2], vals[i], len(nodes)))
    msg = check_fields(ctx, kind, p, exact, info, nodes, elems, wd, worst)
    if msg:
        return msg
    if kind == "fee" and "E" in info and info["variant"] not in ("series", "axi-series"):
        W = r["q2"][0]
        want = 0.5 * EO * info["eps"] * info["E"] ** 2 * info["vol"]
        if abs(W - want) > 1e-5 * max(abs(want), 1e-300) and abs(want) > 0:
            return "stored energy %.10g J, closed form 1/2 eps E^2 vol = %.10g J" % (W, want)
    return None


# ---- classical non-affine solutions --------------------------------------------------------
def coax(rng, refine, axi_sphere=False):
    B = Builder("fee")
    p = B.p
    p["units"] = "meters"; p["depth"] = 1.0; p["precision"] = 1e-8; p["dosmartmesh"] = 0
    a, b = 1.0, rng.choice([2.0, 3.0])
    eps = rng.choice([1.0, 2.5])
    V0 = 10.0
    m = B.prop("blockprops", name="m", ex=eps, ey=eps, qv=0.0)
    ci = B.prop("circuits", name="inner", type=1, V=V0)
    co = B.prop("circuits", name="outer", type=1, V=0.0)
    maxseg = 10.0 / refine
    d = mesh_diameter(math.pi * (b * b - a * a) / (150 * refine * refine))
    if not axi_sphere:
        p["problemtype"] = "planar"
        for r_, c in ((a, ci), (b, co)):
            u = B.point(-r_, 0.0, cond=c); v = B.point(r_, 0.0, cond=c)
            B.arc(u, v, 180.0, maxseg=maxseg, cond=c); B.arc(v, u, 180.0, maxseg=maxseg, cond=c)
        B.label(0.0, (a + b) / 2, m, maxarea=d)
        p["holes"].append(dict(x=0.0, y=0.0))
        Q = 2 * math.pi * EO * eps * V0 / math.log(b / a) * 1.0
        W = 0.5 * Q * V0
    else:
        p["problemtype"] = "axisymmetric"
        # half discs in the r >= 0 half plane
        for r_, c in ((a, ci), (b, co)):
            u = B.point(0.0, -r_, cond=c); v = B.point(0.0, r_, cond=c)
            B.arc(u, v, 180.0, maxseg=maxseg, cond=c)
        n = p["points"]
        B.seg(0, 2); B.seg(1, 3)          # axis pieces between the two spheres
        B.label((a + b) / 2, 0.0, m, maxarea=d / 1.5)
        Q = 4 * math.pi * EO * eps * V0 / (1 / a - 1 / b)
        W = 0.5 * Q * V0
    return p, dict(Q=Q, W=W, lab=((0.0, (a + b) / 2) if not axi_sphere else ((a + b) / 2, 0.0)))


def heated_cylinder(rng, refine):
    B = Builder("feh")
    p = B.p
    p["units"] = "meters"; p["depth"] = 1.0; p["precision"] = 1e-8; p["dosmartmesh"] = 0; p["problemtype"] = "planar"
    R, k, q, T0 = 1.0, rng.choice([2.0, 10.0]), rng.choice([100.0, 400.0]), 300.0
    m = B.prop("blockprops", name="m", kx=k, ky=k, kt=0.0, qv=q)
    bT = B.prop("bdryprops", name="T0", type=0, Tset=T0)
    u = B.point(-R, 0.0); v = B.point(R, 0.0)
    B.arc(u, v, 180.0, maxseg=8.0 / refine, bdry=bT); B.arc(v, u, 180.0, maxseg=8.0 / refine, bdry=bT)
    B.label(0.1, 0.2, m, maxarea=mesh_diameter(math.pi / (120 * refine * refine)))
    return p, dict(Tc=T0 + q * R * R / (4 * k), pt=(0.0, 0.0))


def skin_slab(rng, refine):
    """conducting slab -a < x < a, A prescribed (equal) on both faces, natural top/bottom:
    A(x) = A0 cosh(kx)/cosh(ka), k = sqrt(j w mu sigma)"""
    B = Builder("fem")
    p = B.p
    p["units"] = "meters"; p["depth"] = 1.0; p["precision"] = 1e-8; p["dosmartmesh"] = 0; p["problemtype"] = "planar"
    a, Hh = 0.01, 0.004
    mu, sig, f = 1.0, rng.choice([10.0, 58.0]), rng.choice([50.0, 100.0, 200.0])   # half width / skin depth between 0.45 and 2.1
    p["frequency"] = f
    A0 = 1e-3
    m = B.prop("blockprops", name="m", mu_x=mu, mu_y=mu, sigma=sig)
    bA = B.prop("bdryprops", name="A0", type=0, A_0=A0)
    B.rect(-a, 0.0, a, Hh, dict(l=dict(bdry=bA), r=dict(bdry=bA), b={}, t={}))
    B.label(0.0, Hh / 2, m, maxarea=mesh_diameter(2 * a * Hh / (200 * refine * refine)))
    kk = cmath.sqrt(1j * 2 * math.pi * f * mu * MUO * sig * 1e6)
    return p, dict(A0=A0, k=kk, a=a)


def converge(ctx, name, maker, quantity):
    errs = []
    for refine in (1.0, 2.0):
        rng = vlib.Rng(ctx.seed + hash(name) % 1000)
        p, ref = maker(rng, refine)
        wd = os.path.join(ctx.work, "%s_%g" % (name, refine))
        os.makedirs(wd, exist_ok=True)
        got, err = quantity(ctx, p, ref, wd)
        if err:
            return "run failed on a well-formed problem: " + err, None
        errs.append(got)
    e1, e2 = errs
    if e1 > 0.05:
        return "%s: relative error %.3g on the coarse mesh (closed form not reproduced to mesh accuracy)" % (name, e1), errs
    if e2 > 0.75 * e1 + 1e-7:
        return "%s: error does not decrease under refinement (%.3g -> %.3g)" % (name, e1, e2), errs
    return None, errs


def q_coax(ctx, p, ref, wd):
    r, err = femmrun.run(ctx, p, [("cond", "inner"), ("block", [ref["lab"]], 0)], "prob", workdir=wd)
    if err:
        return None, err
    Q, W = r["q0"][1], r["q1"][0]
    return max(abs(Q - ref["Q"]) / abs(ref["Q"]), abs(W - ref["W"]) / abs(ref["W"])), None


def q_cyl(ctx, p, ref, wd):
    r, err = femmrun.run(ctx, p, [("point",) + ref["pt"]], "prob", workdir=wd)
    if err:
        return None, err
    return abs(r["q0"][0] - ref["Tc"]) / abs(ref["Tc"] - 300.0), None


def q_skin(ctx, p, ref, wd):
    r, err = femmrun.run(ctx, p, [("nodes",)], "prob", workdir=wd)
    if err:
        return None, err
    nodes, el = femmrun.read_solution("fem", os.path.join(wd, "prob"))
    worst = 0.0
    for n in nodes:
        exact = ref["A0"] * cmath.cosh(ref["k"] * n[0]) / cmath.cosh(ref["k"] * ref["a"])
        worst = max(worst, abs(complex(n[2], n[3]) - exact))
    return worst / abs(ref["A0"]), None


def correspond(ctx):
    rng = ctx.rng
    plan = [("fee", "plates"), ("fee", "series"), ("fee", "axi"), ("feh", "plates"), ("feh", "convection"), ("feh", "axi"),
            ("fem", "plates"), ("fem", "series"), ("feh", "series"), ("feh", "axi-convection"), ("feh", "axi-convection"),
            ("fee", "series"), ("fee", "axi-series"), ("feh", "axi-series"), ("fem", "series"), ("fee", "plates"), ("feh", "series"),
            ("feh", "interior-flux"), ("fee", "interior-surface-charge"), ("feh", "interior-flux")]
    if not ctx.quick():
        plan = plan * 6
    feats, samples, done = {}, [], 0
    for k, (kind, variant) in enumerate(plan):
        p, exact, info = affine_case(rng, kind, variant)
        for ft in p["features"]:
            feats[ft] = feats.get(ft, 0) + 1
        msg = check_affine(ctx, k, p, exact, info)
        done += 1
        if msg:
            ctx.fail("affine closed form: " + msg, problem=p)
        if len(samples) < 3:
            samples.append(dict(features=p["features"]))
    conv = {}
    for name, maker, qf in (("coaxial capacitor", lambda r, f: coax(r, f), q_coax), ("spherical capacitor", lambda r, f: coax(r, f, True), q_coax),
                            ("heated cylinder", heated_cylinder, q_cyl), ("skin effect in a slab", skin_slab, q_skin)):
        msg, errs = converge(ctx, name, maker, qf)
        conv[name] = errs
        if msg:
            ctx.fail("closed form under refinement: " + msg, case=name)
    cov = ctx.res.cov
    cov["evaluations"] = len(plan) + 8
    cov["distinct_nontrivial"] = done + 4
    cov["rule"] = ("affine-solution problems with random dimensions, constants, boundary values, units, mesh sizes, smart mesh on/off "
                   "(plates, two materials in series, slab with convection, uniform flux density, axial axisymmetric field): every "
                   "mesh node compared with the exact linear function; coaxial and spherical capacitor, heated cylinder and skin "
                   "effect slab at two mesh refinements")
    cov["input_distribution"] = feats
    cov["samples"] = samples
    cov["refinement_errors"] = conv
    cov["field_values_compared_with_closed_form"] = dict(FIELD_STATS)
    return []
