"""XLINE (extension of C13) — contour (line) integrals of the three post-processors.
Model: coq/theories/ContourInt.v (PostProcessor::addContourPoint / bendContour, the sampling loop with its
element lookup, every integral type of ElectrostaticsPostProcessor::lineIntegral, HPProc::lineIntegral,
FPProc::LineIntegral), theorems: Properties_C13_contour.v (proofs ContourIntProofs.v).
Correspondence: generated problems of the three physics -> real femmcli (mesh + solve) -> harness h_contour
(the REAL post-processor classes open the solution, build seeded contours through addContourPoint /
addContourPointFromNode / bendContour, evaluate every line integral, and replay the sampling loop with the real
InTriangle / InTriangleTest / ConList / getPointValues to dump sample point, element and point values of every
sample) -> the float reading of the model must reproduce the contour, every sample point, every element index
and every integral bit for bit (the point values of the samples are data of the model).
Oracles on the implementation's own outputs: contour length / swept area against the drawn polyline, femmcli's
xo_lineintegral against the class, additivity over concatenation, behaviour under reversal, B.n against the
difference of A, closed-contour D.n against the conductor charge (reported)."""
import os, math, json, re
from fractions import Fraction
import vlib, femgen, femmrun
from props import c03, c13, c05_gen

LEVEL = "proof"
COQ_MODULES = ["ContourInt"]
ASSUMPTIONS = [
    "theorems are about the real-number reading of the contour-integral model; rounding is not bounded",
    "the point values of the samples (getPointValues at a given element: smoothing, materials, exterior-region factor) are data of the "
    "model (dumped per sample by the harness through the real getPointValues); Locate.v / C12 are about them",
    "libm values of bendContour (sin, exp of an imaginary number, ceil) are taken from the implementation side",
    "addContourPointFromNode (xo_selectpoint: nearest input node, arc following) is driven and checked against the drawn node "
    "coordinates on problems without arcs but has no Coq model; FPProc has no such method (femmcli's mo_selectpoint holds the code)",
    "FPProc::LineIntegral(5): the inner loop of the neighbour walk lacks the `j<3 &&` guard and reads meshelem[elm].p[3] after a hit; "
    "the model takes the exit the other copies take (the read value is not used for anything else)",
    "contour[0] of an empty contour (inttype 0) and point values outside the mesh at the contour ends (uninitialised u.V) are outside the model",
]
HEADER = ("From Coq Require Import ZArith List Floats. Import ListNotations. "
          "From XF Require Import Arith Locate ContourInt. Open Scope Z_scope.")
EXE = {}
TESTFN = {"fee": "test_ord FA", "feh": "test_ord FA", "fem": "test_ord FA"}
KCH = {"fee": "e", "feh": "h", "fem": "m"}

# ----------------------------------------------------------------- anchors / variants ----
LOOKUP = ["if (elm<0) elm=InTriangle(pt.re,pt.im);", "elm=ConList[meshelems[elm]->p[j]][m];",
          "for(int m=0;j<3 && m<NumList[meshelems[elm]->p[j]];m++)"]
ANCHORS = [
    ("libfemm/PostProcessor.cpp", "d_LineIntegralPoints = 400;"),
    ("libfemm/PostProcessor.cpp", "if (contour.empty() || p!=contour.back()) contour.push_back(p);"),
    ("libfemm/PostProcessor.cpp", "n = (int) ceil(fabs(angle/anglestep));"),
    ("libfemm/PostProcessor.cpp", "R = d / ( 2. * sin(fabs(tta/2.)) );"),
    ("libfemm/PostProcessor.cpp", "c = a0 + (R/d) * (a1-a0) * exp(I*(PI-tta)/2.);"),
    ("libfemm/PostProcessor.cpp", "c = a0 + (R/d) * (a1-a0) * exp(-I*(PI+tta)/2.);"),
    ("libfemm/PostProcessor.cpp", "contour.push_back( c + (a0 - c) * exp(k * I * dtta) );"),
    ("libfemm/PostProcessor.cpp", "if ((angle<-180.) || (angle>180.))"),
    ("libfemm/liblua/femmcomplex.cpp", "return fabs(x.re)*sqrt(1.+(x.im/x.re)*(x.im/x.re));"),
    ("libfemm/liblua/femmcomplex.cpp", "y.re=1./(z.re*(1.+c*c));"),
    # electrostatics
    ("epproc/epproc.cpp", "double dz = abs(contour[k]-contour[k-1])/((double) NumPlotPoints);"),
    ("epproc/epproc.cpp", "double u=(((double) i)+0.5)/((double) NumPlotPoints);"),
    ("epproc/epproc.cpp", "CComplex pt=contour[k-1] + u*(contour[k] - contour[k-1]);"),
    ("epproc/epproc.cpp", "t/=abs(t);"), ("epproc/epproc.cpp", "CComplex n=I*t;"), ("epproc/epproc.cpp", "pt+=n*1.e-06;"),
    ("epproc/epproc.cpp", "if (elm<0) elm=InTriangle(pt.re,pt.im);"),
    ("epproc/epproc.cpp", "else if (! InTriangleTest(pt.re,pt.im,elm))"),
    ("epproc/epproc.cpp", "for(int m=0; j<3 && m<NumList[meshelems[elm]->p[j]]; m++)"),
    ("epproc/epproc.cpp", "elm=ConList[meshelems[elm]->p[j]][m];"),
    ("epproc/epproc.cpp", "results[0] = u.V;"), ("epproc/epproc.cpp", "results[0]-= u.V;"),
    ("epproc/epproc.cpp", "double Dn = Re(v.D/n);"),
    ("epproc/epproc.cpp", "d=2.*PI*pt.re*sqr(LengthConv[problem->LengthUnits]);"),
    ("epproc/epproc.cpp", "d=problem->Depth*LengthConv[problem->LengthUnits];"),
    ("epproc/epproc.cpp", "results[0]+=(Dn*dz*d);"), ("epproc/epproc.cpp", "results[1]+=dz*d;"),
    ("epproc/epproc.cpp", "results[1]=results[0]/results[1];"),
    ("epproc/epproc.cpp", "results[0]+=abs(contour[i+1]-contour[i]);"),
    ("epproc/epproc.cpp", "results[0]*=LengthConv[problem->LengthUnits];"),
    ("epproc/epproc.cpp", "results[1]+=(PI*(contour[i].re+contour[i+1].re)* abs(contour[i+1]-contour[i]));"),
    ("epproc/epproc.cpp", "results[1]*=sqr(LengthConv[problem->LengthUnits]);"),
    ("epproc/epproc.cpp", "results[1]=results[0]*problem->Depth;"),
    ("epproc/epproc.cpp", "double Hn= Re(v.E/n);"), ("epproc/epproc.cpp", "double Bn= Re(v.D/n);"),
    ("epproc/epproc.cpp", "double BH= Re(v.D*conj(v.E));"),
    ("epproc/epproc.cpp", "double dF1=v.E.re*Bn + v.D.re*Hn - n.re*BH;"),
    ("epproc/epproc.cpp", "double dF2=v.E.im*Bn + v.D.im*Hn - n.im*BH;"),
    ("epproc/epproc.cpp", "double dza=dz*LengthConv[problem->LengthUnits];"),
    ("epproc/epproc.cpp", "dza*=2.*PI*pt.re*LengthConv[problem->LengthUnits];"),
    ("epproc/epproc.cpp", "else dza*=problem->Depth;"),
    ("epproc/epproc.cpp", "results[0]+=(dF1*dza/2.);"), ("epproc/epproc.cpp", "results[1]+=(dF2*dza/2.);"),
    ("epproc/epproc.cpp", "double dT= pt.re*dF2 - dF1*pt.im;"),
    ("epproc/epproc.cpp", "double dza=dz*sqr(LengthConv[problem->LengthUnits]);"),
    ("epproc/epproc.cpp", "results[0]+=(dT*dza*problem->Depth/2.);"),
    # heat flow
    ("hpproc/hpproc.cpp", "dz=abs(contour[k]-contour[k-1])/((double) NumPlotPoints);"),
    ("hpproc/hpproc.cpp", "u=(((double) i)+0.5)/((double) NumPlotPoints);"),
    ("hpproc/hpproc.cpp", "pt=contour[k-1] + u*(contour[k] - contour[k-1]);"),
    ("hpproc/hpproc.cpp", "pt+=n*1.e-06;"), ("hpproc/hpproc.cpp", "z[0] = u.T;"), ("hpproc/hpproc.cpp", "z[0]-= u.T;"),
    ("hpproc/hpproc.cpp", "for(int m=0;j<3 && m<NumList[meshelems[elm]->p[j]];m++)"),
    ("hpproc/hpproc.cpp", "elm=ConList[meshelems[elm]->p[j]][m];"),
    ("hpproc/hpproc.cpp", "Fn = Re(v.F/n);"), ("hpproc/hpproc.cpp", "z[0]+=(Fn*dz*d);"), ("hpproc/hpproc.cpp", "z[1]+=dz*d;"),
    ("hpproc/hpproc.cpp", "z[1]=z[0]/z[1];"), ("hpproc/hpproc.cpp", "z[0]+=(v.T*dz*d);"), ("hpproc/hpproc.cpp", "z[0]=z[0]/z[1];"),
    ("hpproc/hpproc.cpp", "z[1]*=pow(LengthConv[problem->LengthUnits],2.);"), ("hpproc/hpproc.cpp", "z[1]=z[0]*problem->Depth;"),
    # magnetics
    ("fpproc/fpproc.cpp", "d_LineIntegralPoints = 400;"),
    ("fpproc/fpproc.cpp", "dz=abs(contour[k]-contour[k-1])/((double) NumPlotPoints);"),
    ("fpproc/fpproc.cpp", "u=(((double) i)+0.5)/((double) NumPlotPoints);"),
    ("fpproc/fpproc.cpp", "pt=contour[k-1] + u*(contour[k] - contour[k-1]);"), ("fpproc/fpproc.cpp", "pt+=n*1.e-06;"),
    ("fpproc/fpproc.cpp", "for(m=0; j<3 && m<NumList[meshelem[elm].p[j]]; m++)"),
    ("fpproc/fpproc.cpp", "elm=ConList[meshelem[elm].p[j]][m];"),
    ("fpproc/fpproc.cpp", "z[0] = (a0-a1)*Depth;"), ("fpproc/fpproc.cpp", "if(l!=0) z[1]= z[0]/(l*Depth);"),
    ("fpproc/fpproc.cpp", "z[0]= a1-a0;"), ("fpproc/fpproc.cpp", "if(l!=0) z[1]= z[0]/l;"),
    ("fpproc/fpproc.cpp", "l*=std::pow(LengthConv[LengthUnits],2.);"),
    ("fpproc/fpproc.cpp", "Ht = t.re*v.H1 + t.im*v.H2;"), ("fpproc/fpproc.cpp", "z[0]+=(Ht*dz*LengthConv[LengthUnits]);"),
    ("fpproc/fpproc.cpp", "if(l!=0) z[1]=z[0]/l;"),
    ("fpproc/fpproc.cpp", "z[0].im=z[0].re*Depth;"), ("fpproc/fpproc.cpp", "z[0].im*=std::pow(LengthConv[LengthUnits],2.);"),
    ("fpproc/fpproc.cpp", "Hn= n.re*v.H1 + n.im*v.H2;"), ("fpproc/fpproc.cpp", "Bn= n.re*v.B1 + n.im*v.B2;"),
    ("fpproc/fpproc.cpp", "BH= v.B1*v.H1 + v.B2*v.H2;"), ("fpproc/fpproc.cpp", "dF1=v.H1*Bn + v.B1*Hn - n.re*BH;"),
    ("fpproc/fpproc.cpp", "dF2=v.H2*Bn + v.B2*Hn - n.im*BH;"), ("fpproc/fpproc.cpp", "dza=dz*LengthConv[LengthUnits];"),
    ("fpproc/fpproc.cpp", "dza*=2.*PI*pt.re*LengthConv[LengthUnits];"), ("fpproc/fpproc.cpp", "else dza*=Depth;"),
    ("fpproc/fpproc.cpp", "z[0]+=(dF1*dza/2.);"), ("fpproc/fpproc.cpp", "z[1]+=(dF2*dza/2.);"),
    ("fpproc/fpproc.cpp", "z[0]+=(dF1*dza/4.);"), ("fpproc/fpproc.cpp", "z[1]+=(dF2*dza/4.);"),
    ("fpproc/fpproc.cpp", "BH = v.B1*v.H1.Conj() +v.B2*v.H2.Conj();"),
    ("fpproc/fpproc.cpp", "dF1 = v.H1*Bn.Conj() + v.B1*Hn.Conj() - n.re*BH;"),
    ("fpproc/fpproc.cpp", "dF2= v.H2*Bn.Conj() + v.B2*Hn.Conj() - n.im*BH;"),
    ("fpproc/fpproc.cpp", "z[2]+=(dF1*dza/4.);"), ("fpproc/fpproc.cpp", "z[3]+=(dF2*dza/4.);"),
    ("fpproc/fpproc.cpp", "dT= pt.re*dF2 - dF1*pt.im;"), ("fpproc/fpproc.cpp", "dza=dz*LengthConv[LengthUnits]*LengthConv[LengthUnits];"),
    ("fpproc/fpproc.cpp", "z[0]+=(dT*dza*Depth/2.);"), ("fpproc/fpproc.cpp", "z[0]+=(dT*dza*Depth/4.);"), ("fpproc/fpproc.cpp", "z[1]+=(dT*dza*Depth/4.);"),
    ("fpproc/fpproc.cpp", "Ht = n.re * pvals.B1 + n.im * pvals.B2;"),
    ("fpproc/fpproc.cpp", "z[0] += (Ht * Ht.Conj() * dz * LengthConv[LengthUnits]);"),
    ("femmcli/LuaMagneticsCommands.cpp", "if (z != fpproc->contour.back()) fpproc->contour.push_back(z);"),
]


def squeeze(t):
    return "".join(t.split())


def regen(ctx):
    """no generated Coq text: the model is a transcription; check that the statements it transcribes are still in the sources,
    and find out which InTriangleTest HPProc uses"""
    cache = {}
    for f, snip in ANCHORS:
        if f not in cache:
            cache[f] = squeeze(open(os.path.join(ctx.snap.src, f), errors="replace").read())
        if squeeze(snip) not in cache[f]:
            raise vlib.TranslateError("%s no longer contains `%s`: the contour-integral model (ContourInt.v) transcribes it" % (f, snip))
    hp = open(os.path.join(ctx.snap.src, "hpproc/hpproc.cpp"), errors="replace").read()
    m = re.search(r"bool\s+HPProc::InTriangleTest\s*\([^)]*\)\s*const\s*\{(.*?)\n\}", hp, re.S)
    if not m or "PostProcessor::InTriangleTest(x,y,i)" in squeeze(m.group(1)):
        TESTFN["feh"] = "test_ord FA"
    else:
        TESTFN["feh"] = "test_hp FA"


# --------------------------------------------------------------------------- harness ----
def harness(ctx):
    if "exe" not in EXE:
        EXE["exe"] = vlib.build_harness(ctx.snap, "h_contour", libs=("epproc", "hpproc", "fpproc", "femm"))
    return EXE["exe"]


SOLEXT = {"fee": ".res", "feh": ".anh", "fem": ".ans"}


def solve(ctx, p, name, queries, writer=None):
    kind = p["kind"]
    f = os.path.join(ctx.work, name + femmrun.EXT[kind])
    (writer or femgen.write)(p, f)
    r, err = femmrun.run_file(ctx, kind, f, queries)
    if err:
        return None, None, err
    sol = f[:-4] + SOLEXT[kind]
    if not os.path.exists(sol):
        return None, None, "no solution file written"
    return sol, r, None


NVAL = {"fee": 4, "feh": 3, "fem": 8}


def run_harness(ctx, kind, sol, cmds):
    rc, out, err = vlib.sh([harness(ctx), KCH[kind], sol], inp="\n".join(cmds) + "\n", timeout=600)
    d = dict(nodes=[], elems=[], con=[], draw=[], out=[], ok=False)
    q = None
    for line in out.split("\n"):
        t = line.split()
        if not t:
            continue
        k = t[0]
        if k == "O":
            d["ok"] = t[1] == "1"
        elif k == "P":
            d["P"] = [float(x) for x in t[1:]]
        elif k == "n":
            d["nodes"].append((float(t[1]), float(t[2])))
        elif k == "e":
            d["elems"].append([int(x) for x in t[1:5]] + [float(x) for x in t[5:8]])
        elif k == "c":
            d["con"].append([int(x) for x in t[1:]])
        elif k == "d":
            d["draw"].append((float(t[1]), float(t[2])))
        elif k == "q":
            if q is None:
                q = []
            q.append((int(t[1]), int(t[2]), float(t[3]), float(t[4]), int(t[5]), [float(x) for x in t[6:]]))
        elif k == "Q":
            d["out"].append(("R", q or []))
            q = None
        elif k in ("b", "C", "r", "V", "L", "?"):
            d["out"].append((k, [float(x) for x in t[1:]]))
    if rc != 0 or not d["ok"] or "P" not in d:
        return None, "h_contour failed (rc=%d): %s" % (rc, (out[-300:] + err[-300:]))
    return d, None


class Tally:
    def __init__(self):
        self.tot = self.bit = 0
        self.worst = 0
        self.off = []

    def cmp(self, a, b, tag=""):
        self.tot += 1
        u = vlib.ulp_diff(a, float(b))
        if u == 0:
            self.bit += 1
            return True
        self.worst = max(self.worst, min(u, 1 << 40))
        if len(self.off) < 12:
            self.off.append((tag, a, float(b), min(u, 1 << 40)))
        return vlib.close(a, float(b), 64, 1e-300)


# ------------------------------------------------------------------------- contours ----
def bbox(p):
    xs = [q["x"] for q in p["points"]]; ys = [q["y"] for q in p["points"]]
    return min(xs), min(ys), max(xs), max(ys)


def chain(rng, p, nseg):
    """a walk along drawn segments: list of point indices"""
    adj = {}
    for s in p["segments"]:
        adj.setdefault(s["n0"], []).append(s["n1"]); adj.setdefault(s["n1"], []).append(s["n0"])
    if not adj:
        return []
    cur = rng.choice(sorted(adj))
    path = [cur]
    prev = None
    for _ in range(nseg):
        nxt = [n for n in adj[cur] if n != prev and n not in path]
        if not nxt:
            break
        prev, cur = cur, rng.choice(nxt)
        path.append(cur)
    return path


def contours(rng, p, kind, count):
    """seeded contours: [(family, ops, N or None)]; ops: ('a', x, y) | ('p', x, y) | ('b', angle, step)"""
    x0, y0, x1, y1 = bbox(p)
    W, H = x1 - x0, y1 - y0
    out = []
    noarcs = not p.get("arcs")
    fams = ["drawn", "interior", "loop", "bend", "drawn-select" if (kind != "fem" and noarcs) else "interior-nice", "bend", "interior", "drawn"]
    for k in range(count):
        fam = fams[k % len(fams)]
        N = None if k == 0 else rng.choice([7, 16, 25, 40])
        if fam in ("drawn", "drawn-select"):
            path = chain(rng, p, rng.choice([2, 3, 4]))
            if len(path) < 2:
                fam = "interior"
            else:
                pts = [(p["points"][i]["x"], p["points"][i]["y"]) for i in path]
                if fam == "drawn":
                    ops = [("a", x, y) for (x, y) in pts]
                else:
                    # stay well inside the Voronoi cell of the drawn point (closestNode picks the nearest input node)
                    dmin = min(math.hypot(a_["x"] - b_["x"], a_["y"] - b_["y"]) for i_, a_ in enumerate(p["points"]) for b_ in p["points"][i_ + 1:])
                    e = min(0.01 * min(W, H), 0.2 * dmin)
                    ops = [("p", x + rng.uniform(-e, e), y + rng.uniform(-e, e)) for (x, y) in pts]
                out.append((fam, ops, N, pts))
                continue
        if fam == "loop":
            boxes = [("c%d" % (i + 1), bx) for i, bx in enumerate(p.get("cond_boxes", []))] + [("reg", bx) for bx in p.get("regs", [])]
            if boxes:
                nm, (a, b, c, e) = rng.choice(boxes)
                m = 0.03 * min(W, H) * rng.choice([1.0, 2.0])
                pts = [(a - m, b - m), (c + m, b - m), (c + m, e + m), (a - m, e + m), (a - m, b - m)]
                cw = rng.random() < 0.5
                if cw:
                    pts.reverse()                       # clockwise: n = I*t points outwards
                out.append(("loop:%s:%s" % ("cw" if cw else "ccw", nm), [("a", x, y) for (x, y) in pts], N, pts))
                continue
            fam = "interior"
        if fam == "bend":
            cx_, cy_ = x0 + W * rng.uniform(0.35, 0.65), y0 + H * rng.uniform(0.35, 0.65)
            r = 0.12 * min(W, H)
            th = rng.uniform(0, 2 * math.pi)
            a0 = (cx_ - r * math.cos(th), cy_ - r * math.sin(th)); a1 = (cx_ + r * math.cos(th), cy_ + r * math.sin(th))
            ang, step = rng.choice([(90.0, 30.0), (-90.0, 45.0), (45.0, 10.0), (180.0, 45.0), (-180.0, 60.0), (-120.0, 50.0), (30.0, 0.0 + 7.5), (10.0, 0.0)])
            ops = [("a", x0 + W * 0.5, y0 + H * 0.1), ("a",) + a0, ("a",) + a1, ("b", ang, step)]
            if rng.random() < 0.5:
                ops.append(("a", x0 + W * 0.9, y0 + H * 0.9))
            if rng.random() < 0.3:
                ops.append(("b", rng.choice([20.0, -40.0]), 20.0))
            out.append(("bend", ops, N if N else None, None))
            continue
        # interior
        n = rng.choice([2, 3, 4])
        if fam == "interior-nice":
            pts = [(x0 + W * rng.randint(1, 15) / 16.0, y0 + H * rng.randint(1, 15) / 16.0) for _ in range(n)]
        else:
            pts = [(x0 + W * rng.uniform(0.04, 0.96), y0 + H * rng.uniform(0.04, 0.96)) for _ in range(n)]
        ops = [("a", x, y) for (x, y) in pts]
        if rng.random() < 0.3:
            ops.insert(2, ("a",) + pts[1])              # a repeated point: addContourPoint drops it
        out.append((fam if fam != "drawn" else "interior", ops, N, None))
    return out


STYPES = {"fee": [1, 3, 4], "feh": [1], "fem": [1, 3, 4, 5]}     # sampled with the normal shift
ALLTYPES = {"fee": [0, 1, 2, 3, 4], "feh": [0, 1, 2, 3], "fem": [0, 1, 2, 3, 4, 5]}


def contour_cmds(kind, ops, N, defN):
    cmds = ["N %d" % (N or defN), "z"]
    for op in ops:
        if op[0] in ("a", "p"):
            cmds.append("%s %.17g %.17g" % op)
        else:
            cmds.append("b %.17g %.17g" % (op[1], op[2]))
    cmds.append("C")
    cmds += ["r", "V", "r", "L 0", "L 2", "r", "R 1"]
    for t in STYPES[kind]:
        cmds += ["r", "L %d" % t]
    if kind == "feh":
        cmds += ["r", "R 0", "r", "L 3"]
    return cmds


def take(it, key):
    k, v = next(it)
    if k != key:
        raise ValueError("h_contour output out of step: expected %s, got %s" % (key, k))
    return v


def parse_contour(kind, ops, it):
    """consume the harness output of contour_cmds: dict(bends, contour, r, V, L{t}, runs{shift})"""
    res = dict(bends=[], L={}, runs={})
    for op in ops:
        if op[0] == "b":
            res["bends"].append(take(it, "b"))
    c = take(it, "C")
    res["contour"] = [(c[2 * i], c[2 * i + 1]) for i in range(len(c) // 2)]
    res["k0"] = int(take(it, "r")[0])
    res["V"] = take(it, "V")
    take(it, "r")
    res["L"][0] = take(it, "L")[1:]
    res["L"][2] = take(it, "L")[1:]
    take(it, "r")
    res["runs"][1] = take(it, "R")
    for t in STYPES[kind]:
        take(it, "r")
        res["L"][t] = take(it, "L")[1:]
    if kind == "feh":
        take(it, "r")
        res["runs"][0] = take(it, "R")
        take(it, "r")
        res["L"][3] = take(it, "L")[1:]
    return res


# ----------------------------------------------------------------------- model side ----
F = vlib.fhexs


def cpx(re_, im_):
    return "(%s, %s)" % (F(re_), F(im_))


def mesh_defs(d, kind):
    lc = d["P"][1]
    nodes = "; ".join("mkNode %s %s %s" % (F(x), F(y), F(0.0)) for (x, y) in d["nodes"])
    elems = "; ".join("mkElem %d%%nat %d%%nat %d%%nat %d%%nat 0%%nat %s %s %s %s %s" % (e[0], e[1], e[2], e[3], F(e[4]), F(e[5]), F(e[6]), F(0.0), F(0.0))
                      for e in d["elems"])
    con = "; ".join("[%s]" % "; ".join("%d" % x for x in l) for l in d["con"])
    return ("Definition XM : mesh float := mkMesh [%s] [%s] [] [] %s %s.\nDefinition XCON : list (list Z) := [%s].\n"
            % (nodes, elems, F(lc), F(0.0), con))


def contour_expr(ops, bends):
    e = "(@nil (float * float))"
    bi = 0
    for op in ops:
        if op[0] == "a":
            e = "(add_contour_point FA %s %s)" % (e, cpx(op[1], op[2]))
        elif op[0] == "b":
            b = bends[bi]; bi += 1
            n = int(b[0])
            es = "; ".join(cpx(b[4 + 2 * k], b[5 + 2 * k]) for k in range(n))
            e = "(bend_contour FA %s %s %s %s [%s])" % (e, F(op[1]), F(b[1]), cpx(b[2], b[3]), es)
        else:
            raise ValueError(op)
    return e


def vals_text(kind, run, nseg, N):
    rows = []
    for k in range(nseg):
        row = run[k * N:(k + 1) * N]
        if kind == "fee":
            rows.append("; ".join("(%s, %s)" % (cpx(v[0], v[1]), cpx(v[2], v[3])) for (_, _, _, _, _, v) in row))
        elif kind == "feh":
            rows.append("; ".join("(%s, %s)" % (cpx(v[0], v[1]), F(v[2])) for (_, _, _, _, _, v) in row))
        else:
            rows.append("; ".join("((%s, %s), (%s, %s))" % (cpx(v[0], v[1]), cpx(v[2], v[3]), cpx(v[4], v[5]), cpx(v[6], v[7])) for (_, _, _, _, _, v) in row))
    return "[%s]" % "; ".join("[%s]" % r for r in rows)


VTYPE = {"fee": "((float * float) * (float * float))", "feh": "((float * float) * float)",
         "fem": "(((float * float) * (float * float)) * ((float * float) * (float * float)))"}


def model_expr(kind, d, ops, res, N, have_select, tag):
    """Coq text for one contour: (definitions, expression); the expression evaluates to
    (contour, run (shifted), [run unshifted], [integrals]).  The large literals are top-level definitions (a `let` with a
    large body under the evars of the result's type makes the elaborator copy it)"""
    axi, lc, depth = d["P"][0], d["P"][1], d["P"][2]
    harm = d["P"][5] != 0
    if have_select:
        c = "[%s]" % "; ".join(cpx(x, y) for (x, y) in res["contour"])
    else:
        c = contour_expr(ops, res["bends"])
    nseg = max(len(res["contour"]) - 1, 0)
    test = TESTFN[kind]
    pre = "%d%%nat %s %s %s" % (N, "true" if axi else "false", F(lc), F(depth))
    defs = "Definition XC%s : list (float * float) := %s.\n" % (tag, c)
    defs += "Definition XV1%s : list (list %s) := %s.\n" % (tag, VTYPE[kind], vals_text(kind, res["runs"][1], nseg, N))
    c = "XC" + tag
    run1 = "contour_run FA %d%%nat XM (%s) XCON true (pairs %s) (%d)" % (N, test, c, res["k0"])
    tab1 = "mask_tab run1 XV1%s" % tag
    V = res["V"]
    if kind == "fee":
        ints = "; ".join("e_line FA %s %d%%nat %s tab1 %s %s" % (pre, t, c, F(V[1]), F(V[4])) for t in ALLTYPES[kind])
        return defs, "let run1 := %s in let tab1 := %s in (%s, run1, [%s])" % (run1, tab1, c, ints)
    if kind == "feh":
        defs += "Definition XV0%s : list (list %s) := %s.\n" % (tag, VTYPE[kind], vals_text(kind, res["runs"][0], nseg, N))
        run0 = "contour_run FA %d%%nat XM (%s) XCON false (pairs %s) (%d)" % (N, test, c, res["k0"])
        tab0 = "mask_tab run0 XV0%s" % tag
        ints = "; ".join("h_line FA %s %d%%nat %s %s %s %s" % (pre, t, c, "tab0" if t == 3 else "tab1", F(V[1]), F(V[4])) for t in ALLTYPES[kind])
        return defs, ("let run1 := %s in let tab1 := %s in let run0 := %s in let tab0 := %s in (%s, run1, run0, [%s])"
                      % (run1, tab1, run0, tab0, c, ints))
    z = "(%s, %s, %s, %s)" % ((cpx(0.0, 0.0),) * 4)
    ints = "; ".join("m_line FA %s %s %d%%nat %s tab1 %s %s %s" % (pre, "true" if harm else "false", t, c, cpx(V[1], V[2]), cpx(V[4], V[5]), z) for t in ALLTYPES[kind])
    return defs, "let run1 := %s in let tab1 := %s in (%s, run1, [%s])" % (run1, tab1, c, ints)


def flat(x):
    if isinstance(x, (tuple, list)):
        r = []
        for y in x:
            r += flat(y)
        return r
    return [x]


def compare(tally, kind, res, m, N, tag):
    """model output against the harness' replay and the real lineIntegral; returns the first disagreement or None"""
    bad = None
    if kind == "feh":
        mc, mrun1, mrun0, mints = m
        runs = [(1, mrun1), (0, mrun0)]
    else:
        mc, mrun1, mints = m
        runs = [(1, mrun1)]
    mc = [flat(z) for z in mc]
    if len(mc) != len(res["contour"]):
        return "%s: the contour has %d points, the model's %d" % (tag, len(res["contour"]), len(mc))
    for i, ((x, y), (mx, my)) in enumerate(zip(res["contour"], mc)):
        if not (tally.cmp(x, mx, "contour") and tally.cmp(y, my, "contour")) and not bad:
            bad = "%s: contour point %d is (%r, %r), the model's (%r, %r)" % (tag, i, x, y, mx, my)
    for shift, mrun in runs:
        impl = res["runs"][shift]
        mfl = [flat(s) for row in mrun for s in row]
        if len(mfl) != len(impl):
            return bad or "%s: %d samples replayed, the model has %d" % (tag, len(impl), len(mfl))
        for (k, i, px, py, elm, _), (mx, my, melm) in zip(impl, mfl):
            okp = tally.cmp(px, mx, "sample point") and tally.cmp(py, my, "sample point")
            tally.tot += 1
            if elm == melm:
                tally.bit += 1
            if (not okp or elm != melm) and not bad:
                bad = "%s: sample %d of segment %d (shift %d): implementation pt (%r, %r) element %d, model pt (%r, %r) element %d" % (
                    tag, i, k, shift, px, py, elm, mx, my, melm)
    for t, mv in zip(ALLTYPES[kind], mints):
        mv = flat(mv)
        iv = res["L"][t]
        if t == 0 and (res["V"][0] != 1 or res["V"][3] != 1):
            continue                                    # an end of the contour is outside the mesh: u is not assigned
        for j, (a, b) in enumerate(zip(iv, mv)):
            if kind != "fem" and t in (0, 4) and j == 1:
                continue                                # results[1] is not assigned by inttype 0 / not returned by 4
            if not tally.cmp(a, b, "%s lineIntegral(%d)[%d]" % (kind, t, j)) and not bad:
                bad = "%s: lineIntegral(%d) component %d: implementation %r, model %r" % (tag, t, j, a, b)
    return bad


# -------------------------------------------------------------------------- oracles ----
def seglen(a, b):
    dx = Fraction(b[0]) - Fraction(a[0]); dy = Fraction(b[1]) - Fraction(a[1])
    return math.sqrt(dx * dx + dy * dy)


def oracles(ctx, kind, p, d, fam, ops, res, drawn, fres, notes):
    axi, lc, depth = d["P"][0], d["P"][1], d["P"][2]
    c = res["contour"]
    L2 = res["L"][2]
    pts = None
    if drawn is not None:
        pts = drawn
    elif all(op[0] == "a" for op in ops):
        pts = [op[1:] for op in ops]
    if pts:
        # consecutive duplicates do not count
        ded = [pts[0]] + [q for k_, q in enumerate(pts[1:]) if q != pts[k_]]
        want = sum(seglen(a, b) for a, b in zip(ded, ded[1:])) * lc
        if abs(L2[0] - want) > 1e-12 * max(want, 1e-300):
            ctx.fail("%s: contour length %.17g m differs from the length of the drawn polyline %.17g m" % (kind, L2[0], want), problem=p, contour=ops)
        if fam == "drawn-select" and [tuple(q) for q in c] != [tuple(q) for q in ded]:
            ctx.fail("%s: selecting the drawn points %r gives the contour %r" % (kind, ded, c), problem=p, contour=ops)
        if axi:
            wa = sum(math.pi * float(Fraction(a[0]) + Fraction(b[0])) * seglen(a, b) for a, b in zip(ded, ded[1:])) * lc * lc
            sc = sum(math.pi * (abs(a[0]) + abs(b[0])) * seglen(a, b) for a, b in zip(ded, ded[1:])) * lc * lc
        else:
            wa = want * depth; sc = wa
        if abs(L2[1] - wa) > 1e-12 * max(sc, 1e-300):
            ctx.fail("%s: area swept by the contour %.17g m^2 differs from the drawn polyline's %.17g m^2" % (kind, L2[1], wa), problem=p, contour=ops)
    # femmcli's xo_lineintegral on the same contour (only plain point lists)
    if fres is not None:
        for t, fv in fres.items():
            iv = res["L"][t]
            if kind == "fem":
                iv = {0: [iv[0], iv[2]], 1: [iv[0], iv[2]], 5: [iv[0], iv[2]], 2: [iv[0], iv[1]],
                      3: ([iv[4], iv[6], iv[0], iv[2]] if d["P"][5] != 0 else [iv[0], iv[2]]),
                      4: ([iv[2], iv[0]] if d["P"][5] != 0 else [iv[0], 0.0])}[t]
            n = 1 if (kind != "fem" and t in (0, 4)) else len(fv)
            for j in range(min(n, len(fv), len(iv))):
                a, b = fv[j], iv[j]
                if not isinstance(a, float):
                    continue
                if a != a and b != b:
                    continue
                sc = max(abs(x) for x in iv + [1e-300])
                if t == 0:
                    if res["V"][0] != 1 or res["V"][3] != 1:
                        continue                        # an end outside the mesh: the point values are not assigned
                    sc = max(sc, abs(res["V"][1]), abs(res["V"][4]), abs(res["V"][2]), abs(res["V"][5]))
                if not (abs(a - b) <= 1e-9 * sc):
                    ctx.fail("%s: %s_lineintegral(%d) of femmcli returns %.17g as value %d, the class gives %.17g" % (kind, femmrun.PRE[kind][1], t, a, j, b),
                             problem=p, contour=ops)
    if kind == "fem":
        V = res["V"]
        if V[0] == 1 and V[3] == 1:
            z0 = res["L"][0][0:2]
            want = [(V[1] - V[4]) * depth, (V[2] - V[5]) * depth] if not axi else [V[4] - V[1], V[5] - V[2]]
            sc = max(abs(V[1]), abs(V[4]), abs(V[2]), abs(V[5]), 1e-300) * (depth if not axi else 1.0)
            if abs(z0[0] - want[0]) > 1e-12 * sc or abs(z0[1] - want[1]) > 1e-12 * sc:
                ctx.fail("fem: B.n integral %r differs from the difference of A at the contour ends %r" % (z0, want), problem=p, contour=ops)
            # sampled B.n (mid-point rule on the replayed samples) against the same difference: to mesh / smoothing accuracy, reported
            if not axi and len(c) >= 2 and d["P"][5] == 0:
                N = len(res["runs"][1]) // (len(c) - 1)
                s = 0.0
                for (k, i, px, py, elm, v) in res["runs"][1]:
                    if elm < 0:
                        continue
                    a, b = c[k - 1], c[k]
                    ln = math.hypot(b[0] - a[0], b[1] - a[1])
                    tx, ty = (b[0] - a[0]) / ln, (b[1] - a[1]) / ln
                    s += (-ty * v[0] + tx * v[2]) * ln / N * lc * depth
                notes.append(dict(what="fem: mid-point sum of B.n over the samples vs (A0-A1)*Depth", sampled=s, from_A=want[0]))


# ----------------------------------------------------------------------- generators ----
def problems(rng, kind, quick):
    ps = []
    if kind == "fee":
        ps.append(("c13", c13.build(rng, "fee", axi=False)))
        ps.append(("c13", c13.build(rng, "fee", axi=True)))
        for k in range(1 if quick else 5):
            q = c03.gen_problem(rng, True, rng.randrange(8))
            if all(l.get("external") for l in q["labels"]):
                for l in q["labels"]:
                    l["external"] = 0
            for l in q["labels"]:
                if l.get("external"):
                    b = q["blockprops"][l["block"] - 1]
                    b["ey"] = b["ex"]
            ps.append(("c03", q))
        if not quick:
            ps += [("c13", c13.build(rng, "fee", axi=(k % 2 == 1))) for k in range(3)]
    elif kind == "feh":
        ps.append(("c13", c13.build(rng, "feh", axi=True)))
        ps.append(("c13", c13.build(rng, "feh", axi=False)))
        for k in range(0 if quick else 4):
            q = femgen.gen_scalar_problem(rng, "feh", size_nodes=rng.choice([40, 100]), box=[None, "cfloat", "cfix", "material", "hole-fix"][k % 5])
            q["dosmartmesh"] = 0
            ps.append(("gen", q))
    else:
        ps.append(("c13", c13.build(rng, "fem", axi=False)))
        ps.append(("c05", c05_gen.gen_problem(rng, harmonic=False, size_nodes=40 if quick else 100)))
        ps.append(("c05h", c05_gen.gen_problem(rng, harmonic=True, size_nodes=40 if quick else 100)))
        if not quick:
            from props import xint
            ps += [("axi", xint.m_axi_problem(rng, False)) for k in range(2)]
            ps += [("c05", c05_gen.gen_problem(rng, harmonic=(k % 2 == 0), size_nodes=100)) for k in range(3)]
            ps += [("c13", c13.build(rng, "fem", axi=False)) for k in range(1)]
    return ps


def run_kind(ctx, rng, kind, tally, dis, feats, samples, notes, model=True):
    done = cases = 0
    jobs = []
    for k, (fam, p) in enumerate(problems(rng, kind, ctx.quick())):
        for ft in p["features"]:
            feats["%s:%s" % (kind, ft)] = feats.get("%s:%s" % (kind, ft), 0) + 1
        cs = contours(rng, p, kind, 4 if ctx.quick() else 6)
        # femmcli's own line integrals for the plain point-list contours
        queries, qmap = [("nodes",)], {}
        if kind != "fem" and p.get("cond_boxes"):
            qmap["c1"] = len(queries); queries.append(("cond", "c1"))
            qmap["c2"] = len(queries); queries.append(("cond", "c2"))
        for ci, (cf, ops, N, drawn) in enumerate(cs):
            if N is None and all(op[0] == "a" for op in ops):
                for t in ALLTYPES[kind]:
                    qmap[(ci, t)] = len(queries)
                    queries.append(("line", [op[1:] for op in ops], t))
        writer = c05_gen.write if kind == "fem" and fam in ("c05", "c05h", "axi") else None
        if kind == "fem" and writer is None:
            writer = c05_gen.write
        sol, fr, err = solve(ctx, p, "xl%s%d" % (KCH[kind], k), queries, writer=writer)
        if err:
            ctx.fail("%s run failed on a well-formed problem: %s" % (kind, err), problem=p); continue
        cmds = []
        for (cf, ops, N, drawn) in cs:
            cmds += contour_cmds(kind, ops, N, 400)
        # additivity / reversal on the implementation's outputs: the first multi-segment plain contour, its two parts, its reverse
        extra = None
        for ci, (cf, ops, N, drawn) in enumerate(cs):
            pts = [op[1:] for op in ops]
            if all(op[0] == "a" for op in ops) and len(pts) >= 3 and len(set(pts)) == len(pts):
                h = len(pts) // 2
                extra = (pts, pts[:h + 1], pts[h:], pts[::-1])
                for part in extra:
                    cmds += ["N 20", "z"] + ["a %.17g %.17g" % q for q in part] + ["r", "V", "r", "L 0"] + [x for t in ALLTYPES[kind][1:] for x in ("r", "L %d" % t)]
                break
        d, err = run_harness(ctx, kind, sol, cmds)
        if err:
            ctx.fail(err, problem=p); continue
        done += 1
        it = iter(d["out"])
        exprs, meta, defs = [], [], []
        defN = 400
        try:
            for ci, (cf, ops, N, drawn) in enumerate(cs):
                res = parse_contour(kind, ops, it)
                fam0 = cf.split(":")[0]
                feats["contour:" + fam0] = feats.get("contour:" + fam0, 0) + 1
                if cf.startswith("loop:") and cf.split(":")[2] in qmap:
                    # closed contour around a conductor: the flux through it against the conductor's charge / heat flow as the
                    # solver reports it (agreement to mesh accuracy only: reported, not judged)
                    cq = fr.get("q%d" % qmap[cf.split(":")[2]], [])
                    if len(cq) >= 2 and isinstance(cq[1], float):
                        sign = 1.0 if cf.split(":")[1] == "cw" else -1.0
                        notes.append(dict(what="%s: closed contour (%s) around conductor %s: flux through it vs the conductor's %s" % (
                            kind, cf.split(":")[1], cf.split(":")[2], "charge" if kind == "fee" else "heat flow"),
                            outward_flux=sign * res["L"][1][0], conductor=cq[1], N=N or defN))
                fres = None
                if (ci, ALLTYPES[kind][0]) in qmap:
                    fres = {t: fr.get("q%d" % qmap[(ci, t)], []) for t in ALLTYPES[kind]}
                oracles(ctx, kind, p, d, cf, ops, res, drawn, fres, notes)
                nn = N or defN
                nseg = max(len(res["contour"]) - 1, 0)
                if len(res["runs"][1]) != nn * nseg:
                    ctx.fail("%s: %d samples for %d segments with d_LineIntegralPoints = %d" % (kind, len(res["runs"][1]), nseg, nn), problem=p, contour=ops)
                    continue
                df, ex = model_expr(kind, d, ops, res, nn, any(op[0] == "p" for op in ops), "_%d" % ci)
                defs.append(df)
                exprs.append(ex)
                meta.append((cf, ops, res, nn))
                if len(samples) < 12:
                    samples.append(dict(physics=kind, features=p["features"], nodes=len(d["nodes"]), elements=len(d["elems"]), family=cf,
                                        points=len(res["contour"]), samples=len(res["runs"][1]), N=nn))
            if extra:
                vals = []
                for part in extra:
                    take(it, "r")
                    vv = take(it, "V")
                    take(it, "r")
                    v = {0: take(it, "L")[1:], "V": vv}
                    for t in ALLTYPES[kind][1:]:
                        take(it, "r")
                        v[t] = take(it, "L")[1:]
                    vals.append(v)
                check_additive(ctx, kind, p, d, extra, vals)
        except (ValueError, StopIteration) as e:
            ctx.fail("h_contour output could not be read: %s" % e, problem=p); continue
        jobs.append((p, d, meta, exprs, kind, "".join(defs)))
        cases += len(exprs)
    if model:
        for (p, d, meta, exprs, kind, defs) in jobs:
            # the list-based model looks every sample up by walking the mesh: its vm_compute cost grows with nodes x samples; meshes
            # above the cap are checked by the oracles only (count in the coverage notes)
            cap = 700 if ctx.quick() else 2500
            if len(d["nodes"]) > cap:
                notes.append(dict(what="mesh of %d nodes above the model-evaluation cap %d: contours of this problem were checked by the oracles only"
                                       % (len(d["nodes"]), cap), features=p.get("features")))
                continue
            ms = vlib.coq_eval(HEADER + "\n" + mesh_defs(d, kind) + defs, exprs, shard=100, timeout=1800, name="xl" + KCH[kind])
            for (cf, ops, res, nn), m in zip(meta, ms):
                bad = compare(tally, kind, res, m, nn, "%s %s contour" % (kind, cf))
                if bad:
                    dis.append(dict(what="lineIntegral correspondence: " + bad, problem=p, contour=ops))
    return done, cases


def check_additive(ctx, kind, p, d, extra, vals):
    """whole = part1 ++ part2 (sharing the joint); rev = the whole reversed"""
    whole, p1, p2, rev = vals
    axi = d["P"][0]
    # components that are plain sums over the samples / segments
    summed = {"fee": {1: [0], 2: [0, 1], 3: [0, 1], 4: [0]}, "feh": {1: [0], 2: [0, 1]},
              "fem": {0: [0, 1], 1: [0, 1], 2: [0, 1], 3: [0, 1, 2, 3, 4, 5, 6, 7], 4: [0, 1, 2, 3], 5: [0, 1]}}[kind]
    if kind != "fem":
        summed[0] = [0]
    ends_in = all(v["V"][0] == 1 and v["V"][3] == 1 for v in vals)
    vsc = max(abs(x) for v in vals for x in (v["V"][1], v["V"][2], v["V"][4], v["V"][5]))
    for t, comps in summed.items():
        if t == 0 and not ends_in:
            continue                                    # an end outside the mesh: the point values are not assigned
        for j in comps:
            a, b, w = p1[t][j], p2[t][j], whole[t][j]
            if not all(math.isfinite(x) for x in (a, b, w)):
                continue
            sc = max(abs(a), abs(b), abs(w), 1e-300)
            if t == 0:
                sc = max(sc, vsc * (d["P"][2] if kind == "fem" and not axi else 1.0))
            if abs(w - (a + b)) > 1e-9 * sc:
                ctx.fail("%s: line integral %d (component %d) is not additive over concatenation: %.15g + %.15g vs %.15g" % (kind, t, j, a, b, w),
                         problem=p, contour=extra[0], integral=t)
    # reversal: the length and the swept area do not change; the potential difference changes sign
    for j in (0, 1):
        if abs(rev[2][j] - whole[2][j]) > 1e-12 * max(abs(whole[2][j]), 1e-300):
            ctx.fail("%s: contour length / area changes under reversal: %.17g vs %.17g" % (kind, rev[2][j], whole[2][j]), problem=p, contour=extra[0])
    for j in ([0] if kind != "fem" else [0, 1]):
        a, b = whole[0][j], rev[0][j]
        if ends_in and math.isfinite(a) and math.isfinite(b) and abs(a + b) > 1e-9 * max(abs(a), abs(b), vsc * (d["P"][2] if kind == "fem" and not axi else 1.0), 1e-300):
            # the ends are looked up in a different order, which may pick another element at a shared node: rounding only
            ctx.fail("%s: line integral 0 does not change sign under reversal: %.17g vs %.17g" % (kind, a, b), problem=p, contour=extra[0])


def correspond(ctx):
    rng = ctx.rng
    tally = Tally()
    dis, feats, samples, notes = [], {}, [], []
    per = {}
    tot_done = tot_cases = 0
    for kind in ("fee", "feh", "fem"):
        dn, cs = run_kind(ctx, rng, kind, tally, dis, feats, samples, notes)
        per[kind] = dict(problems=dn, contours=cs)
        tot_done += dn; tot_cases += cs
    cov = ctx.res.cov
    cov["evaluations"] = tot_cases
    cov["distinct_nontrivial"] = tot_cases
    cov["per_physics"] = per
    cov["observations"] = notes[:40]
    cov["hpproc_intriangletest"] = TESTFN["feh"]
    cov["rule"] = ("generated solved problems (electrostatics: C13's multi-block layout planar and axisymmetric, C03's family; heat flow: C13's "
                   "layout, the scalar family; magnetics: C13's layout, C05's planar family static and time-harmonic, in the thorough tier the "
                   "axisymmetric family), all length units; per problem 4 (quick) / 6 seeded contours: along drawn segments (addContourPoint "
                   "of the drawn points, or addContourPointFromNode near them), through element interiors (random and grid points, repeated "
                   "points), closed loops around conductor / region boxes in both orientations, contours with one or two bendContour calls "
                   "(angles 10..180 degrees of both signs, anglestep 0 included); d_LineIntegralPoints = 400 (default) for the first contour of "
                   "a problem, 7..40 for the others; every integral type of the class evaluated by the real lineIntegral and by the float "
                   "reading of the model (contour points, every sample point, every element index of the lookup, every result); one "
                   "evaluation = one contour with all its integral types")
    cov["input_distribution"] = feats
    cov["samples"] = samples
    cov["values_compared"] = tally.tot
    cov["bit_identical"] = tally.bit
    cov["bit_identical_fraction"] = round(tally.bit / max(tally.tot, 1), 6)
    cov["worst_ulp"] = tally.worst
    cov["not_bit_identical"] = [dict(what=w, implementation=a, model=b, ulps=u) for (w, a, b, u) in tally.off]
    return dis


def search(ctx, broken):
    """a proof or the correspondence broke: run the oracles on the implementation's own outputs (no model)"""
    before = len(ctx.failing_inputs)
    rng = vlib.Rng(ctx.seed + 11)
    saved = ctx.tier
    ctx.tier = "quick"
    try:
        for kind in ("fee", "feh", "fem"):
            run_kind(ctx, rng, kind, Tally(), [], {}, [], [], model=False)
    finally:
        ctx.tier = saved
    found = ctx.failing_inputs[before:]
    del ctx.failing_inputs[before:]
    return found
