"""xload — extension of the C02 check: the mesh readers of the three solvers (FSolver::LoadMesh, ESolver::LoadMesh,
HSolver::LoadMesh).  Model: coq/theories/LoadMesh.v (+ gen/LoadConsts.v regenerated here); proofs: LoadMeshProofs.v;
theorems: Properties_C02_load.v, Properties_C08_load.v, Properties_C20_load.v.  Run by props/c02.py through props/ext.py.

Correspondence: the mesh files (.node/.pbc/.ele/.edge) are tokenised HERE (python int()/float(): the lexing of numbers is
not modelled) and handed as number tables to the Coq model (Eval vm_compute, primitive floats) together with the tables of
the problem that LoadMesh consults (LengthUnits, labellist[].IsDefault/BlockType, lineproplist[].BdryFormat, dumped by the
harness from the real solver object after the real LoadProblemFile); the same files are loaded by the real solver classes
through harness/h_loadmesh2.cpp, which dumps the returned LoadMeshErr, every node (x, y, BoundaryMarker, InConductor), every
element (p[], e[], blk, lbl), the pbc list, the air-gap quad nodes and which mesh files still exist.  Everything must be
EQUAL (coordinates bit for bit).  Inputs: real fmesher output for generated problems of all three physics (c02's / geomgen's
generators incl. periodic problems, conductors, point properties, default labels) and hand-made mesh files with what
Triangle never writes (edges in reverse orientation, listed twice, marked interior edges shared by two elements, format-2
boundary properties on interior edges, unknown edges, markers 0 / -1 / positive / with conductor only, node markers on
interior nodes, attributes 0 / too big, negative air-gap quad nodes, every LengthUnits value, deleteFiles on and off).
Oracle on the implementation alone (python mirror of the THEOREMS, not of the loops): every element side carries the
property of the last .edge row with the same end nodes that assigns one, node fields decode by the codec, conductors of
.edge rows reach both end nodes, labels are attribute-1 / default."""
import os, sys, re, json, shutil
sys.path.insert(0, os.path.dirname(os.path.dirname(os.path.abspath(__file__))))
import vlib, femgen, meshlib, geomgen

LEVEL = "proof"
COQ_MODULES = ["LoadMesh"]
ASSUMPTIONS = [
    "number lexing is not modelled: the model starts from the number tables of .node/.pbc/.ele/.edge (fscanf %i / %lf, fgets+sscanf, "
    "header counts equal to the number of rows, no octal/hex prefixes, every integer within 32 bits and attribute > INT_MIN); the "
    "tables the correspondence feeds to the model are tokenised by python from the very files the real LoadMesh reads",
    "the tables of the problem that LoadMesh consults (LengthUnits, labellist IsDefault/BlockType, lineproplist BdryFormat) are inputs of "
    "the model; NumBlockLabels = labellist.size() (checked on every run); LoadProblemFile itself is the subject of C13",
    "the model is hand-written; its tie to the three LoadMesh bodies is the correspondence run here (exact equality of every dumped "
    "number, coordinates bit for bit) and the anchors/constants regenerated from the sources (gen/LoadConsts.v)",
    "accesses with an index taken from a file that falls outside nmbr[]/mbr[]/meshnode[]/lineproplist are UB in the model (no check in the "
    "C++); theorems about loaded meshes assume load_mesh = Loaded, which the model returns only when every such access is in range; "
    "fopen failures (BADNODEFILE/BADPBCFILE/BADELEMENTFILE/BADEDGEFILE) and the previous-solution path of fsolver "
    "(meshLoadedFromPrevSolution) are not modelled; of an air-gap element only the quad-node indices are modelled",
]
HEADER = ("From Coq Require Import ZArith List Floats. Import ListNotations. From XF Require Import Arith Marker LoadMesh. "
          "Local Open Scope Z_scope.")
SOLVER = {"fee": "e", "feh": "h", "fem": "m"}
VARIANT = {"fee": "VE", "feh": "VH", "fem": "VM"}
EXT = {"fee": ".fee", "feh": ".feh", "fem": ".fem"}
MESH_EXT = [".ele", ".node", ".pbc", ".poly", ".edge"]          # order of the harness' FILES line = mfile_code

ANCHORS = [
    # fsolver
    ("fsolver/fsolver.cpp", "if(j>1) j=j-2; else j=-1; node.BoundaryMarker=j;"),
    ("fsolver/fsolver.cpp", "node.x *= 100 * LengthConvMeters[LengthUnits]; node.y *= 100 * LengthConvMeters[LengthUnits];"),
    ("fsolver/fsolver.cpp", "if ( (qp.n0 < 0) || (qp.n1 < 0) || (qp.n2 < 0) || (qp.n3 < 0) )"),
    ("fsolver/fsolver.cpp", "if(j<0) { j = -(j+2);"),
    ("fsolver/fsolver.cpp", "for(q=0; q<nmbr[n0]; q++) { elm=meshele[mbr[n0][q]]; if ((elm.p[0] == n0) && (elm.p[1] == n1)) elm.e[0]=j; "
                            "if ((elm.p[0] == n1) && (elm.p[1] == n0)) elm.e[0]=j; if ((elm.p[1] == n0) && (elm.p[2] == n1)) elm.e[1]=j; "
                            "if ((elm.p[1] == n1) && (elm.p[2] == n0)) elm.e[1]=j; if ((elm.p[2] == n0) && (elm.p[0] == n1)) elm.e[2]=j; "
                            "if ((elm.p[2] == n1) && (elm.p[0] == n0)) elm.e[2]=j; meshele[mbr[n0][q]]=elm; }"),
]
for _s in ("esolver/esolver.cpp", "hsolver/hsolver.cpp", "fsolver/fsolver.cpp"):
    ANCHORS += [
        (_s, "for(i=0,defaultLabel=-1;i<NumBlockLabels;i++)"),
        (_s, "elm.lbl--;"),
        (_s, "if(elm.lbl<0)"),
        (_s, "if (!(elm.lbl < (int)labellist.size()))"),
        (_s, "meshele[i].e[j] = -1;"),
        (_s, "nmbr[meshele[i].p[j]]++;"),
        (_s, "k=meshele[i].p[j]; mbr[k][nmbr[k]]=i; nmbr[k]++;"),
        (_s, "pclist.push_back(pbc);".replace("pclist", "pbclist")),
    ]
for _s in ("esolver/esolver.cpp", "hsolver/hsolver.cpp"):
    ANCHORS += [
        (_s, "node.BoundaryMarker = j; node.InConductor = n;"),
        (_s, "if (n>=0) { meshnode[n0].InConductor=n; meshnode[n1].InConductor=n; } } else j=-1; if (j>=0) {"),
        (_s, "for(q=0,n=false;q<nmbr[n0];q++) { elm=meshele[mbr[n0][q]]; if ((elm.p[0] == n0) && (elm.p[1] == n1)) {elm.e[0]=j; n=true;} "
             "if ((elm.p[0] == n1) && (elm.p[1] == n0)) {elm.e[0]=j; n=true;} if ((elm.p[1] == n0) && (elm.p[2] == n1)) {elm.e[1]=j; n=true;} "
             "if ((elm.p[1] == n1) && (elm.p[2] == n0)) {elm.e[1]=j; n=true;} if ((elm.p[2] == n0) && (elm.p[0] == n1)) {elm.e[2]=j; n=true;} "
             "if ((elm.p[2] == n1) && (elm.p[0] == n0)) {elm.e[2]=j; n=true;} meshele[mbr[n0][q]]=elm;"),
    ]
ANCHORS += [("esolver/esolver.cpp", "double cf = units[LengthUnits]; node.x *= cf; node.y *= cf;"),
            ("hsolver/hsolver.cpp", "node.x *= c[LengthUnits]; node.y *= c[LengthUnits];")]


def squeeze(t):
    return "".join(t.split())


def nocomment(src):
    src = re.sub(r"/\*.*?\*/", "", src, flags=re.S)
    return re.sub(r"//[^\n]*", "", src)


def dec_literal(tok):
    """C decimal literal -> (m, e) with value m*10^e"""
    m = re.fullmatch(r"\s*([0-9]*)\.?([0-9]*)(?:[eE]([-+]?[0-9]+))?\s*", tok)
    if not m or not (m.group(1) or m.group(2)):
        raise vlib.TranslateError("xload: cannot read the unit constant %r" % tok)
    ip, fp, ex = m.group(1) or "", m.group(2) or "", int(m.group(3) or 0)
    fp = fp.rstrip("0")
    mant = int((ip + fp) or "0")
    e = ex - len(fp)
    while mant and mant % 10 == 0 and e < 0:
        mant //= 10; e += 1
    if abs(mant) >= 2 ** 53 or abs(e) > 22:
        raise vlib.TranslateError("xload: unit constant %r is outside the exactly-convertible range" % tok)
    return mant, e


def regen(ctx):
    src = {}
    for f, snip in ANCHORS:
        if f not in src:
            src[f] = squeeze(nocomment(open(os.path.join(ctx.snap.src, f), errors="replace").read()))
        if squeeze(snip) not in src[f]:
            raise vlib.TranslateError("%s no longer contains `%s`: the LoadMesh model (LoadMesh.v) transcribes it" % (f, snip))

    def table(f, pat, what):
        t = nocomment(open(os.path.join(ctx.snap.src, f), errors="replace").read())
        m = re.search(pat, t, re.S)
        if not m:
            raise vlib.TranslateError("xload: %s not found in %s" % (what, f))
        vals = [dec_literal(x) for x in m.group(1).split(",") if x.strip()]
        if len(vals) != 6:
            raise vlib.TranslateError("xload: %s has %d entries, 6 expected" % (what, len(vals)))
        return vals
    ue = table("esolver/esolver.cpp", r"constexpr\s+double\s+units\[\]\s*=\s*\{([^}]*)\}", "units[]")
    uh = table("hsolver/hsolver.cpp", r"LoadMesh\(bool deleteFiles\).*?double\s+c\[\]\s*=\s*\{([^}]*)\}", "c[] of HSolver::LoadMesh")
    um = table("libfemm/femmenums.h", r"constexpr\s+double\s+LengthConvMeters\[6\]\s*=\s*\{([^}]*)\}", "LengthConvMeters[6]")
    fs = nocomment(open(os.path.join(ctx.snap.src, "fsolver/fsolver.cpp"), errors="replace").read())
    m = re.search(r"node\.x\s*\*=\s*(\d+)\s*\*\s*LengthConvMeters\[LengthUnits\]", fs)
    if not m:
        raise vlib.TranslateError("xload: fsolver coordinate scale not found")
    scale = int(m.group(1))
    h = nocomment(open(os.path.join(ctx.snap.src, "libfemm/feasolver.h"), errors="replace").read())
    m = re.search(r"enum\s+LoadMeshErr\s*\{([^}]*)\}", h, re.S)
    if not m:
        raise vlib.TranslateError("xload: enum LoadMeshErr not found")
    names = [x.strip() for x in m.group(1).split(",") if x.strip()]
    if any("=" in x for x in names) or names[0] != "NOERROR":
        raise vlib.TranslateError("xload: enum LoadMeshErr has explicit values / NOERROR is not first")
    code = {n: i for i, n in enumerate(names)}
    # the formats for which the search of esolver / hsolver stops at the first owner of the edge: the shipped text
    # (BdryFormat==2) or a range (BdryFormat>=a) && (BdryFormat<=b) (findings/XLOAD-1.diff)
    stops = {}
    for solver in ("esolver", "hsolver"):
        t = squeeze(nocomment(open(os.path.join(ctx.snap.src, solver, solver + ".cpp"), errors="replace").read()))
        m1 = re.search(r"meshele\[mbr\[n0\]\[q\]\]=elm;if\(\(lineproplist\[j\]\.BdryFormat==(\d+)\)&&\(n\)\)q=nmbr\[n0\];", t)
        m2 = re.search(r"meshele\[mbr\[n0\]\[q\]\]=elm;if\(\(lineproplist\[j\]\.BdryFormat>=(\d+)\)&&\(lineproplist\[j\]\.BdryFormat<=(\d+)\)&&\(n\)\)q=nmbr\[n0\];", t)
        if m1:
            stops[solver] = [int(m1.group(1))]
        elif m2:
            stops[solver] = list(range(int(m2.group(1)), int(m2.group(2)) + 1))
        else:
            raise vlib.TranslateError("xload: the early exit of the edge search (BdryFormat test after meshele[mbr[n0][q]]=elm;) was not found in %s.cpp" % solver)
    STOPS["fee"], STOPS["feh"] = stops["esolver"], stops["hsolver"]
    for n in ("BADPBCFILE", "MISSINGMATPROPS", "ELMLABELTOOBIG"):
        if n not in code:
            raise vlib.TranslateError("xload: LoadMeshErr::%s missing" % n)

    def zl(vals):
        return "[" + "; ".join("(%d, %s)" % (a, meshlib.zc(b)) for a, b in vals) + "]"
    txt = ("(* generated by tools/props/xload.py from esolver.cpp / hsolver.cpp / fsolver.cpp / femmenums.h / feasolver.h *)\n"
           "From Coq Require Import ZArith List.\nImport ListNotations.\nLocal Open Scope Z_scope.\n"
           "(* length-unit factors as decimal literals m*10^e, indexed by LengthUnits *)\n"
           "Definition units_e : list (Z * Z) := %s.\nDefinition units_h : list (Z * Z) := %s.\n"
           "Definition units_m : list (Z * Z) := %s.\nDefinition scale_m : Z := %d.\n"
           "(* enum LoadMeshErr *)\nDefinition err_badpbcfile : Z := %d.\nDefinition err_missingmatprops : Z := %d.\n"
           "Definition err_elmlabeltoobig : Z := %d.\n"
           "(* BdryFormat values for which the edge search ends at the first element that owns the edge *)\n"
           "Definition stop_formats_e : list Z := [%s].\nDefinition stop_formats_h : list Z := [%s].\n"
           % (zl(ue), zl(uh), zl(um), scale, code["BADPBCFILE"], code["MISSINGMATPROPS"], code["ELMLABELTOOBIG"],
              "; ".join(str(x) for x in stops["esolver"]), "; ".join(str(x) for x in stops["hsolver"])))
    vlib.write_if_changed(os.path.join(vlib.COQDIR, "theories", "gen", "LoadConsts.v"), txt)
    ctx.load_consts = dict(units_e=ue, units_h=uh, units_m=um, scale_m=scale, codes=code, stop_formats=stops)


# ----------------------------------------------------------------------------- files -> tables ----
def tokens(path):
    return open(path).read().split()


def read_tables(base, kind):
    """python tokenisation of the four files, as the real readers consume them"""
    t = tokens(base + ".node")
    n = int(t[0])
    L = open(base + ".node").read().split("\n")
    rows = " ".join(L[1:]).split()
    nodes = [(float(rows[4 * i + 1]), float(rows[4 * i + 2]), int(rows[4 * i + 3])) for i in range(n)]
    L = open(base + ".pbc").read().split("\n")
    npbc = int(L[0].split()[0])
    pbcs = []
    for l in L[1:1 + npbc]:
        q = l.split()
        pbcs.append((int(q[1]), int(q[2]), int(q[3])))
    ages = []
    if kind == "fem":
        k = 1 + npbc
        nage = int(L[k].split()[0]) if k < len(L) and L[k].split() else 0
        k += 1
        for a in range(nage):
            k += 1                                  # name line
            hdr = L[k].split(); k += 1
            tot = int(hdr[8])
            quads = []
            for q in range(tot + 1):
                w = L[k].split(); k += 1
                quads.append((int(w[0]), int(w[2]), int(w[4]), int(w[6])))
            ages.append(quads)
    L = open(base + ".ele").read().split("\n")
    ne = int(L[0].split()[0])
    rows = " ".join(L[1:]).split()
    eles = [(int(rows[5 * i + 1]), int(rows[5 * i + 2]), int(rows[5 * i + 3]), int(float(rows[5 * i + 4]))) for i in range(ne)]
    t = tokens(base + ".edge")
    ned = int(t[0])
    edges = [(int(t[2 + 4 * i + 1]), int(t[2 + 4 * i + 2]), int(t[2 + 4 * i + 3])) for i in range(ned)]
    return dict(nodes=nodes, pbcs=pbcs, ages=ages, eles=eles, edges=edges)


def zc(v):
    return "(%d)" % v if v < 0 else "%d" % v


def lst(xs):
    return "[" + "; ".join(xs) + "]"


def to_coq(kind, delete, dump, tb):
    labels = lst("(%s, %s)" % ("true" if d else "false", zc(b)) for (d, b) in dump["labels"])
    fmts = lst(zc(f) for f in dump["fmts"])
    nodes = lst("(%s, %s, %s)" % (vlib.fhexs(x), vlib.fhexs(y), zc(m)) for (x, y, m) in tb["nodes"])
    pbcs = lst("(%s, %s, %s)" % (zc(a), zc(b), zc(t)) for (a, b, t) in tb["pbcs"])
    ages = lst(lst("(%s, %s, %s, %s)" % tuple(zc(v) for v in q) for q in a) for a in tb["ages"])
    eles = lst("(%s, %s, %s, %s)" % tuple(zc(v) for v in e) for e in tb["eles"])
    edges = lst("(%s, %s, %s)" % tuple(zc(v) for v in e) for e in tb["edges"])
    return "load_mesh_io FA %s %s %s %s %s %s %s %s %s %s" % (VARIANT[kind], "true" if delete else "false", zc(dump["units"]), labels, fmts,
                                                            nodes, pbcs, ages, eles, edges)


# ------------------------------------------------------------------------------ harness side ----
def parse_dump(path):
    d = dict(status=None, units=None, labels=[], fmts=[], rc=None, files=None, nodes=[], elems=[], pbcs=[], ages={}, done=False,
             nlabels=None)
    if not os.path.exists(path):
        return d
    for l in open(path):
        t = l.split()
        if not t:
            continue
        if t[0] == "FAIL":
            d["status"] = l.strip()
        elif t[0] == "UNITS":
            d["units"] = int(t[1])
        elif t[0] == "NLABELS":
            d["nlabels"] = (int(t[1]), int(t[2]))
        elif t[0] == "LABEL":
            d["labels"].append((int(t[1]) != 0, int(t[2])))
        elif t[0] == "BDRY":
            d["fmts"].append(int(t[1]))
        elif t[0] == "RC":
            d["rc"] = int(t[1])
        elif t[0] == "FILES":
            d["files"] = [int(x) for x in t[1:6]]
        elif t[0] == "NODE":
            d["nodes"].append((float(t[1]), float(t[2]), int(t[3]), int(t[4])))
        elif t[0] == "ELEM":
            d["elems"].append(tuple(int(x) for x in t[1:9]))
        elif t[0] == "PBC":
            d["pbcs"].append((int(t[1]), int(t[2]), int(t[3])))
        elif t[0] == "AGE":
            d["ages"].setdefault(int(t[1]), []).append(tuple(int(x) for x in t[3:7]))
        elif t[0] == "DONE":
            d["done"] = True
    return d


def run_harness(ctx, kind, base, delete, snap=None, timeout=120):
    exe = vlib.build_harness(snap or ctx.snap, "h_loadmesh2", libs=("esolver", "hsolver", "fsolver", "femm"))
    dump = base + (".lm2dump" if snap is None else ".lm2dump-san")
    if os.path.exists(dump):
        os.remove(dump)
    rc, out, err = vlib.sh([exe, SOLVER[kind], base, dump, "1" if delete else "0"], timeout=timeout)
    return rc, parse_dump(dump), err


def clone_case(base, kind, tag):
    """copy the problem file and the mesh files to a new base name (LoadMesh(true) removes files)"""
    nb = base + "_" + tag
    for e in [EXT[kind]] + MESH_EXT:
        if os.path.exists(base + e):
            shutil.copy(base + e, nb + e)
    return nb


# ----------------------------------------------------------------- oracle: mirror of the theorems ----
def py_dec_pt(n):
    if n > 1:
        j = (n & 0xffff) - 2
        c = (n - (n & 0xffff)) // 0x10000 - 1
        return (j if j >= 0 else -1, c if c >= 0 else -1)
    return (-1, -1)


def py_dec_seg(n):
    if n < 0:
        m = -n
        j = (m & 0xffff) - 2
        c = (m - (m & 0xffff)) // 0x10000 - 1
        return (j if j >= 0 else -1, c if c >= 0 else -1)
    return (-1, -1)


STATS = dict(format2_rows_with_two_owners=0)
STOPS = {"fee": [2], "feh": [2]}       # set by regen from the sources


def oracle(kind, dump, tb):
    """what the THEOREMS of Properties_C02_load.v say about a loaded mesh, checked on the real loader's output"""
    nodes, elems = dump["nodes"], dump["elems"]
    if len(nodes) != len(tb["nodes"]) or len(elems) != len(tb["eles"]):
        return "NumNodes / NumEls differ from the number of rows of the files"
    labels, fmts = dump["labels"], dump["fmts"]
    dflt = -1
    for i, (d, b) in enumerate(labels):
        if d:
            dflt = i
    # node fields (C02_load_node_fields_decode_the_codec / C02_load_node_conductor_is_last_conductor_edge)
    for i, ((x, y, m), nd) in enumerate(zip(tb["nodes"], nodes)):
        bm, c = ((m - 2 if m > 1 else -1), -1) if kind == "fem" else py_dec_pt(m)
        if kind != "fem":
            for (a, b, em) in tb["edges"]:
                ec = py_dec_seg(em)[1]
                if ec >= 0 and i in (a, b):
                    c = ec
        if (nd[2], nd[3]) != (bm, c):
            return "node %d (marker %d): the solver holds (point property, conductor) = %r, the files say %r" % (i, m, (nd[2], nd[3]), (bm, c))
    # labels (C02_load_labels_are_attribute_minus_one)
    for i, ((p0, p1, p2, a), e) in enumerate(zip(tb["eles"], elems)):
        l = a - 1 if a - 1 >= 0 else dflt
        if e[0:3] != (p0, p1, p2):
            return "element %d: corners %r, the .ele file says %r" % (i, e[0:3], (p0, p1, p2))
        if not (0 <= l < len(labels)) or e[7] != l or e[6] != labels[l][1]:
            return "element %d (attribute %d): label %d / block %d, expected label %d" % (i, a, e[7], e[6], l)
    # element sides (C02_load_*_side_mark): replay of the .edge rows on the sides, row by row
    side = {}
    for i, e in enumerate(elems):
        for k in range(3):
            side[(i, k)] = -1
    owners = {}
    for i, e in enumerate(elems):
        for k in range(3):
            owners.setdefault(frozenset((e[k], e[(k + 1) % 3])) if e[k] != e[(k + 1) % 3] else frozenset((e[k],)), []).append((i, k))
    for (a, b, m) in tb["edges"]:
        if kind == "fem":
            if m >= 0:
                continue
            j = -(m + 2)
            first_only = False
        else:
            j = py_dec_seg(m)[0]
            if j < 0:
                continue
            first_only = 0 <= j < len(fmts) and fmts[j] in STOPS[kind]
        own = owners.get(frozenset((a, b)), [])
        if first_only and own:
            i0 = min(i for (i, k) in own)
            if any(i != i0 for (i, k) in own):
                STATS["format2_rows_with_two_owners"] += 1
            own = [(i, k) for (i, k) in own if i == i0]
        for ik in own:
            side[ik] = j
    for i, e in enumerate(elems):
        for k in range(3):
            if e[3 + k] != side[(i, k)]:
                return ("element %d side %d (nodes %d,%d) carries boundary property %d, the .edge file assigns %d"
                        % (i, k, e[k], e[(k + 1) % 3], e[3 + k], side[(i, k)]))
    if dump["pbcs"] != tb["pbcs"]:
        return "pbc list %r differs from the .pbc file %r" % (dump["pbcs"][:4], tb["pbcs"][:4])
    return None


# -------------------------------------------------------------------------------- hand-made ----
def write_mesh(base, nodes, eles, edges, pbcs, ages, kind):
    with open(base + ".node", "w") as fh:
        fh.write("%d\t2\t0\t1\n" % len(nodes))
        for i, (x, y, m) in enumerate(nodes):
            fh.write("%d\t%.17g\t%.17g\t%d\n" % (i, x, y, m))
    with open(base + ".ele", "w") as fh:
        fh.write("%d\t3\t1\n" % len(eles))
        for i, (a, b, c, at) in enumerate(eles):
            fh.write("%d\t%d\t%d\t%d\t%d\t\n" % (i, a, b, c, at))
    with open(base + ".edge", "w") as fh:
        fh.write("%d\t1\n" % len(edges))
        for i, (a, b, m) in enumerate(edges):
            fh.write("%d\t%d\t%d\t%d\n" % (i, a, b, m))
    with open(base + ".pbc", "w") as fh:
        fh.write("%d\n" % len(pbcs))
        for k, (a, b, t) in enumerate(pbcs):
            fh.write("%d    %d    %d    %d\n" % (k, a, b, t))
        fh.write("%d\n" % len(ages))
        for a in ages:
            fh.write("\"age\"\n")
            fh.write("6 0 0 1 2 360 0 0 %d 0 0\n" % (len(a) - 1))
            for (q0, q1, q2, q3) in a:
                fh.write("%d 0.5 %d 0.5 %d 0.25 %d 0.75\n" % (q0, q1, q2, q3))
    open(base + ".poly", "w").write("0 2 0 1\n0 1\n0\n0\n")


def hand_problem(ctx, kind, rng, idx, nlabels=2, default=None, units=None, nbdry=None):
    """problem file: 3 materials, boundary properties of every type of base_props (+ 2 more), labels;
    nbdry = 0 / 1: MORE point properties (six) than boundary properties (nbdry): the two property lists are different arrays"""
    B = femgen.Builder(kind)
    geomgen.base_props(B, kind, rng)
    if nbdry is not None:
        B.p["bdryprops"] = B.p["bdryprops"][:nbdry]
        for k in range(5):
            B.prop("pointprops", name="pp%d" % (k + 1), **({"A_re": 1e-3 * k} if kind == "fem" else {"V": 300.0 + k, "q": 0.0}))
    else:
        B.prop("bdryprops", name="xb0", type=0)
    if kind != "fem" and nbdry is None:
        B.prop("bdryprops", name="xq", type=2, **({"qs": 2e-6} if kind == "fee" else {"h": 5.0, "Tinf": 280.0}))
        B.prop("circuits", name="xc", type=1)
    B.rect(0.0, 0.0, 1.0, 1.0)
    for k in range(nlabels):
        B.label(0.1 + 0.2 * k, 0.2, 1 + (k + idx) % 3, **({"external": 2} if default == k else {}))
    B.p["problemtype"] = "planar"
    B.p["units"] = units or rng.choice(femgen.UNITS)
    f = os.path.join(ctx.work, "hand%d%s" % (idx, EXT[kind]))
    femgen.write(B.p, f)
    return f[:-4]


GRID = [(0.0, 0.0), (1.0, 0.0), (2.0, 0.0), (0.0, 1.0), (1.0, 1.0), (2.0, 1.0), (0.0, 2.0), (1.0, 2.0), (2.0, 2.0)]
GRID_T = [(0, 1, 4), (0, 4, 3), (1, 2, 5), (1, 5, 4), (3, 4, 7), (3, 7, 6), (4, 5, 8), (4, 8, 7)]


def all_sides(T):
    s = []
    for t in T:
        for k in range(3):
            a, b = t[k], t[(k + 1) % 3]
            if (a, b) not in s and (b, a) not in s:
                s.append((a, b))
    return s


def hand_cases(ctx, rng, quick):
    """-> list of dict(name, kind, base, delete, expect_ub)"""
    C = []
    idx = [0]

    def add(name, kind, nodes, eles, edges, pbcs=(), ages=(), delete=False, ub=False, **kw):
        base = hand_problem(ctx, kind, rng, idx[0], **kw)
        idx[0] += 1
        write_mesh(base, nodes, eles, edges, list(pbcs), list(ages), kind)
        C.append(dict(name=name, kind=kind, base=base, delete=delete, ub=ub, real=False, features=["hand-made", name],
                      files=dict(nodes=nodes, eles=eles, edges=edges, pbcs=list(pbcs), ages=list(ages), kw=kw)))
    pm_e = [0, 1, 2, 3, 5, 65536 + 2, 2 * 65536 + 3, 3 * 65536, 65536, 65536 + 1, -1, -5, 2 * 65536 + 6, 7]
    sm_e = [0, 1, -2, -3, -4, -5, -6, -7, -(65536 + 2), -(2 * 65536 + 4), -(3 * 65536), -65536, -1, 5, -(2 * 65536 + 5), -(65536 + 1), -(65536 + 7)]
    pm_m = [0, 1, 2, 3, 4, 6, -1, 65536 + 2]
    sm_m = [0, 1, -1, -2, -3, -5, -6, 4, -(65536 + 2)]
    sides = all_sides(GRID_T)
    reps = 2 if quick else 12
    for kind in ("fee", "feh", "fem"):
        pm, sm = (pm_m, sm_m) if kind == "fem" else (pm_e, sm_e)
        for r in range(reps):
            # every side listed once in random orientation and order, interior sides marked too (node 4 is interior)
            nodes = [(x, y, rng.choice(pm)) for (x, y) in GRID]
            ed = [(a, b) if rng.random() < 0.5 else (b, a) for (a, b) in sides]
            rng.shuffle(ed)
            edges = [(a, b, rng.choice(sm)) for (a, b) in ed]
            eles = [t + (rng.choice([1, 1, 2]),) for t in GRID_T]
            add("grid-all-sides-once", kind, nodes, eles, edges, pbcs=[(0, 2, 0), (3, 5, 1)] if r % 2 else [], delete=(r % 2 == 1))
            # sides listed twice / three times with different markers, unknown edges (no element has them), self edges
            edges2 = list(edges) + [(b, a, rng.choice(sm)) for (a, b, m) in edges[:6]] + [(0, 8, rng.choice(sm)), (2, 6, -3), (4, 4, -3)]
            edges2 += [(a, b, rng.choice(sm)) for (a, b, m) in edges[3:8]]
            rng.shuffle(edges2)
            add("grid-sides-repeated+unknown", kind, nodes, eles, edges2)
        # more point properties than boundary properties: node markers name point properties 0..5, the problem has 0 or 1
        # boundary property (edges carry no boundary property, or the only one)
        for nb in (0, 1):
            nodes = [(x, y, rng.choice([2, 3, 4, 5, 6, 7] if kind == "fem" else [2, 3, 4, 5, 6, 7, 65536 + 5, 2 * 65536 + 7]))
                     for (x, y) in GRID]
            ed = [(a, b) if rng.random() < 0.5 else (b, a) for (a, b) in sides]
            edges = [(a, b, rng.choice([0, 1, -1] + ([-2] if nb else []))) for (a, b) in ed]
            eles = [t + (rng.choice([1, 1, 2]),) for t in GRID_T]
            add("grid-more-point-than-boundary-properties", kind, nodes, eles, edges, nbdry=nb)
        # degenerate elements (repeated corners), elements listed twice, a node used by no element, default label via attribute 0
        nodes = [(x, y, rng.choice(pm)) for (x, y) in GRID] + [(5.0, 5.0, rng.choice(pm))]
        eles = [(0, 1, 1, 1), (0, 0, 1, 2), (4, 4, 4, 0), (0, 1, 4, 1), (0, 1, 4, -3), (1, 0, 3, 2)]
        edges = [(0, 1, sm[3]), (1, 1, sm[4]), (4, 4, sm[2]), (1, 4, sm[5]), (9, 0, sm[3]), (0, 0, sm[6])]
        add("degenerate-elements+default-label", kind, nodes, eles, edges, default=1)
        # every unit, delete on
        for u in femgen.UNITS:
            nodes = [(0.1 * (i + 1) + x, 1.0 / 3.0 * (y + 1), rng.choice(pm)) for i, (x, y) in enumerate(GRID)]
            add("units-" + u, kind, nodes, [t + (1,) for t in GRID_T], [(a, b, rng.choice(sm)) for (a, b) in sides[:5]], units=u, delete=True)
        # failures: attribute 0 without default label, attribute too big, both (first one wins), with and without deleteFiles
        base_nodes = [(x, y, 0) for (x, y) in GRID]
        for delete in (False, True):
            add("attr0-no-default", kind, base_nodes, [GRID_T[0] + (1,), GRID_T[1] + (0,), GRID_T[2] + (9,)], [(0, 1, -2)], delete=delete)
            add("attr-too-big", kind, base_nodes, [GRID_T[0] + (2,), GRID_T[1] + (3,), GRID_T[2] + (0,)], [(0, 1, -2)], delete=delete)
            add("attr-negative-with-default", kind, base_nodes, [GRID_T[0] + (-7,), GRID_T[1] + (2,)], [(0, 1, -2)], delete=delete, default=0)
        add("attr-equals-size", kind, base_nodes, [GRID_T[0] + (2,), GRID_T[1] + (1,)], [(1, 0, -3)], nlabels=2)
        add("empty-edge-file", kind, base_nodes, [t + (1,) for t in GRID_T], [])
        add("no-elements", kind, base_nodes, [], [(0, 1, 5), (0, 1, 0)])
    # esolver / hsolver: format-2 property (index 3 and 5) on interior sides shared by two elements, both orientations, after and
    # before another assignment to the same side
    for kind in ("fee", "feh"):
        nodes = [(x, y, 0) for (x, y) in GRID]
        eles = [t + (1,) for t in GRID_T]
        add("format2-interior", kind, nodes, eles, [(0, 4, -5), (4, 1, -5), (4, 5, -(65536 + 5)), (7, 4, -7), (3, 4, -4), (4, 3, -5), (1, 4, -3)])
        add("format2-then-other", kind, nodes, eles, [(4, 0, -5), (0, 4, -3), (4, 7, -4), (7, 4, -5), (4, 8, -7), (8, 4, -7)])
        # conductor of an edge overrides the conductor of its end points; conductor-only markers; later rows win
        nodes = [(x, y, 2 * 65536 + 2 if i in (0, 4) else 0) for i, (x, y) in enumerate(GRID)]
        add("edge-conductor-overrides-point", kind, nodes, eles, [(0, 1, -65536), (4, 5, -(3 * 65536 + 2)), (5, 8, -65536), (8, 5, -(2 * 65536))])
        # an unknown edge with a conductor whose second node does not exist: UB (meshnode[n1] outside the array)
        add("conductor-edge-node-out-of-range", kind, nodes, eles, [(0, 1, -3), (1, 99, -65536)], ub=True)
        # boundary property index outside lineproplist, on an edge that belongs to an element: UB (lineproplist[j])
        add("bdry-index-outside-lineproplist", kind, nodes, eles, [(0, 1, -40)], ub=True)
        # ... on an edge whose first node belongs to no element the loop body never runs: no access
        add("bdry-index-outside-but-isolated-node", kind, nodes + [(7.0, 7.0, 0)], eles, [(9, 1, -40)])
        add("edge-first-node-out-of-range", kind, nodes, eles, [(12, 1, -3)], ub=True)
        add("edge-second-node-out-of-range-harmless", kind, nodes, eles, [(1, 12, -3), (1, -4, -3)])
    # fsolver: marker -1 overwrites, first node out of range only matters for negative markers
    nodes = [(x, y, 0) for (x, y) in GRID]
    eles = [t + (1,) for t in GRID_T]
    add("mag-marker-minus-one-overwrites", "fem", nodes, eles, [(0, 1, -4), (1, 0, -1), (4, 5, -3), (5, 4, -1), (4, 5, -5), (3, 4, -1), (4, 3, -2)])
    add("mag-first-node-out-of-range-nonneg-marker", "fem", nodes, eles, [(77, 1, 0), (-3, 1, 2), (1, 77, -3)])
    add("mag-first-node-out-of-range", "fem", nodes, eles, [(77, 1, -3)], ub=True)
    add("mag-air-gap-quads", "fem", nodes, eles, [(0, 1, -3)], pbcs=[(0, 2, 0)], ages=[[(0, 1, 4, 5), (1, 2, 5, 6)], [(3, 0, 7, 4), (0, 0, 1, 1)]])
    add("mag-air-gap-negative-quad", "fem", nodes, eles, [(0, 1, -3)], ages=[[(0, 1, 4, 5), (1, -2, 5, 6), (1, 1, 1, 1)]], delete=True)
    for kind in ("fee", "feh", "fem"):
        add("element-corner-out-of-range", kind, nodes, [GRID_T[0] + (1,), (0, 9, 4, 1)], [(0, 1, 0)], ub=True)
        add("element-corner-negative", kind, nodes, [GRID_T[0] + (1,), (0, -1, 4, 1)], [], ub=True)
    return C


# ------------------------------------------------------------------------------ real meshes ----
def default_label_problem(rng, kind):
    """a region WITHOUT its own block label (attribute 0 in the .ele file) next to a labelled one, and a label flagged 'default'"""
    B = femgen.Builder(kind); ids = geomgen.base_props(B, kind, rng); geomgen.settings(B, rng, True)
    B.p["dosmartmesh"] = 0
    B.rect(0.0, 0.0, 2.0, 1.0, {s: geomgen.seg_kw(kind, ids, rng) for s in "brtl"})
    B.rect(0.5, 0.25, 1.5, 0.75)
    B.label(0.1, 0.1, ids["mats"][0], maxarea=femgen.mesh_diameter(0.1), external=2)
    B.p["features"] = ["unlabelled-region+default-label", kind]
    return B.p


def interior_line_problem(rng, kind, fine=False):
    """two regions separated by an INTERIOR line that carries a boundary property (format 2 = surface charge / convection in
    fee / feh: the search stops at the first owner; other formats: both neighbours own it) and a conductor on an interior box"""
    B = femgen.Builder(kind); ids = geomgen.base_props(B, kind, rng); geomgen.settings(B, rng, True)
    B.p["dosmartmesh"] = 0
    W, H = 2.0, 1.0
    a = B.point(0.0, 0.0); b = B.point(1.0, 0.0); c = B.point(W, 0.0); d = B.point(W, H); e = B.point(1.0, H); f = B.point(0.0, H)
    for (u, v) in ((a, b), (b, c), (c, d), (d, e), (e, f), (f, a)):
        B.seg(u, v, **geomgen.seg_kw(kind, ids, rng, allow_cond=False))
    B.seg(b, e, bdry=ids["bdry"][rng.choice([2, 3, 3])])
    if kind != "fem":
        B.rect(1.25, 0.25, 1.75, 0.75, {s_: dict(cond=ids["cond"][rng.randrange(2)]) for s_ in "brtl"})
        B.label(1.5, 0.5, ids["mats"][2], maxarea=femgen.mesh_diameter(0.05))
    n = 600 if fine else 40
    B.label(0.5, 0.5, ids["mats"][0], maxarea=femgen.mesh_diameter(W * H / n))
    B.label(1.1, 0.1, ids["mats"][1], maxarea=femgen.mesh_diameter(W * H / n))
    B.p["features"] = ["interior-line-with-boundary-property", kind]
    return B.p


def real_problem(rng, k, quick):
    from props import c02
    r = k % 6
    kind = ["fee", "feh", "fem"][(k // 2) % 3]
    if r == 2:
        return c02.periodic_problem(rng, kind)
    if r == 5:
        return default_label_problem(rng, kind)
    if r == 4:
        return interior_line_problem(rng, kind, fine=(not quick and k % 12 == 4))
    p = geomgen.gen_any(rng, k + rng.randrange(7), quick=(quick or k % 5 != 0))
    if p["points"] and p.get("pointprops") and rng.random() < 0.6:
        q = rng.choice(p["points"])
        q["prop"] = 1
        if p["kind"] != "fem" and rng.random() < 0.5:
            q["cond"] = 2
    return p


def real_cases(ctx, rng, quick, n, start=0):
    C = []
    for k in range(n):
        p = real_problem(rng, start + k, quick)
        kind = p["kind"]
        f = os.path.join(ctx.work, "r%d%s" % (start + k, EXT[kind]))
        femgen.write(p, f)
        rc, out, err = vlib.sh([ctx.snap.tool("fmesher"), "--write-poly", f], timeout=300)
        base = f[:-4]
        if rc != 0 or not os.path.exists(base + ".edge"):
            ctx.fail("fmesher failed (rc=%d) on a well-formed problem: %s" % (rc, (out + err)[-300:]), problem=p)
            continue
        C.append(dict(name="mesh%d" % (start + k), kind=kind, base=base, delete=(k % 4 == 3), ub=False, real=True,
                      features=p.get("features", [])[:2], problem=p))
    return C


def replay_info(c):
    if c["real"]:
        return dict(problem=c["problem"], delete_files=c["delete"])
    return dict(hand_made=c["files"], kind=c["kind"], name=c["name"], delete_files=c["delete"])


def san_snapshot(ctx):
    root = os.path.join(vlib.SCRATCH, "snap-" + vlib.tree_hash())
    if ctx.quick() and not os.path.exists(os.path.join(root, "build-san", ".built")):
        return None
    try:
        return vlib.snapshot("san")
    except vlib.BuildError:
        return None


def compare(c, dump, val, tb):
    """real loader vs model value; returns (message or None, number of values compared)"""
    code, removed, (mn, me, mp, ma) = val
    n = 1
    if code == -1:
        return "the model says undefined behaviour (an index from a file outside an array) where the real LoadMesh returned %r" % dump["rc"], n
    if dump["rc"] != code:
        return "LoadMeshErr: implementation %r, model %r" % (dump["rc"], code), n
    before = c["files_before"]
    gone = sorted(k for k in range(5) if before[k] and not dump["files"][k])
    n += 5
    if gone != sorted(removed):
        return "mesh files removed: implementation %r, model %r (0 .ele 1 .node 2 .pbc 3 .poly 4 .edge)" % (gone, sorted(removed)), n
    if code != 0:
        return None, n
    if len(mn) != len(dump["nodes"]) or len(me) != len(dump["elems"]):
        return "table sizes: implementation %d nodes %d elements, model %d / %d" % (len(dump["nodes"]), len(dump["elems"]), len(mn), len(me)), n
    for i, (a, b) in enumerate(zip(dump["nodes"], mn)):
        n += 4
        if vlib.ulp_diff(a[0], b[0]) or vlib.ulp_diff(a[1], b[1]) or (a[2], a[3]) != (b[2], b[3]):
            return "node %d: implementation %r, model %r" % (i, a, tuple(b)), n
    for i, (a, b) in enumerate(zip(dump["elems"], me)):
        n += 8
        if tuple(a) != tuple(b):
            return "element %d (p0 p1 p2 e0 e1 e2 blk lbl): implementation %r, model %r" % (i, a, tuple(b)), n
    n += 3 * len(dump["pbcs"])
    if [tuple(x) for x in mp] != dump["pbcs"]:
        return "pbc list: implementation %r, model %r" % (dump["pbcs"][:5], mp[:5]), n
    ia = [dump["ages"][i] for i in sorted(dump["ages"])]
    mm = [[tuple(q) for q in a] for a in ma]
    n += 4 * sum(len(a) for a in ia)
    if ia != mm:
        return "air-gap quad nodes: implementation %r, model %r" % (ia, mm), n
    return None, n


def correspond(ctx):
    rng = ctx.rng
    quick = ctx.quick()
    dis = []
    cases = real_cases(ctx, rng, quick, 18 if quick else 90) + hand_cases(ctx, rng, quick)
    feats, exprs, evald = {}, [], []
    nontriv = set()
    STATS["format2_rows_with_two_owners"] = 0
    stats = dict(real=0, hand=0, failures=0, ub_model=0, delete_runs=0, marked_sides=0, conductor_nodes=0)
    for c in cases:
        for ft in c["features"]:
            feats[ft] = feats.get(ft, 0) + 1
        kind, base = c["kind"], c["base"]
        try:
            tb = read_tables(base, kind)
        except Exception as e:
            ctx.fail("mesh files unreadable (%s): %r" % (c["name"], e), **replay_info(c))
            continue
        c["tb"] = tb
        c["files_before"] = [1 if os.path.exists(base + e) else 0 for e in MESH_EXT]
        if c["ub"]:
            # the real code is not run on inputs that make it read / write outside its arrays (see the instrumented runs below);
            # the problem tables come from a harness run on a copy with an empty, harmless mesh
            nb = clone_case(base, kind, "tables")
            write_mesh(nb, [(0.0, 0.0, 0)], [], [], [], [], kind)
            rc, dump, err = run_harness(ctx, kind, nb, False)
        else:
            rc, dump, err = run_harness(ctx, kind, base, c["delete"])
        if rc != 0 or not dump["done"] or dump["status"]:
            ctx.fail("the real LoadProblemFile/LoadMesh did not complete (rc=%d, %s) on %s" % (rc, dump["status"], c["name"]),
                     stderr=err[-300:], **replay_info(c))
            continue
        if dump["nlabels"][0] != dump["nlabels"][1]:
            ctx.fail("NumBlockLabels %d differs from labellist.size() %d after LoadProblemFile" % dump["nlabels"], **replay_info(c))
        c["dump"] = dump
        if c["real"]:
            stats["real"] += 1
            if dump["rc"] != 0:
                ctx.fail("LoadMesh returned %d on a mesh written by fmesher for a well-formed problem" % dump["rc"], **replay_info(c))
        else:
            stats["hand"] += 1
        if c["delete"]:
            stats["delete_runs"] += 1
        if not c["ub"] and dump["rc"] == 0:
            msg = oracle(kind, dump, tb)
            if msg:
                ctx.fail("LoadMesh (%s, %s): %s" % (c["name"], kind, msg), **replay_info(c))
            stats["marked_sides"] += sum(1 for e in dump["elems"] for k in range(3) if e[3 + k] >= 0)
            stats["conductor_nodes"] += sum(1 for nd in dump["nodes"] if nd[3] >= 0)
        if not c["ub"] and dump["rc"] != 0:
            stats["failures"] += 1
        if len(tb["eles"]) > 2:
            nontriv.add(json.dumps([kind, tb["eles"][:40], tb["edges"][:40], len(tb["nodes"])]))
        exprs.append(to_coq(kind, c["delete"], dump, tb))
        evald.append(c)
    big = [i for i, c in enumerate(evald) if len(c["tb"]["eles"]) > 1500]
    small = [i for i, c in enumerate(evald) if len(c["tb"]["eles"]) <= 1500]
    res = [None] * len(exprs)
    for idxs, shard in ((small, 10), (big, 1)):
        if idxs:
            vals = vlib.coq_eval(HEADER, [exprs[i] for i in idxs], shard=shard, timeout=3000, name="xload")
            for i, v in zip(idxs, vals):
                res[i] = v
    nvals = 0
    ncmp = 0
    for c, v in zip(evald, res):
        if c["ub"]:
            stats["ub_model"] += 1
            if v[0] != -1:
                dis.append(dict(what="LoadMesh model (%s, %s): expected undefined behaviour (access outside an array), the model returned code %r"
                                % (c["name"], c["kind"], v[0]), **replay_info(c)))
            continue
        msg, n = compare(c, c["dump"], v, c["tb"])
        nvals += n
        ncmp += 1
        if msg:
            dis.append(dict(what="LoadMesh correspondence (%s, %s, %d nodes, %d elements): %s"
                            % (c["name"], c["kind"], len(c["tb"]["nodes"]), len(c["tb"]["eles"]), msg), **replay_info(c)))
    # instrumented build (ASan + UBSan + libstdc++ assertions), when it is there: clean where the model loads, abort where the model says UB
    san = san_snapshot(ctx)
    san_clean = san_abort = 0
    if san is not None:
        for c, v in zip(evald, res):
            if c["real"] and len(c["tb"]["eles"]) > (300 if quick else 3000):
                continue
            if c["ub"]:
                nb = clone_case(c["base"], c["kind"], "san")
                rc, d2, err = run_harness(ctx, c["kind"], nb, False, snap=san)
                if rc == 0 and d2["done"]:
                    dis.append(dict(what="LoadMesh (%s, %s): the model reports an access outside an array but the instrumented real LoadMesh ran clean"
                                    % (c["name"], c["kind"]), **replay_info(c)))
                else:
                    san_abort += 1
            elif not c["delete"] and c.get("dump") and san_clean < (25 if quick else 200):
                rc, d2, err = run_harness(ctx, c["kind"], c["base"], False, snap=san)
                san_clean += 1
                if rc != 0 or not d2["done"]:
                    ctx.fail("the real LoadMesh fails under ASan/UBSan/libstdc++ assertions (rc=%d) on %s, where the model finds every access in range"
                             % (rc, c["name"]), stderr=err[-600:], **replay_info(c))
                elif (d2["rc"], d2["nodes"], d2["elems"]) != (c["dump"]["rc"], c["dump"]["nodes"], c["dump"]["elems"]):
                    dis.append(dict(what="LoadMesh gives different results in the plain and the instrumented build on %s" % c["name"], **replay_info(c)))
    cov = ctx.res.cov
    cov["evaluations"] = len(cases)
    cov["distinct_nontrivial"] = len(nontriv)
    cov["rule"] = ("mesh files written by the real fmesher for generated problems of all three file types (arcs, holes, nested regions, periodic "
                   "pairs, conductors on lines and points, point properties, regions without label + default label) and hand-made "
                   ".node/.ele/.edge/.pbc files (3x3 grid with every side listed once in random orientation incl. marked interior sides, sides "
                   "repeated with other markers, unknown and self edges, degenerate and duplicate elements, format-2 properties on interior sides, "
                   "conductor-only markers, marker -1 after an assignment, every LengthUnits value, attributes 0 / negative / too big, air-gap "
                   "quad nodes, deleteFiles on and off) loaded by the real FSolver / ESolver / HSolver (h_loadmesh2); the same tables evaluated "
                   "by the Coq model (vm_compute, binary64); every dumped number must be equal (coordinates bit for bit), the error code and "
                   "the set of removed files too; inputs on which the model reports an out-of-range access are not run on the plain build; "
                   "non-trivial = more than 2 elements, distinct = distinct element / edge tables")
    cov["input_distribution"] = feats
    cov["xload_cases_compared"] = ncmp
    cov["values_compared"] = nvals
    cov["bit_identical"] = nvals if not dis else None
    stats["format2_rows_with_two_owners"] = STATS["format2_rows_with_two_owners"]
    cov["xload_stats"] = stats
    cov["xload_instrumented_clean_runs"] = san_clean
    cov["xload_instrumented_aborts_on_model_UB"] = san_abort
    cov["xload_constants"] = getattr(ctx, "load_consts", {})
    cov["samples"] = [dict(name=c["name"], kind=c["kind"], nodes=len(c["tb"]["nodes"]), elements=len(c["tb"]["eles"]), edges=len(c["tb"]["edges"]),
                           rc=c["dump"]["rc"]) for c in evald[:4]]
    return dis


def search(ctx, broken):
    """a proof / translator / correspondence broke: look for an input on which the property itself fails on the real loader"""
    rng = vlib.Rng(ctx.seed + 23)
    found = []
    cases = real_cases(ctx, rng, True, 24, start=3000) + hand_cases(ctx, rng, True)
    for c in cases:
        if c["ub"]:
            continue
        try:
            tb = read_tables(c["base"], c["kind"])
        except Exception:
            continue
        rc, dump, err = run_harness(ctx, c["kind"], c["base"], False)
        if rc != 0 or not dump["done"]:
            found.append(dict(what="the real LoadMesh did not complete (rc=%d) on %s" % (rc, c["name"]), **replay_info(c)))
            break
        if dump["rc"] == 0:
            msg = oracle(c["kind"], dump, tb)
            if msg:
                found.append(dict(what="LoadMesh (%s, %s): %s" % (c["name"], c["kind"], msg), **replay_info(c)))
                break
    return found
