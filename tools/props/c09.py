"""C09 — linear solvers return the solution of the system they were given.
Model: coq/theories/Sparse.v (+CSparse.v); theorems: Properties_C09.v.
Correspondence: op scripts through harness/h_spars.cpp (real CBigLinProb) and through the
float reading of the model (vm_compute); property oracle: exact rational dense solve,
reference dict for put/get/addto, constrained-system equivalence, solve log hook."""
import os, math, json
from fractions import Fraction
import vlib

# theorems about the renumbering model Renumber.v that belong to this property (its correspondence runs with C02: props/xcm.py)
EXTRA_PROPERTY_FILES = ["C09_bandwidth"]
LEVEL = "proof"
COQ_MODULES = ["Sparse", "CSparse"]
ASSUMPTIONS = [
    "theorems are about the real-number reading of the model; rounding error between the float and real readings is not bounded",
    "PCG/BiCG termination is not proved: pcg is a fuelled loop and the theorems are conditional on the loop exiting",
    "the model is hand-written; its tie to spars.cpp/cspars.cpp is the op-script correspondence run here",
]
HEADER = ("From Coq Require Import ZArith List Floats. Import ListNotations. "
          "From XF Require Import Arith Sparse CSparse. Local Open Scope float_scope.")


# ---------------------------------------------------------------- script generation ----
def fe_pattern(rng, n):
    """FE-like symmetric pattern: a random 'mesh graph' (banded + a few long links)."""
    edges = set()
    for i in range(n - 1):
        edges.add((i, i + 1))
    w = rng.randint(1, max(1, min(4, n - 1)))
    for i in range(n):
        for _ in range(rng.randint(0, 2)):
            j = i + rng.randint(1, w)
            if j < n:
                edges.add((i, j))
    if rng.random() < 0.3 and n > 4:
        for _ in range(rng.randint(1, 2)):
            i, j = sorted(rng.sample(range(n), 2))
            edges.add((i, j))
    return sorted(edges)


def rnd(rng, scale=1.0):
    k = rng.random()
    if k < 0.25:
        return float(rng.randint(-4, 4)) * scale
    if k < 0.5:
        return rng.randint(-64, 64) / 16.0 * scale
    return rng.uniform(-2, 2) * scale


def gen_putget(rng):
    n = rng.randint(1, 9)
    ops = []
    for _ in range(rng.randint(3, 30)):
        p, q = rng.randrange(n), rng.randrange(n)
        k = rng.random()
        if k < 0.45:
            ops.append(("put", rnd(rng), p, q))
        elif k < 0.7:
            ops.append(("addto", rnd(rng), p, q))
        else:
            ops.append(("get", p, q))
    ops.append(("dump",))
    for _ in range(rng.randint(1, 6)):
        ops.append(("get", rng.randrange(n), rng.randrange(n)))
    return dict(kind="putget", n=n, bw=0, prec=1e-8, lam=1.5, ops=ops)


def gen_spd(rng, with_constraints):
    n = rng.randint(2, 14)
    edges = fe_pattern(rng, n)
    grade = rng.choice([1.0, 1.0, 10.0, 1e3])
    contrib = []          # element-like contributions (addto), SPD by construction
    for (i, j) in edges:
        w = abs(rnd(rng)) + 0.1
        if rng.random() < 0.3:
            w *= grade
        contrib += [("addto", w, i, i), ("addto", w, j, j), ("addto", -w, i, j) if rng.random() < 0.5 else ("addto", -w, j, i)]
    touched = set(i for e in edges for i in e)
    for i in range(n):
        # (a node without any element would leave an empty row: singular system, excluded)
        if rng.random() < 0.5 or i == 0 or i not in touched:
            contrib.append(("addto", abs(rnd(rng)) + 0.05, i, i))
    rng.shuffle(contrib)
    truebw = max([j - i for (i, j) in edges] + [0])
    bw = rng.choice([0, truebw + 1, truebw + 1, truebw + 3, n])
    ops = list(contrib)
    for i in range(n):
        if rng.random() < 0.8:
            ops.append(("setb", i, rnd(rng)))
    if with_constraints:
        used = set()
        for _ in range(rng.randint(1, 3)):
            k = rng.random()
            if k < 0.4:
                i = rng.randrange(n)
                if i in used:
                    continue
                used.add(i)
                ops.append(("setvalue", i, rnd(rng)))
            elif n >= 3:
                i, j = rng.sample(range(n), 2)
                if rng.random() < 0.2:
                    j = i          # a node tied to itself (the mesher lists the centre of a rotational cell against itself):
                                   # periodic = no constraint, antiperiodic = x_i = -x_i = 0
                if i in used or j in used:
                    continue
                used.update((i, j))
                ops.append(("periodic" if k < 0.7 else "antiperiodic", i, j))
        # as in the assemblers, fixed values are applied before the (anti)periodic ties (SetValue
        # relies on the bandwidth hint, which the ties widen)
        cons = [o for o in ops if o[0] in ("setvalue", "periodic", "antiperiodic")]
        ops = [o for o in ops if o[0] not in ("setvalue", "periodic", "antiperiodic")]
        cons.sort(key=lambda o: 0 if o[0] == "setvalue" else 1)
        ops += cons
    ops.append(("dump",))
    x = [rnd(rng) for _ in range(n)]
    ops.append(("multa", x))
    ops.append(("multpc", x))
    ops.append(("solve", 0))
    ops.append(("dense",))
    if rng.random() < 0.5:
        # warm start after perturbing the rhs
        ops.append(("setb", rng.randrange(n), rnd(rng)))
        ops.append(("solve", 1))
        ops.append(("dense",))
    if rng.random() < 0.2:
        ops.append(("wipe",))
        ops.append(("dump",))
    prec = rng.choice([1e-8, 1e-8, 1e-6, 1e-10])
    lam = rng.choice([1.5, 1.5, 1.0, 1.2])
    return dict(kind="spd-constrained" if with_constraints else "spd", n=n, bw=bw, prec=prec, lam=lam, ops=ops)


def gen_setvalue_window(rng):
    """SetValue with a bandwidth hint exactly as Cuthill provides it (true bandwidth + 1)
    and larger; entries exactly at distance bw-1 from the diagonal."""
    n = rng.randint(3, 10)
    w = rng.randint(1, n - 1)
    ops = []
    for i in range(n):
        ops.append(("put", abs(rnd(rng)) + 3.0, i, i))
        for d in range(1, w + 1):
            if i + d < n and (d == w or rng.random() < 0.6):
                ops.append(("put", rnd(rng, 0.3), i, i + d))
    for i in range(n):
        ops.append(("setb", i, rnd(rng)))
    bw = w + 1 + rng.choice([0, 0, 1, 2])
    for _ in range(rng.randint(1, 3)):
        ops.append(("setvalue", rng.randrange(n), rnd(rng)))
        ops.append(("dump",))
    ops.append(("solve", 0))
    ops.append(("dense",))
    return dict(kind="setvalue-window", n=n, bw=bw, prec=1e-8, lam=1.5, ops=ops)


def gen_band_extra(rng):
    """as esolver/hsolver build it: n = NumNodes + NumCircProps with the bandwidth hint computed for the
    nodes only; the extra (conductor) unknowns couple to arbitrary nodes far outside the band; nodes
    tied (anti)periodically may be coupled to such an unknown"""
    nn = rng.randint(6, 14)
    nc = rng.randint(1, 2)
    n = nn + nc
    w = rng.randint(1, 3)
    ops = []
    for i in range(nn):
        ops.append(("addto", abs(rnd(rng)) + 4.0, i, i))
        for d in range(1, w + 1):
            if i + d < nn and (d == 1 or rng.random() < 0.6):
                ops.append(("addto", -abs(rnd(rng, 0.4)) - 0.05, i, i + d))
    members = {}
    for c in range(nc):
        k = nn + c
        ops.append(("addto", abs(rnd(rng)) + 6.0, k, k))
        mem = rng.sample(range(nn), rng.randint(2, 4))
        members[k] = mem
        for m in mem:
            ops.append(("addto", -abs(rnd(rng, 0.5)) - 0.1, m, k))
    rng.shuffle(ops)
    for i in range(n):
        ops.append(("setb", i, rnd(rng)))
    # tie a node coupled to an extra unknown with a distant node
    k0 = nn
    a = members[k0][0]
    cand = [j for j in range(nn) if abs(j - a) > w + 1 and j not in members[k0]] or [j for j in range(nn) if j != a]
    b = rng.choice(cand)
    ops.append((rng.choice(["periodic", "antiperiodic"]), a, b))
    ops.append(("dump",))
    ops.append(("solve", 0))
    ops.append(("dense",))
    return dict(kind="band+conductor-unknowns", n=n, bw=w + 1, prec=1e-8, lam=1.5, ops=ops)


def gen_scripts(rng, count):
    out = []
    for k in range(count):
        r = k % 10
        if r == 0:
            s = gen_band_extra(rng)
        elif r < 3:
            s = gen_putget(rng)
        elif r < 5:
            s = gen_spd(rng, False)
        elif r < 9:
            s = gen_spd(rng, True)
        else:
            s = gen_setvalue_window(rng)
        s["id"] = k
        out.append(s)
    return out


# ------------------------------------------------------------------------ rendering ----
def to_text(s):
    L = ["case %d" % s["id"], "create %d %d %s %s" % (s["n"], s["bw"], float(s["prec"]).hex(), float(s["lam"]).hex())]
    for o in s["ops"]:
        k = o[0]
        if k in ("put", "addto"):
            L.append("%s %s %d %d" % (k, float(o[1]).hex(), o[2], o[3]))
        elif k in ("get", "periodic", "antiperiodic"):
            L.append("%s %d %d" % (k, o[1], o[2]))
        elif k in ("setb", "setv", "setvalue"):
            L.append("%s %d %s" % (k, o[1], float(o[2]).hex()))
        elif k in ("multa", "multpc"):
            L.append(k + " " + " ".join(float(x).hex() for x in o[1]))
        elif k == "solve":
            L.append("solve %d" % o[1])
        else:
            L.append(k)
    L.append("end")
    return "\n".join(L) + "\n"


FUEL = 3000


def to_coq(s):
    f = vlib.fhex
    ops = []
    for o in s["ops"]:
        k = o[0]
        if k == "put":
            ops.append("OPut %s %d %d" % (f(o[1]), o[2], o[3]))
        elif k == "addto":
            ops.append("OAddTo %s %d %d" % (f(o[1]), o[2], o[3]))
        elif k == "get":
            ops.append("OGet %d %d" % (o[1], o[2]))
        elif k == "setb":
            ops.append("OSetB %d %s" % (o[1], f(o[2])))
        elif k == "setv":
            ops.append("OSetV %d %s" % (o[1], f(o[2])))
        elif k == "setvalue":
            ops.append("OSetValue %d %s" % (o[1], f(o[2])))
        elif k == "periodic":
            ops.append("OPeriodic %d %d" % (o[1], o[2]))
        elif k == "antiperiodic":
            ops.append("OAntiPeriodic %d %d" % (o[1], o[2]))
        elif k == "multa":
            ops.append("OMultA [%s]" % "; ".join(f(x) for x in o[1]))
        elif k == "multpc":
            ops.append("OMultPC [%s]" % "; ".join(f(x) for x in o[1]))
        elif k == "wipe":
            ops.append("OWipe")
        elif k == "solve":
            ops.append("OSolve %s %d" % ("true" if o[1] else "false", FUEL))
        elif k == "dump":
            ops.append("ODump")
        elif k == "dense":
            pass
    return "run FA (lcreate FA %d %d %s %s) [%s]" % (s["n"], s["bw"], f(s["prec"]), f(s["lam"]), "; ".join(ops))


def run_impl(ctx, scripts, solvelog=None):
    exe = vlib.build_harness(ctx.snap, "h_spars")
    txt = "".join(to_text(s) for s in scripts)
    env = {}
    if solvelog:
        env["XFEMM_VERIF_SOLVELOG"] = solvelog
    rc, out, err = vlib.sh([exe], inp=txt, timeout=180, env=env)
    res, cur = {}, None
    for line in out.split("\n"):
        if line.startswith("case "):
            cur = []
            res[int(line.split()[1])] = cur
        elif line.startswith("r") and cur is not None:
            toks = line.split()[1:]
            cur.append([t if t == "singular" else float(t) for t in toks])
    return rc, res, err


# -------------------------------------------------------------- exact reference oracle ----
def frac_solve(A, b):
    n = len(b)
    A = [row[:] for row in A]
    b = b[:]
    for c in range(n):
        p = None
        for r in range(c, n):
            if A[r][c] != 0:
                p = r
                break
        if p is None:
            return None
        A[c], A[p] = A[p], A[c]
        b[c], b[p] = b[p], b[c]
        for r in range(c + 1, n):
            if A[r][c] != 0:
                f = A[r][c] / A[c][c]
                for j in range(c, n):
                    A[r][j] -= f * A[c][j]
                b[r] -= f * b[c]
    x = [Fraction(0)] * n
    for i in range(n - 1, -1, -1):
        s = b[i] - sum(A[i][j] * x[j] for j in range(i + 1, n))
        x[i] = s / A[i][i]
    return x


def dump_to_dense(n, dump):
    """Parse a 'dump' output (per row: count, then (c, x) pairs; then b)."""
    b = [Fraction(v) for v in dump[-n:]]
    ent = dump[:-n]
    rows = []
    k = 0
    while k < len(ent):
        cnt = int(ent[k]); k += 1
        rows.append([(int(ent[k + 2 * t]), ent[k + 2 * t + 1]) for t in range(cnt)])
        k += 2 * cnt
    return rows, b


def rows_to_dense(n, rows):
    A = [[Fraction(0)] * n for _ in range(n)]
    for i, r in enumerate(rows):
        for (c, x) in r:
            A[i][c] = Fraction(x)
            A[c][i] = Fraction(x)
    return A


def oracle(ctx, s, outs):
    """Property-level checks on the implementation's own outputs (independent of the Coq
    model): put/get/addto against a reference dict, row structure, exact dense solve."""
    n = s["n"]
    ref = {}
    exact_ref = True          # the reference dict is exact only before constraint ops
    last_dense = None
    prev_dump = None
    oi = 0
    for o, out in zip(s["ops"], outs):
        k = o[0]
        if k == "put":
            ref[(min(o[2], o[3]), max(o[2], o[3]))] = o[1]
        elif k == "addto":
            key = (min(o[2], o[3]), max(o[2], o[3]))
            ref[key] = ref.get(key, 0.0) + o[1]
        elif k == "get" and exact_ref:
            want = ref.get((min(o[1], o[2]), max(o[1], o[2])), 0.0)
            if out[0] != want:
                return "Get(%d,%d) returned %r after the put/addto history, expected %r" % (o[1], o[2], out[0], want)
        elif k in ("setvalue", "periodic", "antiperiodic", "wipe"):
            exact_ref = False
        elif k == "dump":
            rows, b = dump_to_dense(n, out)
            if len(rows) != n:
                return "row structure broken: %d row heads for n=%d" % (len(rows), n)
            for i, r in enumerate(rows):
                cols = [c for c, _ in r]
                if cols[0] != i or any(cols[t] >= cols[t + 1] for t in range(len(cols) - 1)):
                    return "row %d is not (diagonal, strictly increasing columns): %r" % (i, cols)
            if exact_ref:
                for i, r in enumerate(rows):
                    for c, x in r:
                        if ref.get((i, c), 0.0) != x and not (i == c and (i, c) not in ref and x == 0.0):
                            return "entry (%d,%d) = %r differs from the put/addto history %r" % (i, c, x, ref.get((i, c)))
                for key, v in ref.items():
                    got = dict(rows[key[0]]).get(key[1])
                    if got != v:
                        return "entry %r lost: stored %r, history %r" % (key, got, v)
            prev_dump = (rows, b)
        oi += 1
    # constrained-system equivalence: replay the script exactly with Fractions
    msg = oracle_constraints(s, outs)
    if msg:
        return msg
    # solves: compare with exact dense solution of the dumped system
    A = None
    for idx, (o, out) in enumerate(zip(s["ops"], outs)):
        if o[0] == "dump":
            rows, b = dump_to_dense(n, out)
            A = rows_to_dense(n, rows)
            bvec = b
        elif o[0] == "setb" and A is not None:
            bvec = bvec[:]
            bvec[o[1]] = Fraction(o[2])
        elif o[0] == "solve" and A is not None:
            status, V = out[0], out[1:]
            if status != 1:
                return "solver reported singular on an SPD system"
            x = frac_solve(A, bvec)
            if x is None:
                continue
            xs = max(abs(float(v)) for v in x) or 1.0
            err = max(abs(float(Fraction(v) - xe)) for v, xe in zip(V, x)) if all(math.isfinite(v) for v in V) else math.inf
            r = [bvec[i] - sum(A[i][j] * Fraction(V[j]) for j in range(n)) for i in range(n)] if math.isfinite(err) else None
            bn = math.sqrt(sum(float(t) ** 2 for t in bvec))
            rn = math.sqrt(sum(float(t) ** 2 for t in r)) if r is not None else math.inf
            if bn > 0 and rn / bn > 1e3 * s["prec"]:
                return "true relative residual %.3g exceeds 1e3*Precision=%.3g" % (rn / bn, 1e3 * s["prec"])
            if err > 1e5 * s["prec"] * xs:
                return "solution differs from the exact dense solve by %.3g (scale %.3g)" % (err, xs)
    return None


def oracle_constraints(s, outs):
    """SetValue / Periodicity / AntiPeriodicity: the system dumped after the op must have
    exactly the solutions of the constrained original system (checked by exact solves)."""
    n = s["n"]
    A = {}
    b = [Fraction(0)] * n
    dense = lambda: [[A.get((min(i, j), max(i, j)), Fraction(0)) for j in range(n)] for i in range(n)]
    pending = []        # constraints applied since the last dump
    base = None
    for o, out in zip(s["ops"], outs):
        k = o[0]
        if k == "put":
            A[(min(o[2], o[3]), max(o[2], o[3]))] = Fraction(o[1])
        elif k == "addto":
            key = (min(o[2], o[3]), max(o[2], o[3]))
            # float addition as the implementation does it
            A[key] = Fraction(float(A.get(key, Fraction(0))) + o[1])
        elif k == "setb":
            b[o[1]] = Fraction(o[2])
        elif k in ("setvalue", "periodic", "antiperiodic"):
            if base is None:
                base = (dense(), b[:])
            pending.append(o)
        elif k == "wipe":
            return None
        elif k == "dump" and pending:
            rows, bd = dump_to_dense(n, out)
            Ad = rows_to_dense(n, rows)
            xd = frac_solve(Ad, bd)
            # constrained solve of the base system: unknowns reduced by the constraints
            A0, b0 = base
            xc = constrained_solve(n, A0, b0, pending)
            if xc is None or xd is None:
                return None
            scale = max(abs(float(v)) for v in xc) or 1.0
            dev = max(abs(float(u - v)) for u, v in zip(xc, xd))
            if dev > 1e-9 * scale:
                return ("after %r the dumped system's solution differs from the constrained solution of the "
                        "original system by %.3g" % ([p[:3] for p in pending], dev))
            return None
    return None


def constrained_solve(n, A, b, cons):
    """Minimise the quadratic form of (A,b) subject to x_i=v, x_i=x_j, x_i=-x_j:
    x = T y + c, solve T^T A T y = T^T (b - A c)."""
    rep = list(range(n))       # representative
    sign = [1] * n
    fixed = {}
    for o in cons:
        if o[0] == "setvalue":
            fixed[o[1]] = Fraction(o[2])
        else:
            i, j = o[1], o[2]
            if i == j:
                if o[0] == "antiperiodic":
                    fixed[i] = Fraction(0)
                continue
            rep[j] = i
            sign[j] = 1 if o[0] == "periodic" else -1
    free = [i for i in range(n) if rep[i] == i and i not in fixed]
    col = {i: k for k, i in enumerate(free)}
    m = len(free)
    T = [[Fraction(0)] * m for _ in range(n)]
    c = [Fraction(0)] * n
    for i in range(n):
        r = rep[i]
        if r in fixed:
            c[i] = sign[i] * fixed[r]
        else:
            T[i][col[r]] = Fraction(sign[i])
    AT = [[sum(A[i][k] * T[k][j] for k in range(n)) for j in range(m)] for i in range(n)]
    K = [[sum(T[k][i] * AT[k][j] for k in range(n)) for j in range(m)] for i in range(m)]
    Ac = [sum(A[i][k] * c[k] for k in range(n)) for i in range(n)]
    rhs = [sum(T[k][i] * (b[k] - Ac[k]) for k in range(n)) for i in range(m)]
    y = frac_solve(K, rhs) if m else []
    if y is None:
        return None
    return [sum(T[i][j] * y[j] for j in range(m)) + c[i] for i in range(n)]


# --------------------------------------------------------------------- correspondence ----
def compare(s, impl, model):
    mi = 0
    ops = [o for o in s["ops"] if o[0] != "dense"]
    iouts = [out for o, out in zip(s["ops"], impl) if o[0] != "dense"]
    if len(model) != len(ops):
        return "model produced %d outputs for %d ops" % (len(model), len(ops)), 0, 0
    nb = tot = 0
    for o, a, m in zip(ops, iouts, model):
        if o[0] == "solve":
            m = [m[0]] + m[2:]          # drop the model's iteration count
            if m[0] == 2:
                return "model ran out of fuel in PCG", nb, tot
        if len(a) != len(m):
            return "op %r: implementation printed %d values, model %d" % (o[:3], len(a), len(m)), nb, tot
        for x, y in zip(a, m):
            tot += 1
            if vlib.ulp_diff(float(x), float(y)) == 0:
                nb += 1
            elif not vlib.close(float(x), float(y), 64, 1e-300):
                return "op %r: implementation %r, model %r" % (o[:3], x, y), nb, tot
    return None, nb, tot


def assembled_solves(ctx):
    """the systems the assemblers really produce: generated problems of the three physics (planar / axisymmetric, all units) and
    time-harmonic magnetics with solid conductors in a series circuit down to very low frequencies are solved by the real
    tools with the guarded solve-log hook on; every solve must leave a TRUE relative residual |b - A V| / |b| below
    10 * Precision (Precision as the solver had it).  Returns (runs, log lines, worst ratio)."""
    from props import c11
    import femgen
    rng = vlib.Rng(ctx.seed + 23)
    log = os.path.join(ctx.work, "assembled-solvelog")
    plan = []
    for k in range(6 if ctx.quick() else 36):
        plan.append((["fee", "feh", "fem"][k % 3], (k // 3) % 2 == 1, 0.0, None))
    for k, f in enumerate([30.0, 1e-2, 1e-6, 1e-9] if ctx.quick() else [400.0, 30.0, 1.0, 1e-2, 1e-4, 1e-6, 1e-8, 1e-9, 1e-11]):
        for axi in (False, True):
            plan.append(("fem", axi, f, ["microns", "millimeters", "meters", "inches"][(k + axi) % 4]))
    runs = lines = 0
    worst = 0.0
    for k, (kind, axi, f, units) in enumerate(plan):
        st = rng.randint(0, 10 ** 9)
        S = dict(Vl=(1e-3 if kind == "fem" else 2.0), qv=(1.0 if kind == "fem" else 1e-3), V1=5.0, V2=-3.0, qs=1e-6, Hc=(1e4 if not f else 0.0))
        p = c11.make_variant(st, kind, axi, S, f)
        if units:
            p["units"] = units
        if os.path.exists(log):
            os.remove(log)
        wd = os.path.join(ctx.work, "asm%d" % k)
        os.makedirs(wd, exist_ok=True)
        fpath = os.path.join(wd, "prob" + {"fee": ".fee", "feh": ".feh", "fem": ".fem"}[kind])
        femgen.write(p, fpath)
        rc, out, err = vlib.sh([ctx.snap.tool("fmesher"), fpath], cwd=wd, timeout=120)
        if rc != 0:
            ctx.fail("fmesher failed on a well-formed problem (rc=%d)" % rc, problem=p); continue
        rc, out, err = vlib.sh([ctx.snap.tool({"fee": "esolver", "feh": "hsolver", "fem": "fsolver"}[kind]), fpath[:-4]], cwd=wd, timeout=300,
                               env={"XFEMM_VERIF_SOLVELOG": log})
        if rc != 0:
            ctx.fail("solver failed on a well-formed problem (rc=%d): %s" % (rc, (out + err)[-300:]), problem=p); continue
        runs += 1
        if not os.path.exists(log):
            ctx.fail("the solve-log hook wrote nothing for a solver run (hook lost?)", problem=p); continue
        for line in open(log):
            t = line.split()
            if len(t) != 5:
                continue
            lines += 1
            rr, pr = float(t[2]), float(t[3])
            if pr > 0:
                worst = max(worst, rr / pr)
            if not (rr <= 10 * pr):
                ctx.fail("assembled system (%s, %s%s, %s): the %s solver returned a vector whose true relative residual is %.3g, Precision %.3g"
                         % (kind, "axisymmetric" if axi else "planar", (", %g Hz" % f) if f else "", p["units"], t[0], rr, pr),
                         problem=p, logline=line.strip(), signature="assembled-residual:%s" % t[0])
                break
    return runs, lines, worst


def correspond(ctx):
    from props import c09_complex
    rng = ctx.rng
    count = 60 if ctx.quick() else 1500
    scripts = []
    # corpus first
    cdir = os.path.join(vlib.VERIF, "corpus", "C09")
    if os.path.isdir(cdir):
        for f in sorted(os.listdir(cdir)):
            s = json.load(open(os.path.join(cdir, f)))
            s["ops"] = [tuple(o) for o in s["ops"]]
            scripts.append(s)
    scripts += gen_scripts(rng, count)
    for k, s in enumerate(scripts):
        s["id"] = k
    solvelog = os.path.join(ctx.work, "solvelog")
    rc, impl, err = run_impl(ctx, scripts, solvelog)
    dis = []
    if rc != 0 or len(impl) != len(scripts):
        ctx.fail("harness driving CBigLinProb terminated abnormally (rc=%d) on the generated scripts" % rc,
                 stderr=err[-800:], script=scripts[len(impl) - 1 if impl else 0])
        return dis
    # property oracle on the implementation
    kinds = {}
    nontriv = set()
    for s in scripts:
        kinds[s["kind"]] = kinds.get(s["kind"], 0) + 1
        msg = oracle(ctx, s, impl[s["id"]])
        if msg:
            ctx.fail(msg, script=shrink(ctx, s, lambda t: oracle_only(ctx, t)))
        if len(s["ops"]) > 3:
            nontriv.add(to_text(s))
    # solve log written by the guarded hook
    nlog = 0
    worst = 0.0
    if os.path.exists(solvelog):
        for line in open(solvelog):
            t = line.split()
            if len(t) == 5 and t[0] == "real":
                nlog += 1
                rr, pr = float(t[2]), float(t[3])
                worst = max(worst, rr / pr if pr else 0)
                if not (rr <= 1e3 * pr):
                    ctx.fail("solve-log hook: true relative residual %g > 1e3*Precision (n=%s)" % (rr, t[1]), logline=line)
    # model side
    exprs = [to_coq(s) for s in scripts]
    model = vlib.coq_eval(HEADER, exprs, shard=100 if ctx.quick() else 250)
    nb = tot = 0
    for s, m in zip(scripts, model):
        msg, b, t = compare(s, impl[s["id"]], m)
        nb += b
        tot += t
        if msg:
            dis.append(dict(what="spars correspondence: " + msg, script=s))
    cdis, cstat = c09_complex.correspond(ctx)
    dis += cdis
    aruns, alines, aworst = assembled_solves(ctx)
    cov = ctx.res.cov
    cov["evaluations"] = len(scripts) + cstat["scripts"]
    cov["distinct_nontrivial"] = len(nontriv) + cstat["distinct"]
    cov["rule"] = ("seeded op scripts for CBigLinProb/CBigComplexLinProb (put/addto/get in random order, FE-like SPD "
                   "assembly with random insertion order and bandwidth hints, SetValue/Periodicity/AntiPeriodicity "
                   "sequences, MultA, MultPC, cold and warm solves); non-trivial = more than 3 ops, distinct = "
                   "distinct script text; plus real solver runs on generated problems (three physics, time-harmonic magnetics with "
                   "solid series conductors from 400 Hz down to 1e-11 Hz) with the true residual of every solve logged by the guarded hook")
    cov["input_distribution"] = dict(kinds=kinds, complex=cstat)
    cov["samples"] = [to_text(scripts[i]).split("\n")[:12] for i in range(min(2, len(scripts)))]
    cov["values_compared"] = tot + cstat["values"]
    cov["bit_identical"] = nb + cstat["bit_identical"]
    cov["solve_log_entries"] = nlog
    cov["worst_residual_over_precision"] = worst
    cov["assembled_problem_runs"] = aruns
    cov["assembled_solve_log_entries"] = alines
    cov["assembled_worst_residual_over_precision"] = aworst
    return dis


def oracle_only(ctx, s):
    rc, impl, err = run_impl(ctx, [s])
    if rc != 0 or s["id"] not in impl:
        return True
    return oracle(ctx, s, impl[s["id"]]) is not None


def shrink(ctx, s, fails, budget=60):
    """Greedy removal of ops while the failure persists."""
    cur = dict(s)
    ops = list(s["ops"])
    i = 0
    while i < len(ops) and budget > 0:
        trial = ops[:i] + ops[i + 1:]
        t = dict(cur, ops=trial)
        budget -= 1
        try:
            bad = fails(t)
        except Exception:
            bad = False
        if bad:
            ops = trial
        else:
            i += 1
    cur["ops"] = ops
    cur["text"] = to_text(cur).split("\n")
    return cur


def search(ctx, broken):
    """A proof or the correspondence broke: look for an input on which the property itself
    fails against the real code (the oracle above, on more and nastier scripts)."""
    from props import c09_complex
    found = []
    rng = vlib.Rng(ctx.seed + 1)
    scripts = []
    for b in broken:
        if b.get("case") and "script" in b["case"] and "ops" in b["case"]["script"] and b["case"]["script"].get("kind") != "complex":
            scripts.append(b["case"]["script"])
    scripts += gen_scripts(rng, 600)
    for k, s in enumerate(scripts):
        s["id"] = k
    rc, impl, err = run_impl(ctx, scripts)
    for s in scripts:
        if s["id"] not in impl:
            found.append(dict(what="harness crashed / produced no output for script", script=s))
            break
        msg = oracle(ctx, s, impl[s["id"]])
        if msg:
            found.append(dict(what=msg, script=shrink(ctx, s, lambda t: oracle_only(ctx, t))))
            break
    if not found:
        found += c09_complex.search(ctx, broken)
    return found
