"""XSMOOTH — nodal smoothing of the post-processors' field values (extension of C12; smoothing ON is the default).
Model: coq/theories/Smooth.v (on PointVals.v, IntegralsE/H.v, KT.v); theorems: Properties_C12_smooth.v (proofs in
SmoothProofs.v).
Correspondence: generated electrostatic and heat-flow problems (XPV's generator: two or three materials, exterior
region, conductors, fixed / mixed / flux boundaries, T-k tables; the second material made a COPY of the first - the walk
then crosses the label border - or the first with ONE constant changed - the walk must stop there) are meshed and
solved by the real femmcli and opened by the REAL ElectrostaticsPostProcessor / HPProc (harness/h_smooth.cpp) with
smoothing left at the classes' default (ON).  Compared bit for bit with the float reading of the model: the nodal
fields getNodalD returns for every element (the values OpenDocument stored AND a fresh call), the walk around every
corner (node list q, boundary neighbours lf / rt, the elements visited counter-clockwise and clockwise - the walk loop
copied into the harness on the class's own private data), isSameMaterialAs on all pairs of materials, and every value
of getPointValues for a seeded query sequence (nodes from the surrounding elements, points of shared edges from both
sides, interiors, centroids).  Magnetics: FPProc::GetPointB with smoothing on (the interpolation of the stored nodal B)
and GetNodalB's inverse-distance mean at nodes all of whose elements carry the same block label.
Oracles on the implementation's outputs, independent of the Coq model: (1) affine potentials V = a + b x + c y written
into the solution file of a real mesh must give E = -(b, c)/LengthConv at every query with smoothing on (outside the
exterior region), D = eo e E resp. F = K G; (2) the smoothed D at a corner is the stored nodal value, on a shared edge
it is the same from both sides when both elements hold the same nodal values; (3) isSameMaterialAs is reflexive,
symmetric and agrees with equality of the constants in the PROBLEM FILE; (4) every element the walk visited is of the
same material as the starting element; (5) the classes' default smoothing state is ON."""
import os, math, json, time, shutil
import vlib, femgen
from props import xint, xpv, c05_gen

LEVEL = "proof"
COQ_MODULES = ["Smooth"]
ASSUMPTIONS = [
    "theorems are about the real-number reading of the smoothing model; rounding is not bounded",
    "modelled: PostProcessor::getNodalD (the walk around each corner over the sorted connection list, both directions, the "
    "q[20] cap, the stop at material borders / flagged boundary neighbours, the punt cases, the plane fit, D = eps E eo / "
    "AECF(elem,node) resp. F = k(T_node) G), getPointD with Smooth == true, CSMaterialProp / CHMaterialProp::isSameMaterialAs, "
    "getPointValues of epproc / hpproc with smoothing on; FPProc::GetPointB with Smooth == true and the inverse-distance "
    "mean of GetNodalB at nodes all of whose elements have the element's block label",
    "not modelled: GetNodalB's interface / corner branches (nodes touching another label), its point-current and "
    "incremental-permeability tails, the sort of the connection lists (atan2) and the corner-angle value arg(x/y): both are "
    "inputs taken from the implementation; point location (C12 proper)",
    "the element's own field elem->D used in the punt cases is IntegralsE.ie_D / IntegralsH.ih_D (XINT / XPV)",
    "N is assumed to occur in ConList[p[i]] (true by construction of the lists; otherwise the C++ reads past the list)",
    "the model is hand-written; its tie to PostProcessor.cpp / CMaterialProp.cpp / fpproc.cpp is the correspondence run here "
    "plus the source anchors checked by regen",
]
HEADER = ("From Coq Require Import ZArith List Floats. Import ListNotations. "
          "From XF Require Import Arith Sparse AsmE KT Integrals IntegralsE IntegralsH IntegralsM PointVals Smooth.")
EXE = {}
HEATFIX = {"value": "false"}

ANCHORS = [
    ("libfemm/PostProcessor.cpp", "for(eos=0;eos<NumList[j];eos++) if(ConList[j][eos]==N) break;"),
    ("libfemm/PostProcessor.cpp", "for(k=0,m=eos,qn=0;k<NumList[j];k++)"),
    ("libfemm/PostProcessor.cpp", "if(!isSameMaterial(*elem,*conElem)) break;"),
    ("libfemm/PostProcessor.cpp", "for(nos=0;nos<3;nos++) if(conElem->p[nos]==j) break;"),
    ("libfemm/PostProcessor.cpp", "nos--; if(nos<0) nos=2;"),
    ("libfemm/PostProcessor.cpp", "nos++; if(nos>2) nos=0;"),
    ("libfemm/PostProcessor.cpp", "if (qn<20) q[qn++]=p;"),
    ("libfemm/PostProcessor.cpp", "if ((meshnodes[j]->Q!=-2) && (meshnodes[p]->Q!=-2)){ rt=p; break; }"),
    ("libfemm/PostProcessor.cpp", "if((meshnodes[j]->Q!=-2) &&(meshnodes[p]->Q!=-2)){ lf=p; break; }"),
    ("libfemm/PostProcessor.cpp", "m++; if(m==NumList[j]) m=0;"),
    ("libfemm/PostProcessor.cpp", "m--; if(m<0) m=NumList[j]-1;"),
    ("libfemm/PostProcessor.cpp", "if ((lf==rt) && (rt!=-1) && (meshnodes[j]->Q!=-2))"),
    ("libfemm/PostProcessor.cpp", "else if ((rt!=-1) && (meshnodes[j]->Q!=-2) && (lf==-1))"),
    ("libfemm/PostProcessor.cpp", "else if ((lf!=-1) && (meshnodes[j]->Q!=-2) && (rt==-1))"),
    ("libfemm/PostProcessor.cpp", "else if((lf==-1) && (rt==-1) && (meshnodes[j]->Q!=-2))"),
    ("libfemm/PostProcessor.cpp", "else if((lf!=-1) && (rt!=-1) && (meshnodes[j]->Q!=-2))"),
    ("libfemm/PostProcessor.cpp", "if(std::abs(arg(x/y))>10.0001*PI/180.)"),
    ("libfemm/PostProcessor.cpp", "q[qn++]=j;"),
    ("libfemm/PostProcessor.cpp", "dx=meshnodes[q[k]]->x-meshnodes[j]->x;"),
    ("libfemm/PostProcessor.cpp", "dv=nodej->V - nodek->V;"),
    ("libfemm/PostProcessor.cpp", "dv=nodej->T - nodek->T;"),
    ("libfemm/PostProcessor.cpp", "xv+=dx*dv;"),
    ("libfemm/PostProcessor.cpp", "det=(-(ii*xy*xy) + 2*xi*xy*yi - xx*yi*yi - xi*xi*yy + ii*xx*yy)*LengthConv[problem->LengthUnits];"),
    ("libfemm/PostProcessor.cpp", "if (det==0) d[i]=elem->D;"),
    ("libfemm/PostProcessor.cpp", "Ex=(iv*xy*yi - xv*yi*yi - ii*xy*yv + xi*yi*yv - iv*xi*yy + ii*xv*yy)/det;"),
    ("libfemm/PostProcessor.cpp", "Ey=(iv*xi*xy - ii*xv*xy + xi*xv*yi - iv*xx*yi - xi*xi*yv + ii*xx*yv)/det;"),
    ("libfemm/PostProcessor.cpp", "d[i] = bprop->ex * Ex * eo + I * bprop->ey * Ey * eo;"),
    ("libfemm/PostProcessor.cpp", "d[i]/=AECF(elem,meshnodes[j]->CC());"),
    ("libfemm/PostProcessor.cpp", "CComplex kn=bprop->GetK(nodej->T);"),
    ("libfemm/PostProcessor.cpp", "d[i]= Re(kn)*Ex + I*Im(kn)*Ey;"),
    ("libfemm/PostProcessor.cpp", "D+=(elm.d[i]*(a[i]+b[i]*x+c[i]*y)/da);"),
    ("libfemm/PostProcessor.cpp", "return (problem->blockproplist[e1.blk]->isSameMaterialAs(problem->blockproplist[e2.blk].get()));"),
    ("libfemm/PostProcessor.cpp", "Smooth = true;"),
    ("libfemm/CMaterialProp.cpp", "return (m2 != nullptr && (ex==m2->ex) && (ey==m2->ey));"),
    ("libfemm/CMaterialProp.cpp", "if ((Kx==m2->Kx) && (Ky==m2->Ky) && (npts==0) && (m2->npts==0)) return true;"),
    ("libfemm/CMaterialProp.cpp", "if ((Kn[k].re!=m2->Kn[k].re) || (Kn[k].im!=m2->Kn[k].im)) return false;"),
    ("epproc/epproc.cpp", "getNodalD(elem->d,i);"),
    ("hpproc/hpproc.cpp", "getNodalD(elem->d,i);"),
    ("epproc/epproc.cpp", "getPointD(x,y,u.D,*elem);"),
    ("hpproc/hpproc.cpp", "getPointD(x,y,u.F,*elem);"),
    ("fpproc/fpproc.cpp", "B1+=(elm.b1[i]*(a[i]+b[i]*x+c[i]*y)/da);"),
    ("fpproc/fpproc.cpp", "B2+=(elm.b2[i]*(a[i]+b[i]*x+c[i]*y)/da);"),
    ("fpproc/fpproc.cpp", "if(elm.lbl==meshelem[ConList[k][j]].lbl) m++;"),
    ("fpproc/fpproc.cpp", "if(m==NumList[k]) // normal smoothing method for points"),
    ("fpproc/fpproc.cpp", "z=1./abs(p-Ctr(m));"),
    ("fpproc/fpproc.cpp", "b1[i]+=(z*meshelem[m].B1);"),
    ("fpproc/fpproc.cpp", "b2[i]/=R;"),
    ("fpproc/fpproc.cpp", "GetNodalB(meshelem[i].b1,meshelem[i].b2,meshelem[i]);"),
    ("fpproc/fpproc.cpp", "Smooth = true;"),
]


def regen(ctx):
    """no generated Coq text: checks that the statements the model transcribes are still in the sources and reads the source
    variant of the heat-flow case of getNodalD (d[i] divided by the exterior-region factor or not)"""
    cache = {}
    sq = xint.squeeze
    missing = None
    for f, snip in ANCHORS:
        if f not in cache:
            cache[f] = sq(open(os.path.join(ctx.snap.src, f), errors="replace").read())
        if sq(snip) not in cache[f] and not missing:
            missing = "%s no longer contains `%s`: the smoothing model (Smooth.v) transcribes it" % (f, snip)
    src = cache["libfemm/PostProcessor.cpp"]
    i0 = src.find(sq("void PostProcessor::getNodalD(CComplex *d, int N) const"))
    i1 = src.find(sq("void femm::PostProcessor::FindBoundaryEdges()"), i0)
    body = src[i0:i1] if 0 <= i0 < i1 else ""
    n = body.count(sq("d[i]/=AECF(elem,meshnodes[j]->CC());"))
    ih = body.find(sq("d[i]= Re(kn)*Ex + I*Im(kn)*Ey;"))
    if n == 1 and ih >= 0 and not body[ih:].startswith(sq("d[i]= Re(kn)*Ex + I*Im(kn)*Ey; d[i]/=AECF")):
        HEATFIX["value"] = "false"
    elif n == 2 and ih >= 0 and body[ih:].startswith(sq("d[i]= Re(kn)*Ex + I*Im(kn)*Ey; d[i]/=AECF(elem,meshnodes[j]->CC());")):
        HEATFIX["value"] = "true"
    else:
        raise vlib.TranslateError("PostProcessor.cpp getNodalD: the heat-flow case matches neither `d[i]= Re(kn)*Ex + I*Im(kn)*Ey;` alone "
                                  "(as shipped) nor that line followed by `d[i]/=AECF(elem,meshnodes[j]->CC());`")
    if missing:
        raise vlib.TranslateError(missing)


# --------------------------------------------------------------------------- harness ----
def harness(ctx):
    if "exe" not in EXE:
        EXE["exe"] = vlib.build_harness(ctx.snap, "h_smooth", libs=("epproc", "hpproc", "fpproc", "femm"))
    return EXE["exe"]


hx = xpv.hx


def run_harness(ctx, kind, sol, cmds):
    rc, out, err = vlib.sh([harness(ctx), {"fee": "e", "feh": "h", "fem": "m"}[kind], sol], inp="\n".join(cmds) + "\n", timeout=300)
    d = dict(nodes=[], elems=[], labels=[], mats=[], circs=[], res=[], nodal=[], con=[], stored=[], same=[], walk=[], fresh=[], ok=False)
    for line in out.split("\n"):
        t = line.split()
        if not t:
            continue
        k = t[0]
        try:
            if k == "O":
                d["ok"] = t[1] == "1"
            elif k == "P":
                d["P"] = [float(x) for x in t[1:]]
            elif k == "S":
                d["S"] = int(t[1])
            elif k == "J":
                d["J"] = [int(t[1]), int(t[2])]
            elif k == "n":
                d["nodes"].append([float(x) for x in t[1:]])
            elif k == "e":
                d["elems"].append([int(x) for x in t[1:6]] + [float(x) for x in t[6:]])
            elif k == "l":
                d["labels"].append([float(x) for x in t[1:]])
            elif k == "m":
                d["mats"].append([float(x) for x in t[1:]])
            elif k == "c" and len(t) > 1:
                d["circs"].append([float(x) for x in t[1:]])
            elif k == "K":
                d["con"].append([int(x) for x in t[3:]])
            elif k == "d":
                d["stored"].append([float(x) for x in t[2:]])
            elif k == "I":
                d["same"].append([int(x) for x in t[2:]])
            elif k == "r":
                d["res"].append((int(t[1]), [float(x) for x in t[2:]]))
            elif k == "g":
                d["fresh"].append((int(t[1]), [float(x) for x in t[2:]]))
            elif k == "b":
                d["nodal"].append((int(t[1]), [float(x) for x in t[2:]]))
            elif k == "w":
                N, i, j, eos, lf, rt = [int(x) for x in t[1:7]]
                ang = float(t[7])
                r = [int(x) for x in t[8:]]
                nq = r[0]; q = r[1:1 + nq]; r = r[1 + nq:]
                nc = r[0]; vc = r[1:1 + nc]; r = r[1 + nc:]
                nw = r[0]; vw = r[1:1 + nw]
                d["walk"].append(dict(N=N, i=i, j=j, eos=eos, lf=lf, rt=rt, ang=ang, q=q, ccw=vc, cw=vw))
        except (ValueError, IndexError):
            continue
    if rc != 0 or not d["ok"] or "P" not in d:
        return None, "h_smooth failed (rc=%d): %s" % (rc, (out[-300:] + err[-300:]))
    return d, None


# ------------------------------------------------------------------------- to Coq ----
def aux_coq(d, walks):
    con = "; ".join("[%s]" % "; ".join(str(x) for x in c) for c in d["con"])
    seen, angs = set(), []
    for w in walks:
        if w["lf"] >= 0 and w["rt"] >= 0 and (w["j"], w["lf"], w["rt"]) not in seen:
            seen.add((w["j"], w["lf"], w["rt"]))
            angs.append("(%d, %d, %d, %s)" % (w["j"], w["lf"], w["rt"], vlib.fhexs(w["ang"])))
    return "(mkSMAux [%s] [%s])" % (con, "; ".join(angs))


OZ = "(fun o : option nat => match o with Some n => Z.of_nat n | None => (-1)%Z end)"


def s_to_coq(kind, d, depth_file, walks, ks, Q):
    qs = "; ".join("(%d, %s, %s)" % (k, vlib.fhexs(x), vlib.fhexs(y)) for (k, x, y) in Q)
    kl = "; ".join(str(k) for k in ks)
    nm = len(d["mats"])
    if kind == "fee":
        P = xpv.e_prob_coq(d, depth_file)
        nod, wk, pt, same = "se_nodal FA P X", "se_walk FA P X", "se_point FA P X", "cs_same FA (ie_mats P)"
    else:
        P = xpv.h_prob_coq(d, depth_file)
        nod, wk, pt, same = ("sh_nodal FA %s P X" % HEATFIX["value"], "sh_walk FA P X", "sh_point FA %s P X" % HEATFIX["value"],
                             "ch_same FA (ih_mats P)")
    return ("let P := %s in let X := %s in let oz := %s in "
            "(map (fun k => map (fun i => %s k i) [0; 1; 2]) [%s], "
            "map (fun k => map (fun i => let w := %s k i in (w_j w, w_q w, oz (w_lf w), oz (w_rt w), w_ccw w, w_cw w)) [0; 1; 2]) [%s], "
            "map (fun q => match q with (k, x, y) => %s k x y end) [%s], "
            "map (fun i => map (fun j => %s i j) (seq 0 %d)) (seq 0 %d))"
            % (P, aux_coq(d, walks), OZ, nod, kl, wk, kl, pt, qs, same, nm, nm))


# ------------------------------------------------------------------------- problems ----
def scalar_problem(rng, kind, k, quick):
    """XPV's generator + C06's 'nearly the same materials': k % 3 == 0 the second material is a copy of the first (another
    block, the same constants: the walk crosses the label border), k % 3 == 1 it is the first with ONE constant changed"""
    p = xpv.scalar_problem(rng, kind, k, quick)
    bp = p["blockprops"]
    ext_blocks = set(l["block"] - 1 for l in p["labels"] if l.get("external"))
    if len(bp) >= 2 and k % 3 in (0, 1):
        a, b = bp[0], bp[1]
        keys = ("ex", "ey") if kind == "fee" else ("kx", "ky")
        if 1 in ext_blocks or 0 in ext_blocks:
            a[keys[1]] = a[keys[0]]                                 # exterior blocks must be isotropic (femmcli refuses others)
        for key in keys:
            b[key] = a[key]
        if kind == "feh":
            if "tk" not in a and k % 3 == 1:
                # a T-k table somewhere else: give it to the first material, so that copies that differ in one table point occur
                for o in bp[1:]:
                    if "tk" in o:
                        a["tk"] = o.pop("tk")
                        break
            if "tk" in a:
                b["tk"] = list(a["tk"])
            else:
                b.pop("tk", None)
        p["features"].append("mat1=copy-of-mat0")
        if k % 3 == 1:
            if kind == "feh" and "tk" in b and rng.random() < 0.7:
                tk = list(b["tk"]); i = rng.randrange(len(tk)); tk[i] = (tk[i][0], tk[i][1] * 1.25); b["tk"] = tk
                p["features"].append("mat1-differs-in:one-tk-point")
            else:
                key = rng.choice(keys)
                if 1 in ext_blocks or 0 in ext_blocks:
                    key = keys[0] + "+" + keys[1]
                    b[keys[1]] = b[keys[0]] = a[keys[0]] * 1.5
                else:
                    b[key] = a[key] * 1.5
                p["features"].append("mat1-differs-in:" + key)
    return p


def file_same(kind, a, b):
    """isSameMaterialAs as it should answer, from the PROBLEM FILE's blocks"""
    if kind == "fee":
        return a["ex"] == b["ex"] and a["ey"] == b["ey"]
    ta, tb = a.get("tk") or [], b.get("tk") or []
    if not ta and not tb:
        return a["kx"] == b["kx"] and a["ky"] == b["ky"]
    return bool(ta) and len(ta) == len(tb) and all(x[0] == y[0] and x[1] == y[1] for x, y in zip(ta, tb))


# --------------------------------------------------------------------------- oracle ----
def write_affine(sol, dst, al, be, ga):
    """copy of a solution file with the nodal potentials replaced by al + be x + ga y (node coordinates as written)"""
    lines = open(sol, errors="replace").read().split("\n")
    i = next(k for k, l in enumerate(lines) if l.strip() == "[Solution]")
    n = int(lines[i + 1].split()[0])
    vals = []
    for k in range(i + 2, i + 2 + n):
        t = lines[k].split()
        x, y = float(t[0]), float(t[1])
        v = al + be * x + ga * y
        vals.append((x, y, v))
        t[2] = repr(v)
        lines[k] = "\t".join(t)
    open(dst, "w").write("\n".join(lines))
    return vals


def rel(a, b, tol, floor=0.0):
    return abs(a - b) <= tol * max(abs(a), abs(b)) + floor


def oracle_affine(ctx, kind, p, sol, name, rng, stats, notes):
    al = rng.choice([0.0, 3.0, -7.5]); be = rng.choice([1.0, -2.5, 40.0, 0.125]); ga = rng.choice([-1.0, 0.75, 12.0, 3.0])
    if kind == "feh":
        al += 300.0
    dst = os.path.join(ctx.work, name + sol[-4:])
    write_affine(sol, dst, al, be, ga)
    d, err = run_harness(ctx, kind, dst, [])
    if err:
        ctx.fail("%s: a solution file with an affine potential on the mesh of a solved problem is not opened: %s" % (kind, err), problem=p); return
    Q = xpv.gen_queries(vlib.Rng(ctx.seed * 151 + len(name)), d, 40)
    d2, err = run_harness(ctx, kind, dst, xpv.commands(Q))
    if err or len(d2["res"]) != len(Q):
        ctx.fail("h_smooth: the query sequence on the affine solution was not answered completely (%s)" % err, problem=p); return
    lc = d["P"][1]; axi = d["P"][0]
    who = "epproc" if kind == "fee" else "hpproc"
    E0 = (-be / lc, -ga / lc)
    sc = max(abs(E0[0]), abs(E0[1]))
    zo, ro, ri = d["P"][3], d["P"][4], d["P"][5]
    for q, (k, v) in zip(Q, d2["res"]):
        if k < 0:
            continue
        e = d["elems"][k]
        ext = bool(d["labels"][e[3]][3]) and bool(axi)
        if kind == "fee":
            Dx, Dy, Ex, Ey, ex, ey = v[1:7]
            eo = d["P"][6]
            if not (rel(Dx, eo * ex * Ex, 1e-12, 1e-300) and rel(Dy, eo * ey * Ey, 1e-12, 1e-300)):
                ctx.fail("epproc (smoothing on): D=(%r,%r) is not eo e E with the returned e and E" % (Dx, Dy), problem=p, affine=[al, be, ga],
                         query=[hx(q["x"]), hx(q["y"]), k]); return
        else:
            Fx, Fy, Ex, Ey, Kx, Ky = v[1:7]
            if not (rel(Fx, Kx * Ex, 1e-12, 1e-300) and rel(Fy, Ky * Ex if False else Ky * Ey, 1e-12, 1e-300)):
                ctx.fail("hpproc (smoothing on): F=(%r,%r) is not K G with the returned K and G" % (Fx, Fy), problem=p, affine=[al, be, ga],
                         query=[hx(q["x"]), hx(q["y"]), k]); return
        tkmat = kind == "feh" and int(d["mats"][e[4]][2]) > 0
        if not ext and tkmat:
            # a T-k table: the nodal fluxes are k(T_node) G (fit) or mean_i k(T_i) G (punt: the element's own flux); their interpolation is
            # a convex combination of k(T_i) times G, not k(T(p)) G: the flux must lie between min and max of k(T_i) times -grad T
            ks = [xint.getk_py(d["mats"][e[4]], d["nodes"][e[i]][2]) for i in range(3)]
            for c, (Fv, Ev) in enumerate(((Fx, E0[0]), (Fy, E0[1]))):
                lo = min(kk[c] for kk in ks) * (1 - 1e-7); hi = max(kk[c] for kk in ks) * (1 + 1e-7)
                if Ev != 0 and not (lo <= Fv / Ev <= hi):
                    ctx.fail("hpproc (smoothing on): T is the affine function %r + %r x + %r y at every node, but component %d of the heat flux (%r, %r) at "
                             "(%s, %s) [%s, element %d] is %r x -grad T, outside the range [%r, %r] of the conductivity at the element's nodes"
                             % (al, be, ga, c, Fx, Fy, hx(q["x"]), hx(q["y"]), q["cat"], k, Fv / Ev, lo, hi), problem=p, affine=[al, be, ga],
                             query=[hx(q["x"]), hx(q["y"]), k]); return
            stats["affine_exact_tk"] = stats.get("affine_exact_tk", 0) + 1
        elif not ext:
            if abs(Ex - E0[0]) > 1e-7 * sc or abs(Ey - E0[1]) > 1e-7 * sc:
                ctx.fail("%s (smoothing on): the potential is the affine function %r + %r x + %r y at every node, but the returned gradient field "
                         "(%r, %r) at (%s, %s) [%s, element %d] is not -(b, c)/LengthConv = (%r, %r): the plane fit is not exact on affine data"
                         % (who, al, be, ga, Ex, Ey, hx(q["x"]), hx(q["y"]), q["cat"], k, E0[0], E0[1]), problem=p, affine=[al, be, ga],
                         query=[hx(q["x"]), hx(q["y"]), k]); return
            stats["affine_exact"] += 1
        elif q["cat"] in ("vertex", "axis") and kind == "feh":
            # exterior region, at a mesh node: G should be the gradient again (electrostatics divides the nodal D by the factor at
            # the node, and E = D/(e eo) multiplies by it); the heat-flow case of getNodalD lacks the division: G = grad x factor
            r2 = q["x"] ** 2 + (q["y"] - zo) ** 2
            f = r2 / (ro * ri) if r2 != 0 else e[11]
            okx = abs(Ex - E0[0]) <= 1e-7 * sc and abs(Ey - E0[1]) <= 1e-7 * sc
            off = abs(Ex - E0[0] * f) <= 1e-7 * sc * max(f, 1) and abs(Ey - E0[1] * f) <= 1e-7 * sc * max(f, 1)
            if abs(f - 1) > 1e-3 and off and not okx:
                msg = ("hpproc getNodalD: in the exterior region the nodal heat flux is not divided by the exterior-region factor "
                       "(electrostatics: d[i]/=AECF(elem,node)): with T affine the temperature gradient returned at mesh node (%s, %s) is "
                       "(%r, %r) = -grad T x %r instead of -grad T = (%r, %r)" % (hx(q["x"]), hx(q["y"]), Ex, Ey, f, E0[0], E0[1]))
                if HEATFIX["value"] == "true":
                    ctx.fail(msg, problem=p, affine=[al, be, ga], query=[hx(q["x"]), hx(q["y"]), k]); return
                if len(notes) < 4:
                    notes.append(dict(what="XSMOOTH-1 " + msg, features=p["features"], affine=[al, be, ga], query=[hx(q["x"]), hx(q["y"]), k]))
                stats["heat_exterior_unscaled"] += 1
            elif okx:
                stats["heat_exterior_ok"] += 1


def oracle_nodal(ctx, kind, p, d, Q, R, stats):
    """nodal at corners, the same from both sides of a shared edge when both elements hold the same nodal values"""
    who = "epproc" if kind == "fee" else "hpproc"
    N, E, S = d["nodes"], d["elems"], d["stored"]
    groups = {}
    for q, (k, v) in zip(Q, R):
        if k < 0:
            continue
        D = (v[1], v[2])
        sc = max(max(abs(x) for x in S[k]), 1e-300)
        if q["cat"] in ("vertex", "axis"):
            i = list(E[k][:3]).index(q["node"])
            if abs(D[0] - S[k][2 * i]) > 1e-9 * sc or abs(D[1] - S[k][2 * i + 1]) > 1e-9 * sc:
                ctx.fail("%s (smoothing on): the field at corner %d of element %d is (%r, %r), the nodal value getNodalD stored there is (%r, %r)"
                         % (who, i, k, D[0], D[1], S[k][2 * i], S[k][2 * i + 1]), problem=p, query=[hx(q["x"]), hx(q["y"]), k]); return
            stats["nodal_at_corner"] += 1
        if q["cat"] == "edge":
            groups.setdefault(q["grp"], []).append((k, D, sc, q))
    for grp, g in groups.items():
        if len(g) != 2:
            continue
        (k0, D0, s0, q0), (k1, D1, s1, _) = g
        a, b = q0["a"], q0["b"]
        def nod(k, n):
            i = list(E[k][:3]).index(n)
            return (S[k][2 * i], S[k][2 * i + 1])
        def near(u, v):
            return abs(u[0] - v[0]) <= 1e-11 * (s0 + s1) and abs(u[1] - v[1]) <= 1e-11 * (s0 + s1)
        # (the same patch walked from another starting element gives the same nodal value up to the order of the sums)
        if near(nod(k0, a), nod(k1, a)) and near(nod(k0, b), nod(k1, b)):
            if abs(D0[0] - D1[0]) > 1e-9 * (s0 + s1) or abs(D0[1] - D1[1]) > 1e-9 * (s0 + s1):
                ctx.fail("%s (smoothing on): elements %d and %d hold the same nodal fields at both ends of their shared edge, but the field on the "
                         "edge differs: %r vs %r" % (who, k0, k1, D0, D1), problem=p, query=[hx(q0["x"]), hx(q0["y"]), k0, k1]); return
            stats["edge_pairs_continuous"] += 1
        else:
            stats["edge_pairs_other_patch"] += 1


def oracle_same(ctx, kind, p, d, walks, stats):
    who = "CSMaterialProp" if kind == "fee" else "CHMaterialProp"
    I = d["same"]
    bp = p["blockprops"]
    for i in range(len(I)):
        for j in range(len(I)):
            if I[i][j] != I[j][i] or I[i][i] != 1:
                ctx.fail("%s::isSameMaterialAs is not reflexive / symmetric on materials %d, %d of the problem" % (who, i, j), problem=p); return
            if i < len(bp) and j < len(bp) and bool(I[i][j]) != bool(i == j or file_same(kind, bp[i], bp[j])):
                ctx.fail("%s::isSameMaterialAs(%d, %d) = %d, but the blocks of the problem file %s"
                         % (who, i, j, I[i][j], "have the same constants" if file_same(kind, bp[i], bp[j]) else "differ in a constant that enters the field"),
                         problem=p, blocks=[bp[i], bp[j]]); return
            stats["same_pairs"] += 1
    E = d["elems"]
    for w in walks:
        b0 = E[w["N"]][4]
        for n in w["ccw"] + w["cw"]:
            if not I[b0][E[n][4]]:
                ctx.fail("getNodalD: the walk around node %d started in element %d (material %d) collected a node from element %d of material %d"
                         % (w["j"], w["N"], b0, n, E[n][4]), problem=p); return
            if E[n][3] != E[w["N"]][3]:
                stats["walk_crossed_label_border"] += 1
        stats["walks"] += 1
        if w["lf"] >= 0 or w["rt"] >= 0:
            stats["walks_ended_at_boundary"] += 1
        if len(w["ccw"]) < len(d["con"][w["j"]]) and w["rt"] < 0:
            stats["walks_ended_at_material_border"] += 1


# ------------------------------------------------------------------- magnetics (GetPointB, inverse-distance mean) ----
def m_exprs(d, ks, Q):
    """model side of FPProc::GetPointB with smoothing on (from the stored nodal b1/b2) and of GetNodalB at corners all of
    whose elements carry the element's label"""
    f = vlib.fhexs
    N, E, S, C = d["nodes"], d["elems"], d["stored"], d["con"]
    def cpx(a, b):
        return "(%s, %s)" % (f(a), f(b))
    pts = []
    for (k, x, y) in Q:
        e = E[k]
        xy = " ".join("%s %s" % (f(N[e[j]][0]), f(N[e[j]][1])) for j in range(3))
        s = S[k]
        b1 = " ".join(cpx(s[2 * i], s[2 * i + 1]) for i in range(3))
        b2 = " ".join(cpx(s[6 + 2 * i], s[7 + 2 * i]) for i in range(3))
        pts.append("(let s := shape FA %s in let u := sm_pointB FA s %s %s %s in let v := sm_pointB FA s %s %s %s in [fst u; snd u; fst v; snd v])"
                   % (xy, b1, f(x), f(y), b2, f(x), f(y)))
    avg = []
    for (k, i) in ks:
        j = E[k][i]
        ar = "; ".join("(%s, %s, %s)" % (cpx(E[m][5], E[m][6]), cpx(E[m][7], E[m][8]), cpx(E[m][9], E[m][10])) for m in C[j])
        avg.append("(let r := sm_avgB FA %s %s [%s] in [fst (fst r); snd (fst r); fst (snd r); snd (snd r)])" % (f(N[j][0]), f(N[j][1]), ar))
    return "([%s], [%s])" % ("; ".join(pts), "; ".join(avg))


# ------------------------------------------------------------------- correspondence ----
E_NAMES = xpv.E_NAMES
H_NAMES = xpv.H_NAMES


def pick_elems(rng, d, limit):
    n = len(d["elems"])
    if n <= limit:
        return list(range(n))
    E = d["elems"]
    # elements touching a node shared by several materials / labels or a flagged node first
    node_blk = {}
    for e in E:
        for j in range(3):
            node_blk.setdefault(e[j], set()).add((e[3], e[4]))
    hot = [i for i, e in enumerate(E) if any(len(node_blk[e[j]]) > 1 or d["nodes"][e[j]][3] != -2 for j in range(3))]
    rng.shuffle(hot)
    ks = hot[:limit * 2 // 3]
    rest = [i for i in range(n) if i not in set(ks)]
    rng.shuffle(rest)
    return sorted(ks + rest[:limit - len(ks)])


def correspond(ctx):
    rng = ctx.rng
    tally = xint.Tally()
    dis, feats, samples, notes = [], {}, [], []
    stats = dict(affine_exact=0, heat_exterior_unscaled=0, heat_exterior_ok=0, nodal_at_corner=0, edge_pairs_continuous=0,
                 edge_pairs_other_patch=0, same_pairs=0, walks=0, walks_ended_at_boundary=0, walks_ended_at_material_border=0,
                 walk_crossed_label_border=0, punts=0, fits=0, stored_vs_fresh=0, default_smoothing_on=0)
    nq = 30 if ctx.quick() else 100
    limit = 90 if ctx.quick() else 260
    exprs, cases = [], []
    evals = 0
    distinct = set()
    T = dict(solve=0.0, harness=0.0, coq=0.0)
    walk_tot = walk_bit = 0
    for kind in ("fee", "feh"):
        for k in range(5 if ctx.quick() else 18):
            p = scalar_problem(rng, kind, k, ctx.quick())
            for ft in p["features"]:
                feats[kind + ":" + str(ft)] = feats.get(kind + ":" + str(ft), 0) + 1
            t0 = time.time()
            sol, err = xint.solve(ctx, p, "sm%s%d" % (kind[2], k))
            T["solve"] += time.time() - t0
            if err:
                ctx.fail("%s run failed on a well-formed problem: %s" % (kind, err), problem=p); continue
            t0 = time.time()
            d, err = run_harness(ctx, kind, sol, [])
            if err:
                ctx.fail(err, problem=p); continue
            if d.get("S") != 1:
                ctx.fail("%s: field smoothing is not ON by default after OpenDocument" % kind, problem=p); continue
            stats["default_smoothing_on"] += 1
            ks = pick_elems(vlib.Rng(ctx.seed * 157 + k), d, limit)
            Q = xpv.gen_queries(vlib.Rng(ctx.seed * 163 + k), d, nq)
            # queries next to interfaces: every node whose elements are of several labels, asked from each side
            node_el = {}
            for ei, e in enumerate(d["elems"]):
                for j in range(3):
                    node_el.setdefault(e[j], []).append(ei)
            multi = [n for n, els in node_el.items() if len(set(d["elems"][e][3] for e in els)) > 1]
            for n in (multi if len(multi) <= 6 else vlib.Rng(ctx.seed + k).sample(multi, 6)):
                seen = set()
                for ei in node_el[n]:
                    if d["elems"][ei][3] not in seen:
                        seen.add(d["elems"][ei][3])
                        Q.append(dict(cmd="Q", x=d["nodes"][n][0], y=d["nodes"][n][1], cat="vertex", node=n, k=ei))
            Q = [q for q in Q if q["cmd"] == "q" or q["k"] in set(ks)] if len(ks) < len(d["elems"]) else Q
            cmds = ["w %d" % kk for kk in ks] + ["g %d" % kk for kk in ks] + xpv.commands(Q)
            d2, err = run_harness(ctx, kind, sol, cmds)
            T["harness"] += time.time() - t0
            if err or len(d2["res"]) != len(Q) or len(d2["walk"]) != 3 * len(ks) or len(d2["fresh"]) != len(ks):
                ctx.fail("h_smooth: the command sequence was not answered completely (%s)" % err, problem=p); continue
            R = d2["res"]
            # a point located by InTriangle may lie in an element outside the picked set: the model gets it anyway
            evals += len(Q) + 3 * len(ks)
            for q, (kk, v) in zip(Q, R):
                distinct.add((kind, k, q["x"], q["y"], kk))
            for kk in ks:
                for i in range(3):
                    distinct.add((kind, k, "corner", kk, i))
            # the stored nodal values are what a fresh call returns
            for (kk, v) in d2["fresh"]:
                if v != d["stored"][kk]:
                    ctx.fail("%s: getNodalD(element %d) returns %r now, OpenDocument stored %r" % (kind, kk, v, d["stored"][kk]), problem=p); break
                stats["stored_vs_fresh"] += 1
            oracle_same(ctx, kind, p, d, d2["walk"], stats)
            oracle_nodal(ctx, kind, p, d, Q, R, stats)
            oracle_affine(ctx, kind, p, sol, "aff%s%d" % (kind[2], k), vlib.Rng(ctx.seed * 167 + k), stats, notes)
            QQ = [(q, r) for q, r in zip(Q, R) if r[0] >= 0]
            exprs.append(s_to_coq(kind, d, p.get("depth", 1), d2["walk"], ks, [(r[0], q["x"], q["y"]) for q, r in QQ]))
            cases.append((kind, p, d, d2, ks, [q for q, _ in QQ], [r for _, r in QQ]))
            if len(samples) < 8:
                samples.append(dict(physics=kind, features=p["features"], nodes=len(d["nodes"]), elements=len(d["elems"]), corners=3 * len(ks),
                                    queries=len(Q), same_matrix=d["same"]))
    # ---- magnetics: GetPointB with smoothing on, inverse-distance mean of GetNodalB
    mcases = []
    mrng = vlib.Rng(ctx.seed * 173)
    for k in range(2 if ctx.quick() else 8):
        p = c05_gen.gen_problem(mrng, harmonic=(k % 2 == 1), size_nodes=mrng.choice([25, 40]) if ctx.quick() else mrng.choice([40, 100, 250]))
        t0 = time.time()
        sol, err = xint.solve(ctx, p, "smm%d" % k, writer=c05_gen.write)
        T["solve"] += time.time() - t0
        if err:
            ctx.fail("magnetics run failed on a well-formed problem: " + err, problem=p); continue
        d, err = run_harness(ctx, "fem", sol, [])
        if err:
            ctx.fail(err, problem=p); continue
        if d.get("S") != 1:
            ctx.fail("fpproc: field smoothing is not ON by default after OpenDocument", problem=p); continue
        stats["default_smoothing_on"] += 1
        for ft in p["features"]:
            feats["M:" + str(ft)] = feats.get("M:" + str(ft), 0) + 1
        E = d["elems"]
        Q = [q for q in xpv.gen_queries(vlib.Rng(ctx.seed * 179 + k), d, nq)]
        # corners all of whose elements carry the element's label
        cand = [(ei, i) for ei, e in enumerate(E) for i in range(3) if all(E[m][3] == e[3] for m in d["con"][e[i]])]
        vlib.Rng(ctx.seed * 181 + k).shuffle(cand)
        cand = cand[:40 if ctx.quick() else 150]
        els = sorted(set(ei for ei, _ in cand))
        d2, err = run_harness(ctx, "fem", sol, ["b %d" % ei for ei in els] + xpv.commands(Q))
        if err or len(d2["res"]) != len(Q) or len(d2["nodal"]) != len(els):
            ctx.fail("h_smooth: the magnetics command sequence was not answered completely (%s)" % err, problem=p); continue
        fresh = {kk: v for kk, v in d2["nodal"]}
        for kk, v in fresh.items():
            if v != d["stored"][kk]:
                ctx.fail("fpproc: GetNodalB(element %d) returns %r now, OpenDocument stored %r" % (kk, v, d["stored"][kk]), problem=p); break
            stats["stored_vs_fresh"] += 1
        QQ = [(q, r) for q, r in zip(Q, d2["res"]) if r[0] >= 0]
        # point currents make GetNodalB fall back to the element value at that node: such corners are outside the modelled branch
        exprs.append(m_exprs(d, cand, [(r[0], q["x"], q["y"]) for q, r in QQ]))
        cases.append(("fem", p, d, d2, cand, [q for q, _ in QQ], [r for _, r in QQ]))
        evals += len(QQ) + len(cand)
        for q, r in QQ:
            distinct.add(("fem", k, q["x"], q["y"], r[0]))
        for c in cand:
            distinct.add(("fem", k, "corner") + c)
    t0 = time.time()
    model = vlib.coq_eval(HEADER, exprs, shard=4, timeout=1800, name="xsmooth") if exprs else []
    T["coq"] = time.time() - t0
    for (kind, p, d, d2, ks, Q, R), m in zip(cases, model):
        if kind == "fem":
            pts, avg = m
            bad = None
            for q, (kk, v), Bm in zip(Q, R, pts):
                for nm, a, b in zip(("B1.re", "B1.im", "B2.re", "B2.im"), v[2:6], Bm):
                    if not tally.cmp(a, b, "fpproc GetPointB " + nm) and not bad:
                        bad = "GetPointB %s of element %d at (%s, %s): implementation %r, model %r" % (nm, kk, hx(q["x"]), hx(q["y"]), a, float(b))
            pcur = d.get("J", [0, 0])[0] != 0
            for (ei, i), want in zip(ks, avg):
                s = d["stored"][ei]
                got = (s[2 * i], s[2 * i + 1], s[6 + 2 * i], s[7 + 2 * i])
                if pcur and any(vlib.ulp_diff(a, float(b)) > 64 for a, b in zip(got, want)):
                    # a point current at the node: element value (the tail of GetNodalB, not modelled)
                    e = d["elems"][ei]
                    if got == (e[7], e[8], e[9], e[10]):
                        stats["punts"] += 1
                        continue
                for nm, a, b in zip(("b1.re", "b1.im", "b2.re", "b2.im"), got, want):
                    if not tally.cmp(a, b, "fpproc GetNodalB " + nm) and not bad:
                        bad = "GetNodalB %s of corner %d of element %d: implementation %r, model %r" % (nm, i, ei, a, float(b))
            if bad:
                dis.append(dict(what="fpproc smoothing correspondence: " + bad, problem=p))
            continue
        nod, wk, pts, same = m
        tag = "epproc" if kind == "fee" else "hpproc"
        bad = None
        for kk, dm in zip(ks, nod):
            for i in range(3):
                for c, nm in ((0, "re"), (1, "im")):
                    if not tally.cmp(d["stored"][kk][2 * i + c], dm[i][c], "%s getNodalD d[%d].%s" % (tag, i, nm)) and not bad:
                        bad = "getNodalD d[%d].%s of element %d: implementation %r, model %r" % (i, nm, kk, d["stored"][kk][2 * i + c], float(dm[i][c]))
        wi = {(w["N"], w["i"]): w for w in d2["walk"]}
        for kk, wm in zip(ks, wk):
            for i in range(3):
                w = wi[(kk, i)]
                j, q, lf, rt, vc, vw = wm[i]
                walk_tot += 1
                if (j, list(q), lf, rt, list(vc), list(vw)) == (w["j"], w["q"], w["lf"], w["rt"], w["ccw"], w["cw"]):
                    walk_bit += 1
                elif not bad:
                    bad = ("walk around corner %d of element %d: implementation j=%d q=%r lf=%d rt=%d ccw=%r cw=%r, model j=%d q=%r lf=%d rt=%d ccw=%r cw=%r"
                           % (i, kk, w["j"], w["q"], w["lf"], w["rt"], w["ccw"], w["cw"], j, list(q), lf, rt, list(vc), list(vw)))
        if [[1 if x else 0 for x in row] for row in same] != d["same"] and not bad:
            bad = "isSameMaterialAs matrix: implementation %r, model %r" % (d["same"], same)
        if bad:
            dis.append(dict(what="%s smoothing correspondence: %s" % (tag, bad), problem=p))
        xpv.compare(tally, tag + " (smoothing on)", Q, R, pts, E_NAMES if kind == "fee" else H_NAMES, dis, p)
        for w in d2["walk"]:
            shallow = w["lf"] >= 0 and w["rt"] >= 0 and w["lf"] != w["rt"] and abs(w["ang"]) <= 10.0001 * math.pi / 180
            punt = d["nodes"][w["j"]][3] != -2 and not shallow
            stats["punts" if punt else "fits"] += 1
            if shallow:
                stats["fits_on_flat_boundary"] = stats.get("fits_on_flat_boundary", 0) + 1
    cov = ctx.res.cov
    cov["evaluations"] = evals
    cov["distinct_nontrivial"] = len(distinct)
    cov["rule"] = ("generated solved electrostatic and heat-flow problems (XPV's generator; the second material a copy of the first or the first "
                   "with one constant changed; exterior regions; conductors; T-k tables; all length units), opened by the real post-processor "
                   "classes with smoothing at its default (ON): getNodalD of every element (all three corners: nodal field, node list, boundary "
                   "neighbours, elements visited in both directions), isSameMaterialAs on all material pairs, and a shuffled seeded query sequence "
                   "(interior / bounding-box points located by the real InTriangle, centroids, nodes asked from the surrounding elements, nodes on "
                   "label borders asked from each side, points of shared edges from both elements) compared with the float reading of Smooth.v; "
                   "planar magnetics static / harmonic: GetPointB with smoothing on for a query sequence, GetNodalB at corners inside one label; "
                   "per problem a second solution file with an affine potential on the same mesh (exactness oracle); evaluations = point queries + "
                   "corners, non-trivial distinct = distinct (problem, point, element) and (problem, element, corner)")
    cov["input_distribution"] = feats
    cov["oracle_checks"] = stats
    cov["walks_compared"] = walk_tot
    cov["walks_identical"] = walk_bit
    cov["seconds"] = {k: round(v, 1) for k, v in T.items()}
    cov["samples"] = samples
    cov["observations"] = notes
    cov["heat_variant"] = ("getNodalD (heat flow) divides the nodal flux by AECF(elem,node)" if HEATFIX["value"] == "true"
                           else "getNodalD (heat flow) does not divide the nodal flux by the exterior-region factor (as shipped, finding XSMOOTH-1)")
    cov["values_compared"] = tally.tot
    cov["bit_identical"] = tally.bit
    cov["bit_identical_fraction"] = round(tally.bit / max(tally.tot, 1), 6)
    cov["worst_ulp"] = tally.worst
    cov["not_bit_identical"] = [dict(what=w, implementation=a, model=b, ulps=u) for (w, a, b, u) in tally.off]
    return dis
