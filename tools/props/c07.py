"""C07 — (anti)periodic boundaries pair the right nodes and the solution repeats.

Model: coq/theories/Pbc.v (FMesher::DoPeriodicBCTriangulation without the air-gap-element parts:
read-back of the first Triangle pass, spacing of boundary entities, validity checks, spacing
reconciliation, interleaved subdivision of the two partner segments / arcs, the point list, the
remaining entities, sortXY + pruning, the .pbc text); theorems PbcProofs.v / Properties_C07.v.
Translator (regen): coq/theories/gen/PbcSel.v = which BdryFormat values the three readers call
(anti)periodic (CBoundaryProp.cpp) and which ones DoPeriodicBCTriangulation selects; whether the
selection covers the readers is decided in Coq and both outcomes have their theorem.

Tie (correspond): generated periodic cells -> real `fmesher --write-poly`.  The model's inputs that
come out of Triangle (the .edge/.ele of the FIRST pass, which the real run overwrites) are taken
from the real fmesher too: a twin of the problem in which one more line carries the periodic
condition is rejected by the validity checks right after the first pass and leaves exactly those
files behind (same geometry, same spacings, same code path up to the checks).  The float reading
of the model must then reproduce the final PSLG (.poly: every point bit for bit, every segment) and
the .pbc file of the untouched problem.

Property oracle (independent of the model; geometry known to the generator): every listed pair is
a node of partner A and its image on partner B under the cell's rigid motion, every mesh node on A
is listed exactly once, flags carry the sign, no duplicates; the solver's potentials of listed
pairs are equal / opposite; invalid assignments are rejected.  Sanitizer runs of the mesher on the
same problems (memory errors in the pairing code)."""
import os, json, math, shutil, re
import vlib, femgen, meshlib
from props import c07_gen

# theorems about the renumbering model Renumber.v that belong to this property (its correspondence runs with C02: props/xcm.py)
EXTRA_PROPERTY_FILES = ["C07_renumber"]
LEVEL = "proof"
COQ_MODULES = ["gen/PbcSel", "Pbc"]
ASSUMPTIONS = [
    "Triangle is not modelled: the edges and elements of the first pass are inputs of the model (taken from a real fmesher run "
    "that stops after the first pass); that Triangle orients the boundary edges of the two partners consistently, and adds no "
    "vertex on them in the second pass (-Y), is covered per mesh by the geometric oracle, not proved",
    "cos/sin of the arc step angles, sin of the half arc angle, the integer results of ceil() (re-validated inside the model) "
    "and the '%.1e' round trip of a boundary arc's spacing are inputs computed with the same libm/libc",
    "the air-gap-element branch of DoPeriodicBCTriangulation is not modelled (no generated problem uses it)",
    "theorems are about the real-number reading; the repetition of the computed solution rests on C09's tie theorem "
    "(Periodicity/AntiPeriodicity) and is checked on the solvers' result files to 100*Precision*max|V|",
]
HEADER = ("From Coq Require Import ZArith List Floats String. Import ListNotations. "
          "From XF Require Import Arith Discretize Pbc. Local Open Scope string_scope.")
SOLVER = {"fem": ("fsolver", ".ans"), "fee": ("esolver", ".res"), "feh": ("hsolver", ".anh")}
SIG_D3 = "fmesher:periodic-arc:stale-index"
SIG_E1 = "fmesher:electrostatic-periodic:ignored"


# --------------------------------------------------------------------------- translator ----
def _cond_to_coq(cond, what):
    """C++ condition over BdryFormat / isPeriodic() -> Coq boolean expression over [k] and [fmt]"""
    c = re.sub(r"//[^\n]*", "", cond)
    c = re.sub(r"\s+", "", c)
    c = c.replace("problem->lineproplist[i]->", "")
    c = c.replace("isPeriodic()", "P")
    out, i = [], 0
    while i < len(c):
        m = re.match(r"BdryFormat(==|!=|<=|>=|<|>)(\d+)", c[i:])
        if m:
            op, n = m.group(1), m.group(2)
            out.append({"==": "(fmt =? %s)", "!=": "(negb (fmt =? %s))", "<": "(fmt <? %s)", "<=": "(fmt <=? %s)",
                        ">": "(%s <? fmt)", ">=": "(%s <=? fmt)"}[op] % n)
            i += len(m.group(0)); continue
        if c.startswith("||", i) or c.startswith("&&", i):
            out.append(" %s " % c[i:i + 2]); i += 2; continue
        if c[i] in "()":
            out.append(c[i]); i += 1; continue
        if c[i] == "P":
            out.append("(is_periodic k fmt || is_antiperiodic k fmt)"); i += 1; continue
        raise vlib.TranslateError("C07 translator: cannot translate %s: %r" % (what, cond.strip()[:200]))
    return "".join(out)


def regen(ctx):
    """coq/theories/gen/PbcSel.v: which BdryFormat values the three readers call periodic /
    antiperiodic (CBoundaryProp.cpp) and which ones DoPeriodicBCTriangulation selects (writepoly.cpp)"""
    bp = open(os.path.join(ctx.snap.src, "libfemm", "CBoundaryProp.cpp"), errors="replace").read().replace("\r", "")
    wp = open(os.path.join(ctx.snap.src, "fmesher", "writepoly.cpp"), errors="replace").read().replace("\r", "")
    defs = {}
    for cls, kind in (("CMBoundaryProp", "Magnetics"), ("CSBoundaryProp", "Electrostatics"), ("CHBoundaryProp", "HeatFlow")):
        m = re.search(r"bool\s+%s::isPeriodic\s*\(PeriodicityType pt\)\s*const\s*\{(.*?)\n\}" % cls, bp, re.S)
        if not m:
            raise vlib.TranslateError("C07 translator: %s::isPeriodic not found" % cls)
        body = m.group(1)
        for which in ("Periodic", "AntiPeriodic"):
            mm = re.search(r"if\s*\(pt==PeriodicityType::Any\s*\|\|\s*pt==PeriodicityType::%s\)\s*\{?\s*if\s*\(([^\n]*?)\)\s*\n" % which, body)
            if not mm:
                raise vlib.TranslateError("C07 translator: %s::isPeriodic: branch %s not recognised" % (cls, which))
            defs[(kind, which)] = _cond_to_coq(mm.group(1), "%s::isPeriodic/%s" % (cls, which))
    m = re.search(r"//\s*pbc\s*\n(\s*if\s*\(.*?)\n\s*\{", wp, re.S)
    if not m:
        raise vlib.TranslateError("C07 translator: the '// pbc' test of DoPeriodicBCTriangulation was not found")
    test = re.sub(r"\s+", "", re.sub(r"//[^\n]*", "", m.group(1)))
    if not (test.startswith("if(") and test.endswith(")")):
        raise vlib.TranslateError("C07 translator: the '// pbc' test has an unexpected shape: %r" % test[:200])
    sel = _cond_to_coq(test[3:-1], "the pbc selection test")
    anti = re.search(r"pbc\.antiPeriodic\s*=\s*problem->lineproplist\[i\]->isPeriodic\(CBoundaryProp::PeriodicityType::AntiPeriodic\);", wp)
    if not anti:
        raise vlib.TranslateError("C07 translator: 'pbc.antiPeriodic = ...isPeriodic(AntiPeriodic)' not found")
    kinds = ("Magnetics", "Electrostatics", "HeatFlow")
    txt = ("(* generated by tools/props/c07.py (regen) from cfemm/libfemm/CBoundaryProp.cpp and cfemm/fmesher/writepoly.cpp *)\n"
           "From Coq Require Import ZArith Bool.\nLocal Open Scope Z_scope.\n"
           "Inductive filekind := Magnetics | Electrostatics | HeatFlow.\n"
           "(* C{M,S,H}BoundaryProp::isPeriodic(PeriodicityType::Periodic) *)\n"
           "Definition is_periodic (k : filekind) (fmt : Z) : bool :=\n  match k with\n%s  end.\n"
           "(* ... isPeriodic(PeriodicityType::AntiPeriodic) *)\n"
           "Definition is_antiperiodic (k : filekind) (fmt : Z) : bool :=\n  match k with\n%s  end.\n"
           "(* the test under '// pbc' in FMesher::DoPeriodicBCTriangulation *)\n"
           "Definition pbc_selected (k : filekind) (fmt : Z) : bool :=\n  %s.\n"
           % ("".join("  | %s => %s\n" % (k, defs[(k, "Periodic")]) for k in kinds),
              "".join("  | %s => %s\n" % (k, defs[(k, "AntiPeriodic")]) for k in kinds), sel))
    vlib.write_if_changed(os.path.join(vlib.COQDIR, "theories", "gen", "PbcSel.v"), txt)
    ctx.pbc_selection = sel


# ------------------------------------------------------------------------------ running ----
def write_problem(ctx, name, p):
    d = os.path.join(ctx.work, name)
    shutil.rmtree(d, ignore_errors=True)
    os.makedirs(d)
    f = os.path.join(d, "p" + c07_gen.EXT[p["kind"]])
    femgen.write(p, f)
    return f


def run_mesher(snap, f, poly=True):
    cmd = [snap.tool("fmesher")] + (["--write-poly"] if poly else []) + [f]
    env = {"ASAN_OPTIONS": "detect_leaks=0:abort_on_error=0", "UBSAN_OPTIONS": "print_stacktrace=1"}
    return vlib.sh(cmd, timeout=300, env=env)


def read_pbc_strict(path):
    """the .pbc as the writer defines it: count, then `index n m t`, then the number of air gap elements"""
    L = open(path).read().split("\n")
    n = int(L[0].split()[0])
    P = []
    for k in range(n):
        t = L[1 + k].split()
        if len(t) != 4 or int(t[0]) != k:
            raise ValueError("line %d of the .pbc file is %r" % (k + 1, L[1 + k]))
        P.append((int(t[1]), int(t[2]), int(t[3])))
    if int(L[1 + n].split()[0]) != 0:
        raise ValueError("unexpected air gap elements in the .pbc file")
    return P


def read_solution(path, kind, harmonic):
    L = open(path).read().split("\n")
    i = next(k for k, l in enumerate(L) if l.strip().lower() == "[solution]") + 1
    nn = int(L[i].split()[0]); i += 1
    out = []
    for k in range(nn):
        t = L[i + k].split()
        v = complex(float(t[2]), float(t[3])) if (kind == "fem" and harmonic) else float(t[2])
        out.append((float(t[0]), float(t[1]), v))
    return out


# ------------------------------------------------------------------------- the oracle ----
def motion_fn(m):
    if m[0] == "trans":
        return lambda x, y: (x + m[1], y + m[2])
    cx, cy, th = m[1], m[2], math.radians(m[3])
    c, s = math.cos(th), math.sin(th)
    return lambda x, y: (cx + (x - cx) * c - (y - cy) * s, cy + (x - cx) * s + (y - cy) * c)


def entity_geometry(p, ent):
    pts = p["points"]
    if ent[0] == "seg":
        s = p["segments"][ent[1]]
        return ("seg", (pts[s["n0"]]["x"], pts[s["n0"]]["y"]), (pts[s["n1"]]["x"], pts[s["n1"]]["y"]))
    a = p["arcs"][ent[1]]
    P0 = (pts[a["n0"]]["x"], pts[a["n0"]]["y"]); P1 = (pts[a["n1"]]["x"], pts[a["n1"]]["y"])
    c, R = c07_gen.arc_point(P0, P1, a["angle"])
    return ("arc", P0, P1, c, R, a["angle"])


def on_entity(g, x, y, tol):
    if g[0] == "seg":
        (x0, y0), (x1, y1) = g[1], g[2]
        L = math.hypot(x1 - x0, y1 - y0)
        t = ((x - x0) * (x1 - x0) + (y - y0) * (y1 - y0)) / L
        d = abs((x - x0) * (y1 - y0) - (y - y0) * (x1 - x0)) / L
        return d <= tol and -tol <= t <= L + tol
    _, P0, P1, (cx, cy), R, ang = g
    if abs(math.hypot(x - cx, y - cy) - R) > tol:
        return False
    a0 = math.atan2(P0[1] - cy, P0[0] - cx)
    a = (math.atan2(y - cy, x - cx) - a0) % (2 * math.pi)
    if a > 2 * math.pi - tol / R:
        a -= 2 * math.pi
    return -tol / R <= a <= math.radians(ang) + tol / R


def pair_oracle(p, X, pbc):
    """X: mesh nodes, pbc: [(n, m, t)] -> message or None"""
    tol = 1e-9 * p["cell"]
    seen = set()
    for (n, m, t) in pbc:
        if not (0 <= n < len(X) and 0 <= m < len(X)):
            return "pair (%d,%d) refers to a node that does not exist (%d nodes)" % (n, m, len(X))
        key = (min(n, m), max(n, m))
        if key in seen:
            return "pair (%d,%d) is listed twice" % key
        seen.add(key)
    explained = set()
    for info in p["pbc_info"]:
        M = motion_fn(info["motion"])
        gA = entity_geometry(p, info["A"]); gB = entity_geometry(p, info["B"])
        want_t = 1 if info["anti"] else 0
        onA = [i for i, (x, y) in enumerate(X) if on_entity(gA, x, y, tol)]
        onB = [i for i, (x, y) in enumerate(X) if on_entity(gB, x, y, tol)]
        if len(onA) < 2:
            return "no mesh nodes found on partner A of condition %d" % info["bc"]
        if len(onA) != len(onB):
            return "partner sides of condition %d are subdivided differently: %d and %d mesh nodes" % (info["bc"], len(onA), len(onB))
        for u in onA:
            ix, iy = M(*X[u])
            img = [v for v in onB if math.hypot(X[v][0] - ix, X[v][1] - iy) <= tol]
            if len(img) != 1:
                return "mesh node %d %r on partner A of condition %d has %d image nodes on partner B" % (u, X[u], info["bc"], len(img))
            v = img[0]
            hits = [k for k, (n, m, t) in enumerate(pbc) if (n, m) in ((u, v), (v, u))]
            if len(hits) != 1:
                return "mesh node %d on partner A of condition %d and its image %d are listed %d times" % (u, info["bc"], v, len(hits))
            if pbc[hits[0]][2] != want_t:
                return "pair (%d,%d) carries flag %d, the condition's sign is %d" % (u, v, pbc[hits[0]][2], want_t)
            # u must not be tied to anything else by this condition: other pairs containing u must be
            # explained by another condition (shared corners)
            explained.add(hits[0])
    for k, (n, m, t) in enumerate(pbc):
        if k not in explained:
            return "listed pair (%d,%d) %r / %r is not a node of a partner side with its image" % (n, m, X[n], X[m])
    return None


def solution_oracle(p, X, pbc, sol):
    """sol: [(x, y, V)] in the solver's numbering; matched to mesh nodes by position"""
    if len(sol) != len(X):
        return "solution has %d nodes, the mesh %d" % (len(sol), len(X))
    tol = 1e-7 * p["cell"]
    grid = {}
    for i, (x, y, v) in enumerate(sol):
        grid.setdefault((round(x / tol / 4), round(y / tol / 4)), []).append(i)

    def find(x, y):
        kx, ky = round(x / tol / 4), round(y / tol / 4)
        best = None
        for dx in (-1, 0, 1):
            for dy in (-1, 0, 1):
                for i in grid.get((kx + dx, ky + dy), []):
                    d = math.hypot(sol[i][0] - x, sol[i][1] - y)
                    if d <= tol and (best is None or d < best[0]):
                        best = (d, i)
        return None if best is None else best[1]
    vmax = max(abs(v) for (_, _, v) in sol)
    if not (vmax == vmax) or math.isinf(vmax):
        return "non-finite potentials in the solution"
    if vmax == 0:
        return "the solution is identically zero (the generated problem has a source)"
    bound = 100 * p.get("precision", 1e-8) * vmax
    for (n, m, t) in pbc:
        i, j = find(*X[n]), find(*X[m])
        if i is None or j is None:
            return "mesh node of pair (%d,%d) not found in the solution file" % (n, m)
        s = -1 if t else 1
        if abs(sol[j][2] - s * sol[i][2]) > bound:
            return "pair (%d,%d) flag %d: potentials %r and %r (max |V| = %.6g, bound %.3g)" % (n, m, t, sol[i][2], sol[j][2], vmax, bound)
    return None


def is_fee_periodic(p):
    """an electrostatics problem whose (anti)periodic conditions are of the PERIODIC kind (BdryType 3)"""
    return p["kind"] == "fee" and any(b.get("type") == 3 for b in p["bdryprops"])


def signature(msg, p, out=""):
    """stable strings (matched against known_findings.json)"""
    crash = "AddressSanitizer" in out or "runtime error" in out or "rc=-11" in msg or "rc=-6" in msg
    arcs = any(i["A"][0] == "arc" for i in p.get("pbc_info", [])) or p.get("invalid") in ("three-arcs", "unequal-arcs")
    if crash and p["kind"] != "fem" and arcs:
        return SIG_D3
    if crash:
        return "fmesher:periodic:memory-error"
    if is_fee_periodic(p) and any(w in msg for w in ("listed 0 pairs", "pair list:", "was meshed", "not rejected")):
        return SIG_E1
    if p.get("invalid"):
        return "fmesher:invalid-pbc:" + p["invalid"]
    return "c07:" + re.sub(r"[-+]?\d+(\.\d+)?(e[-+]?\d+)?", "#", msg)[:60]


def run_valid(ctx, name, p, snap=None, solve=True):
    """mesh (real fmesher), oracle on the pairs, solve (real solver), oracle on the potentials.
    returns (record or None, message or None, tool output)"""
    snap = snap or ctx.snap
    f = write_problem(ctx, name, p)
    rc, out, err = run_mesher(snap, f)
    base = f[:-4]
    if rc != 0 or not os.path.exists(base + ".pbc") or not os.path.exists(base + ".ele"):
        return None, "fmesher failed on a well-formed periodic problem (rc=%d): %s" % (rc, (out + err)[-400:].replace("\n", " | ")), out + err
    try:
        pbc = read_pbc_strict(base + ".pbc")
        d = meshlib.load_mesh(base)
    except Exception as e:
        return None, "mesher output unreadable: %r" % (e,), out + err
    rec = dict(pbc=pbc, mesh=d, base=base, pbc_text=open(base + ".pbc").read())
    if len(pbc) == 0:
        return rec, "the mesher listed 0 pairs for a problem with %d (anti)periodic condition(s) applied to two congruent entities" % len(p["pbc_info"]), out + err
    msg = pair_oracle(p, d["X"], pbc)
    if msg:
        return rec, "pair list: " + msg, out + err
    if solve:
        tool, ext = SOLVER[p["kind"]]
        rc, o2, e2 = vlib.sh([snap.tool(tool), base], timeout=600, cwd=os.path.dirname(f))
        if rc != 0 or not os.path.exists(base + ext):
            return rec, "%s failed on a meshed periodic problem (rc=%d): %s" % (tool, rc, (o2 + e2)[-300:].replace("\n", " | ")), o2 + e2
        try:
            sol = read_solution(base + ext, p["kind"], bool(p.get("frequency", 0)))
        except Exception as e:
            return rec, "solution file unreadable: %r" % (e,), ""
        rec["sol"] = sol
        msg = solution_oracle(p, d["X"], pbc, sol)
        if msg:
            return rec, "solution: " + msg, ""
    return rec, None, out + err


def run_invalid(ctx, name, p, snap=None):
    snap = snap or ctx.snap
    f = write_problem(ctx, name, p)
    rc, out, err = run_mesher(snap, f, poly=False)
    base = f[:-4]
    txt = out + err
    if "AddressSanitizer" in txt or "runtime error" in txt or rc < 0:
        return "fmesher crashed on an invalid (anti)periodic assignment (rc=%d): %s" % (rc, txt[-300:].replace("\n", " | "))
    if rc == 0:
        return "invalid (anti)periodic assignment '%s' was meshed (exit status 0)" % p["invalid"]
    if os.path.exists(base + ".pbc"):
        return "invalid (anti)periodic assignment '%s': exit status %d but a .pbc file was written" % (p["invalid"], rc)
    want = {"three-lines": "more than two segments", "three-arcs": "more than two arcs", "line-and-arc": "mix arcs and segments",
            "unequal-lines": "dissimilar segments", "unequal-arcs": "dissimilar arc segments"}[p["invalid"]]
    if want not in txt:
        return "invalid (anti)periodic assignment '%s' rejected without the expected message (%r): %s" % (p["invalid"], want, txt[-200:])
    return None


# ------------------------------------------------------- model inputs / correspondence ----
KIND = {"fem": "Magnetics", "fee": "Electrostatics", "feh": "HeatFlow"}
ERRS = {1: "more than two segments", 2: "more than two arcs", 3: "mix arcs and segments", 4: "dissimilar segments",
        5: "dissimilar arc segments", 6: "<model rejected its inputs>"}


def cabs(re, im):
    """abs(CComplex) of femmcomplex.cpp"""
    if re == 0 and im == 0:
        return 0.0
    if abs(re) > abs(im):
        return abs(re) * math.sqrt(1.0 + (im / re) * (im / re))
    return abs(im) * math.sqrt(1.0 + (re / im) * (re / im))


def first_pass(ctx, name, p):
    """edges (n0, n1, marker) and elements of the FIRST Triangle pass of p: from the run of a twin
    problem that fmesher rejects right after that pass (for an invalid problem: the problem itself)."""
    q = p if p.get("invalid") else c07_gen.first_pass_twin(p)
    if q is None:
        return None, "no line without a periodic condition to build the first-pass twin"
    f = write_problem(ctx, name, q)
    rc, out, err = run_mesher(ctx.snap, f, poly=False)
    base = f[:-4]
    if rc == 0 or os.path.exists(base + ".pbc"):
        return None, "twin problem (one more line with the periodic condition) was not rejected (rc=%d)" % rc
    if not (os.path.exists(base + ".edge") and os.path.exists(base + ".ele")):
        return None, "rejected run left no first-pass mesh files (rc=%d): %s" % (rc, (out + err)[-200:])
    return dict(E=meshlib.read_edge(base + ".edge"), T=meshlib.read_ele(base + ".ele")[0], out=out + err), None


def coq_inputs(p, fp, stage2=None):
    """Coq argument text `kind bdry orig lines arcs edges eles` for pbc_stage1 / pbc_mesh.
    stage2 = (wls, was, pl) of stage 1: fills the ceil / cos / sin inputs from the spacings in force."""
    f = vlib.fhexs
    pts = [(q["x"], q["y"]) for q in p["points"]]
    nl = len(p["segments"])
    lines_parts = [0] * nl
    arcs_parts = [0] * len(p["arcs"])
    arcs_k = list(arcs_parts)
    if stage2:
        pl, wls, was = stage2
        for i, (n0, n1, ms) in enumerate(wls):
            L = cabs(pts[n0][0] - pts[n1][0], pts[n0][1] - pts[n1][1])
            lines_parts[i] = 1 if ms == -1 else int(math.ceil(L / ms))
        for i, (ms, nd) in enumerate(was):
            arcs_parts[i] = int(math.ceil(float(p["arcs"][i]["angle"]) / ms))
        arcs_k = list(arcs_parts)
        for (bc, anti, nseg, narc, s0, s1) in pl:
            if nseg == 0:
                arcs_k[s1] = arcs_parts[s0]          # the second partner is stepped with the k of the first
    cnt = {}
    for (u, v, m) in fp["E"]:
        if m != 0:
            cnt[-(m + 2)] = cnt.get(-(m + 2), 0) + 1
    ls = []
    for i, s in enumerate(p["segments"]):
        b = s.get("bdry", 0)
        ls.append("mkPLine %d %d %s %s %d" % (s["n0"], s["n1"], f(float(s.get("maxside", -1))),
                                              "(Some %d)" % (b - 1) if b > 0 else "None", lines_parts[i]))
    ars = []
    for i, a in enumerate(p["arcs"]):
        al, ms = float(a["angle"]), float(a.get("maxseg", 10))
        c = cnt.get(nl + i, 0)
        maxr = float("%.1e" % (al / c)) if c else 0.0           # sprintf(kludge,"%.1e",..); sscanf(kludge,"%lf",..)
        k = arcs_k[i]
        step = al * math.pi / (float(k) * 180.0) if k else 0.0
        b = a.get("bdry", 0)
        ars.append("mkPArc %d %d %s %s %s %s %d %s %s %s" % (
            a["n0"], a["n1"], f(al), f(ms), "(Some %d)" % (b - 1) if b > 0 else "None", f(maxr), arcs_parts[i],
            f(math.sin(al * math.pi / 180.0 / 2.0)), f(math.cos(step)), f(math.sin(step))))
    zc = meshlib.zc
    return "%s [%s]%%Z [%s] [%s] [%s] [%s]%%Z [%s]%%Z" % (
        KIND[p["kind"]], "; ".join(zc(b.get("type", 0)) for b in p["bdryprops"]),
        "; ".join("(%s, %s)" % (f(x), f(y)) for (x, y) in pts), "; ".join(ls), "; ".join(ars),
        "; ".join("(%d, %d, %s)" % (u, v, zc(m)) for (u, v, m) in fp["E"]),
        "; ".join("(%d, %d, %d)" % t for t in fp["T"]))


def model_run(cases):
    """cases: list of (p, fp).  Two coqc rounds: spacings after the validity pass, then the whole
    model with the ceil/cos/sin inputs computed from those spacings.  Returns list of views
    (code, nodes, segs, pts, text)."""
    e1 = ["pbc_stage1 FA %s" % coq_inputs(p, fp) for (p, fp) in cases]
    r1 = vlib.coq_eval(HEADER, e1, shard=8, timeout=1800) if e1 else []
    e2, idx = [], []
    out = [None] * len(cases)
    for k, ((p, fp), v) in enumerate(zip(cases, r1)):
        code, (pl, wls, was) = v[0], v[1]
        if code != 0:
            out[k] = (int(code), [], [], [], "")
            continue
        st2 = ([tuple(e) for e in pl], [(int(a), int(b), float(c)) for (a, b, c) in wls], [(float(a), b) for (a, b) in was])
        smart = "true" if p.get("dosmartmesh", 1) else "false"
        args = coq_inputs(p, fp, st2)
        kind, rest = args.split(" ", 1)
        e2.append("presult_view (pbc_mesh FA %s %s %s)" % (kind, smart, rest))
        idx.append(k)
    r2 = vlib.coq_eval(HEADER, e2, shard=8, timeout=1800) if e2 else []
    for k, v in zip(idx, r2):
        code, (nodes, segs, pts, text) = v[0], v[1]
        out[k] = (int(code), nodes, segs, pts, text)
    return out


def compare_model(p, rec, view, stats):
    """model view vs. the real .poly / .pbc; returns message or None"""
    code, nodes, segs, pts, text = view
    if code != 0:
        return "model rejects the problem (%s), fmesher meshed it" % ERRS.get(code, code)
    poly = rec["mesh"]["poly"]
    if len(nodes) != len(poly["points"]):
        return "PSLG has %d points, model %d" % (len(poly["points"]), len(nodes))
    for i, ((x, y), (mx, my)) in enumerate(zip(poly["points"], nodes)):
        for a, b in ((x, mx), (y, my)):
            stats["tot"] += 1
            if vlib.ulp_diff(a, float(b)) == 0:
                stats["nb"] += 1
            elif not vlib.close(a, float(b), 4, 1e-300):
                return "PSLG point %d: implementation %r, model %r" % (i, (x, y), (mx, my))
    ms = [(int(a), int(b)) for (a, b) in segs]
    ps = [(u, v) for (u, v, m) in poly["segs"]]
    if ms != ps:
        return "PSLG segments differ: first difference %r" % (next(((i, x, y) for i, (x, y) in enumerate(zip(ps, ms)) if x != y), (len(ps), len(ms))),)
    mp = [(int(a), int(b), int(c)) for (a, b, c) in pts]
    if mp != rec["pbc"]:
        return "pair list differs: implementation %r..., model %r..." % (rec["pbc"][:6], mp[:6])
    if text != rec["pbc_text"]:
        return ".pbc text differs from the model's rendering"
    stats["pairs"] += len(mp)
    return None


# ------------------------------------------------------------------------ check driver ----
def sanitizer_runs(ctx, problems, feats):
    """the same problems through the ASan+UBSan build of the mesher (pairing code only runs there)"""
    try:
        san = vlib.snapshot("san")
    except vlib.BuildError as e:
        ctx.res.notes.append("sanitizer build failed: %s" % str(e)[-300:])
        return 0
    n = 0
    for k, p in enumerate(problems):
        f = write_problem(ctx, "s%d" % k, p)
        rc, out, err = run_mesher(san, f, poly=False)
        n += 1
        txt = out + err
        if "AddressSanitizer" in txt or "runtime error:" in txt or rc < 0:
            m = re.search(r"ERROR: AddressSanitizer: ([\w-]+)", txt)
            kind = "AddressSanitizer: " + m.group(1) if m else None
            if not kind:
                m = re.search(r"runtime error: ([^\n]*)", txt)
                kind = "UBSan: " + m.group(1)[:80] if m else "killed by signal %d" % (-rc)
            where = re.search(r"#\d+ 0x[0-9a-f]+ in (\S+?)\(.*?/cfemm/(\S+\.cpp:\d+)", txt)
            msg = "sanitizer report from fmesher on a%s (anti)periodic problem: %s%s" % (
                "n invalid" if p.get("invalid") else " well-formed", kind,
                " in %s at %s" % (where.group(1).split("::")[-1], where.group(2)) if where else "")
            ctx.fail(msg, problem=p, signature=signature(msg, p, txt), flavour="san")
        feats["sanitizer-run"] = feats.get("sanitizer-run", 0) + 1
    return n


def replay(ctx):
    r = ctx.replay.get("replay", ctx.replay)
    p = r["problem"]
    for i in p.get("pbc_info", []):
        i["A"] = tuple(i["A"]); i["B"] = tuple(i["B"]); i["motion"] = tuple(i["motion"])
    if r.get("flavour") == "san":
        return sanitizer_runs(ctx, [p], {})
    if p.get("invalid"):
        msg = run_invalid(ctx, "r", p)
        out = ""
    else:
        rec, msg, out = run_valid(ctx, "r", p)
    if msg:
        ctx.fail(msg, problem=p, signature=signature(msg, p, out))
    return 1


def correspond(ctx):
    cov = ctx.res.cov
    if ctx.replay:
        cov["evaluations"] = replay(ctx)
        cov["rule"] = "replay of one recorded problem"
        cov["samples"] = [ctx.replay.get("what", "")]
        return []
    rng = ctx.rng
    quick = ctx.quick()
    nvalid = 24 if quick else 144
    model_limit = 2500 if quick else 12000          # first-pass elements handed to coqc
    feats, cases, dis = {}, [], []
    problems = []
    nev = 0
    for k in range(nvalid):
        p = c07_gen.gen_valid(rng, k, quick)
        problems.append(p)
        for ft in p["features"]:
            feats[ft.split(":")[0] if ft.startswith(("spacing", "maxseg")) else ft] = feats.get(ft.split(":")[0] if ft.startswith(("spacing", "maxseg")) else ft, 0) + 1
        rec, msg, out = run_valid(ctx, "v%d" % k, p)
        nev += 1
        if msg:
            ctx.fail(msg, problem=p, signature=signature(msg, p, out))
        if rec is None or not rec["pbc"]:
            continue
        fp, m2 = first_pass(ctx, "t%d" % k, p)
        if m2:
            ctx.fail("first pass: " + m2, problem=c07_gen.first_pass_twin(p), signature=signature(m2, p))
            continue
        cases.append((p, rec, fp))
    # invalid assignments: must be rejected; the model must give the same verdict
    inv = []
    for rep in range(1 if quick else 3):
        for k, how in enumerate(c07_gen.INVALID):
            for kind in c07_gen.KINDS:
                for anti in ((False, True) if kind == "fee" else ((k + rep) % 2 == 1,)):
                    p = c07_gen.fam_invalid(rng, kind, anti, how)
                    for ft in p["features"]:
                        feats[ft] = feats.get(ft, 0) + 1
                    msg = run_invalid(ctx, "i%d" % len(inv), p)
                    nev += 1
                    if msg:
                        ctx.fail(msg, problem=p, signature=signature(msg, p, msg))
                        continue
                    fp, m2 = first_pass(ctx, "i%d" % len(inv), p)
                    inv.append((p, fp))
    # the model on the same inputs
    small = [(p, rec, fp) for (p, rec, fp) in cases if len(fp["T"]) <= model_limit]
    views = model_run([(p, fp) for (p, rec, fp) in small] + [(p, fp) for (p, fp) in inv if fp])
    stats = dict(tot=0, nb=0, pairs=0)
    for (p, rec, fp), v in zip(small, views):
        bad = compare_model(p, rec, v, stats)
        if bad:
            dis.append(dict(what="Pbc correspondence: " + bad, problem=p))
    for (p, fp), v in zip([(p, fp) for (p, fp) in inv if fp], views[len(small):]):
        code = v[0]
        if code == 0 or ERRS[code] not in fp["out"]:
            dis.append(dict(what="Pbc correspondence: fmesher rejects with %r, the model's verdict is %r" % (
                fp["out"].strip().split("\n")[-1][:120], ERRS.get(code, "accepted")), problem=p))
    # sanitizer flavour: every problem with partner arcs in the non-magnetics files, plus a sample
    sanp = [p for p in problems if p["kind"] != "fem" and p["pbc_info"][0]["A"][0] == "arc"]
    sanp = sanp[:4 if quick else 24] + [p for k, p in enumerate(problems) if k % (6 if quick else 4) == 0 and p not in sanp]
    sanp += [p for k, (p, fp) in enumerate(inv) if k % (4 if quick else 2) == 0]
    nev += sanitizer_runs(ctx, sanp, feats)
    cov["evaluations"] = nev
    cov["distinct_nontrivial"] = len(set(json.dumps(c[0], sort_keys=True, default=str) for c in cases))
    cov["rule"] = ("seeded (anti)periodic cells: translational rectangles (one pair / both pairs sharing the corners / sides split "
                   "into collinear pieces with their own conditions), rotational sectors (apex node paired with itself, annular), "
                   "partner arcs (translated, rotated), unequal spacings on the partners, .fem (static and 50 Hz) / .fee / .feh, smart "
                   "mesh on/off; each meshed by the real fmesher, checked by the geometric pair oracle, solved by the real solver "
                   "(V_m = +-V_n to 100*Precision*max|V|), and compared with the float reading of Pbc.v (PSLG bit for bit, pair list, "
                   ".pbc text); invalid assignments (3 lines, 3 arcs, line+arc, unequal lines, unequal arcs) must be rejected with the "
                   "model's verdict; a sample re-run under ASan+UBSan.  non-trivial = meshed with a non-empty pair list and first-pass "
                   "data recovered, distinct = distinct problem description")
    cov["input_distribution"] = feats
    cov["samples"] = [dict(features=c[0]["features"], pairs=len(c[1]["pbc"]), nodes=len(c[1]["mesh"]["X"]),
                           first_pass_elements=len(c[2]["T"])) for c in cases[:4]]
    sel = vlib.coq_eval(HEADER, ["selection_matches_readers"])[0]
    cov["selection_matches_readers"] = bool(sel)
    cov["pbc_selection_test"] = getattr(ctx, "pbc_selection", "?")
    ctx.res.notes.append("theorem in force: " + ("C07_selection_complete (every (anti)periodic condition kind of the three readers is selected)"
                                                  if sel else "C07_unselected_periodic_pairs_refuted (a condition kind that a reader calls "
                                                  "(anti)periodic is not selected by DoPeriodicBCTriangulation: no pairs, no rejection)"))
    cov["model_compared"] = len(small)
    cov["invalid_compared"] = len([1 for (p, fp) in inv if fp])
    cov["values_compared"] = stats["tot"]
    cov["bit_identical"] = stats["nb"]
    cov["pairs_compared"] = stats["pairs"]
    cov["mesh_sizes"] = [len(c[1]["mesh"]["X"]) for c in cases]
    return dis


def search(ctx, broken):
    """a proof or the correspondence broke: look for a problem on which the PROPERTY fails"""
    if ctx.failing_inputs:
        return []
    found = []
    rng = vlib.Rng(ctx.seed + 7)
    for k in range(48):
        p = c07_gen.gen_valid(rng, k, True)
        rec, msg, out = run_valid(ctx, "x%d" % k, p)
        if msg:
            found.append(dict(what=msg, problem=p, signature=signature(msg, p, out)))
            break
    if not found:
        for how in c07_gen.INVALID:
            for kind in c07_gen.KINDS:
                p = c07_gen.fam_invalid(rng, kind, True, how)
                msg = run_invalid(ctx, "y", p)
                if msg:
                    found.append(dict(what=msg, problem=p, signature=signature(msg, p, msg)))
                    return found
    return found
