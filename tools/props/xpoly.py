"""xpoly — extension serving C02 / C18 / C01: everything fmesher hands to Triangle on the NON-periodic path and what it does
with Triangle's answer.  Model: coq/theories/PolyWrite.v (on top of Discretize.v and Marker.v); proofs PolyWriteProofs.v;
theorems Properties_C02_poly.v.

Correspondence: the REAL FMesher::DoNonPeriodicBCTriangulation is run by harness/h_polywrite.cpp (writepoly.cpp compiled into
the harness, the real readers of libfemm) with Triangle replaced by a stub that dumps the switch string and the complete
in-memory triangulateio input it receives (points, point markers, segments, segment markers, holes, regions) and answers with
output tables chosen here.  The dump is compared token by token (floats bit for bit) with `poly_input FA ...` evaluated by
vm_compute; the .poly file written next to it (the file `fmesher --write-poly` writes) must say the same, and for a subset of
the cases the stand-alone `fmesher --write-poly` binary must write the very same .poly.  The switch string (verbose on and
off) is compared with `nonperiodic_switches`, the %f text of the angle with the model's min(MinAngle+3, 33.8).  The .node /
.edge / .ele files written from the stub's tables are compared token by token with `node_file / edge_file / ele_file`.
Inputs: geomgen's non-periodic families for all three physics with conductors on points / lines / arcs, point properties,
hidden segments, no-mesh labels (as [NumHoles] entries and as labels of block 0), default labels, smart mesh on/off,
ForceMaxMesh on/off, mesh sizes (given, 0, negative, tiny, huge), minimum angles below and above the cap; hand-made drawings
(label of type no-mesh listed before meshed labels, two labels in one region, hidden segment with boundary and conductor,
duplicate property names, a property called "<None>", no labels, no points, Triangle failing).
Oracles on the implementation alone: c02's entity-ownership oracle on the dumped PSLG, holes = positions of the no-mesh labels,
one region per meshed label with attribute rank+1 and a constraint no larger than pi d^2/4."""
import os, sys, re, json, math, shutil
from fractions import Fraction
sys.path.insert(0, os.path.dirname(os.path.dirname(os.path.abspath(__file__))))
import vlib, femgen, geomgen, meshlib, translate_markers

LEVEL = "proof"
COQ_MODULES = ["PolyWrite"]
ASSUMPTIONS = [
    "modelled (PolyWrite.v): FMesher::DoNonPeriodicBCTriangulation after the subdivision (Discretize.v, reused unchanged): node markers "
    "(initPointsWithMarkers: name matching against nodeproplist / circproplist, last match / every match), segment markers "
    "(initSegmentsWithMarkers; each sub-segment is a clone of its drawn line / arc, identified in the model by Discretize's cnt), hole "
    "list, region list (attribute = rank among the meshed labels + 1, area constraint from MaxArea / default / ForceMaxMesh), "
    "defaultMeshSizeHeuristics, the mesh size -> MaxArea conversion of the three label parsers, updateLabelsFromIndex (index -> name), "
    "the switch string as tokens, writeTriangulationFiles (built-in Triangle branch) as token tables, the return value",
    "not modelled: Triangle itself (replaced by a stub in the correspondence; C01's validator covers its output), the text lexing of the "
    "problem file (the model starts from the numbers the reader stores; out-of-range property indices are outside the model: the reader "
    "indexes its vectors without a check), fopen / malloc failures, the DEBUG messages, the periodic path (Pbc.v)",
    "the %f text of the minimum angle (std::to_string) is an input of the model; the run checks it equals the %f rendering of the model's "
    "min(MinAngle+3, 33.8); libm values and ceil() results enter Discretize.v as in C18",
    "marker arithmetic is C `int`: modelled in Z with a two's-complement wrap at the store as in Marker.v (beyond 2^31 it is undefined "
    "behaviour in C++); the theorem that the constraint is at most pi d^2/4 is about the real-number reading (binary64 rounding of "
    "d*(PI*d/4) can exceed it by a few units in the last place)",
    "numberofcorners >= 1 in writeTriangulationFiles (the element loop does not terminate for 0; Triangle gives 3)",
]
HEADER = ("From Coq Require Import ZArith List Floats String. Import ListNotations. "
          "From XF Require Import Arith Marker Discretize PolyWrite.")
EXT = {"fee": ".fee", "feh": ".feh", "fem": ".fem"}

ANCHORS = [
    ("fmesher/writepoly.cpp", "for (const auto &node : problem->nodelist) nodelst.push_back(node->clone());"),
    ("fmesher/writepoly.cpp", "discretizeInputSegments(*problem, nodelst, linelst, dL); discretizeInputArcSegments(*problem, nodelst, linelst);"),
    ("fmesher/writepoly.cpp", "double DefaultMeshSize = defaultMeshSizeHeuristics(nodelst, problem->DoSmartMesh);"),
    ("fmesher/writepoly.cpp", "CSegment segm = line;"),
    ("fmesher/writepoly.cpp", "CSegment segm = arc;"),
    ("fmesher/writepoly.cpp", "segm.cnt = i;"),
    ("fmesher/writepoly.cpp", "segm.cnt=i+problem.linelist.size();"),
    ("fmesher/writepoly.cpp", "fprintf(fp,\"0\\n0\\n\");"),
    ("fmesher/writepoly.cpp", "if (!triHelper.initPointsWithMarkers(nodelst,*problem, PointMarkerInfo::FromProblem)) return -1; "
                              "if (!triHelper.initSegmentsWithMarkers(linelst,*problem,SegmentMarkerInfo::FromProblem)) return -1; "
                              "if (!triHelper.initHolesAndRegions(*problem, problem->DoForceMaxMeshArea, DefaultMeshSize)) return -1; "
                              "triHelper.setMinAngle(std::min(problem->MinAngle+MINANGLE_BUMP,MINANGLE_MAX)); triHelper.suppressUnusedVertices();"),
    ("fmesher/writepoly.cpp", "int tristatus = triHelper.triangulate(Verbose); if (tristatus != 0) return tristatus; "
                              "if (!triHelper.writeTriangulationFiles(PathName)) return -1;"),
    # defaultMeshSizeHeuristics
    ("fmesher/writepoly.cpp", "if (nodelst.empty()) return -1;"),
    ("fmesher/writepoly.cpp", "if (node->x < min.re) min.re = node->x; if (node->y < min.im) min.im = node->y; "
                              "if (node->x > max.re) max.re = node->x; if (node->y > max.im) max.im = node->y;"),
    ("fmesher/writepoly.cpp", "if (doSmartMesh) { double absdist = abs(max-min)/BoundingBoxFraction; return absdist * absdist; } else { return abs(max-min); }"),
    ("fmesher/writepoly.cpp", "#define BoundingBoxFraction 100.0"),
    # markers
    ("fmesher/writepoly.cpp", "in.pointlist[2*i] = nodelst[i]->x; in.pointlist[2*i+1] = nodelst[i]->y;"),
    ("fmesher/writepoly.cpp", "int t=0; if (info==PointMarkerInfo::FromProblem) { for(int j=0; j<(int)problem.nodeproplist.size(); j++) "
                              "if(problem.nodeproplist[j]->PointName==nodelst[i]->BoundaryMarkerName) t = j + 2; "
                              "if (problem.filetype != femm::FileType::MagneticsFile) { for(int j = 0; j < (int)problem.circproplist.size(); j++) { "
                              "if(problem.circproplist[j]->CircName == nodelst[i]->InConductorName) t += ((j+1) * 0x10000); } } } "
                              "in.pointmarkerlist[i] = t;"),
    ("fmesher/writepoly.cpp", "in.segmentlist[2*i] = linelst[i]->n0; in.segmentlist[2*i+1] = linelst[i]->n1;"),
    ("fmesher/writepoly.cpp", "int t=0; if (info==SegmentMarkerInfo::FromProblem) { for(int j=0; j <(int)problem.lineproplist.size(); j++) { "
                              "if (problem.lineproplist[j]->BdryName == linelst[i]->BoundaryMarkerName) { t = -(j+2); } } "
                              "if (problem.filetype != femm::FileType::MagneticsFile) { for (int j=0; j <(int)problem.circproplist.size(); j++) { "
                              "if (problem.circproplist[j]->CircName == linelst[i]->InConductorName) { t -= ((j+1) * 0x10000); } } } }"),
    # holes and regions
    ("fmesher/writepoly.cpp", "in.numberofholes = problem.countHoles();"),
    ("fmesher/writepoly.cpp", "int k=0; for(const auto &label: problem.labellist) { if(label->isHole()) {"),
    ("fmesher/writepoly.cpp", "in.holelist[k++] = label->x; in.holelist[k++] = label->y; } } }"),
    ("fmesher/writepoly.cpp", "int j=0; int k=0; for(const auto & label: problem.labellist) { if(!label->isHole()) { in.regionlist[j] = label->x;"),
    ("fmesher/writepoly.cpp", "in.numberofregions = problem.labellist.size() - in.numberofholes;"),
    ("fmesher/writepoly.cpp", "if(!label->isHole()) { in.regionlist[j] = label->x; in.regionlist[j+1] = label->y; in.regionlist[j+2] = k + 1;"),
    ("fmesher/writepoly.cpp", "if (label->MaxArea <= 0) { in.regionlist[j+3] = defaultMeshSize; } "
                              "else if ((label->MaxArea > defaultMeshSize) && (forceMaxMeshArea)) { in.regionlist[j+3] = defaultMeshSize; } "
                              "else { in.regionlist[j+3] = label->MaxArea; } j += 4; k++;"),
    # switches
    ("fmesher/writepoly.cpp", "std::string triArgs = \"-pPq\" + to_string(m_minAngle) + \"eAaz\" + (verbose?\"\":\"Q\") + \"I\"; "
                              "if (m_suppressUnusedVertices) triArgs += \"j\"; if (m_suppressExteriorSteinerPoints) triArgs += \"Y\";"),
    ("fmesher/writepoly.cpp", "int tristatus = ::triangulate(cmdline, &in, &out, (struct triangulateio *) nullptr, this->TriMessage);"),
    # output files
    ("fmesher/writepoly.cpp", "if (out.numberofpoints > 0) { fprintf(fp, \"%i\\t%i\\t%i\\t%i\\n\", out.numberofpoints, 2, 0, 1); "
                              "for(int i = 0; i < (2 * out.numberofpoints) - 1; i = i + 2) { "
                              "fprintf(fp, \"%i\\t%.17g\\t%.17g\\t%i\\n\", i/2, out.pointlist[i], out.pointlist[i+1], out.pointmarkerlist[i/2]); }"),
    ("fmesher/writepoly.cpp", "if (out.numberofedges > 0) { fprintf(fp, \"%i\\t%i\\n\", out.numberofedges, 1); "
                              "for(int i=0; i < 2 * (out.numberofedges) - 1; i = i + 2) { "
                              "fprintf(fp, \"%i\\t%i\\t%i\\t%i\\n\", i/2, out.edgelist[i], out.edgelist[i+1], out.edgemarkerlist[i/2]); }"),
    ("fmesher/writepoly.cpp", "if (out.numberoftriangles > 0) { fprintf(fp, \"%i\\t%i\\t%i\\n\", out.numberoftriangles, out.numberofcorners, out.numberoftriangleattributes); "
                              "for(int i=0, nexttriattrib=0; i < (out.numberofcorners) * (out.numberoftriangles) - (out.numberofcorners - 1); i = i + (out.numberofcorners)) { "
                              "fprintf(fp, \"%i\\t\", i / (out.numberofcorners)); for (int j = 0; j < (out.numberofcorners); j++) { fprintf(fp, \"%i\\t\", out.trianglelist[i+j]); } "
                              "if (out.numberoftriangleattributes > 0) { for(int j = 0; j < (out.numberoftriangleattributes); j++) { "
                              "fprintf(fp, \"%.17g\\t\", out.triangleattributelist[nexttriattrib+j]); } nexttriattrib = nexttriattrib + (out.numberoftriangleattributes); }"),
    # libfemm
    ("libfemm/CBlockLabel.cpp", "return (BlockType == -1);"),
    ("libfemm/femmconstants.h", "#define MINANGLE_BUMP 3"),
    ("libfemm/femmconstants.h", "#define MINANGLE_MAX 33.8"),
    ("libfemm/femmconstants.h", "#define PI 3.141592653589793238462643383"),
    ("libfemm/FemmProblem.cpp", "if ( node->hasBoundaryMarker()) node->BoundaryMarkerName = nodeproplist[node->BoundaryMarker]->PointName; "
                                "if ( node->isInConductor()) node->InConductorName = circproplist[node->InConductor]->CircName;"),
    ("libfemm/FemmProblem.cpp", "if (segm->hasBoundaryMarker()) segm->BoundaryMarkerName = lineproplist[segm->BoundaryMarker]->BdryName; "
                                "if (segm->isInConductor()) segm->InConductorName = circproplist[segm->InConductor]->CircName;"),
    ("libfemm/FemmProblem.cpp", "if (asegm->hasBoundaryMarker()) asegm->BoundaryMarkerName = lineproplist[asegm->BoundaryMarker]->BdryName; "
                                "if (asegm->isInConductor()) asegm->InConductorName = circproplist[asegm->InConductor]->CircName;"),
    ("libfemm/CNode.cpp", ", BoundaryMarkerName(\"<None>\") , InConductorName(\"<None>\")"),
    ("libfemm/CSegment.cpp", ", BoundaryMarkerName(\"<None>\") , InConductorName(\"<None>\")"),
]
COUNTED = [("libfemm/CBlockLabel.cpp", "if (prop.MaxArea<=0) prop.MaxArea = 0; else prop.MaxArea *= PI * prop.MaxArea / 4.;", 3)]


def squeeze(t):
    return "".join(t.split())


def nocomment(src):
    src = re.sub(r"/\*.*?\*/", "", src, flags=re.S)
    return re.sub(r"//[^\n]*", "", src)


def regen(ctx):
    src = {}

    def get(f):
        if f not in src:
            src[f] = squeeze(nocomment(open(os.path.join(ctx.snap.src, f), errors="replace").read()))
        return src[f]
    for f, snip in ANCHORS:
        if squeeze(snip) not in get(f):
            raise vlib.TranslateError("%s no longer contains `%s`: the model PolyWrite.v transcribes it" % (f, snip))
    for f, snip, n in COUNTED:
        if get(f).count(squeeze(snip)) != n:
            raise vlib.TranslateError("%s no longer contains `%s` %d times (the three label parsers): PolyWrite.v transcribes it" % (f, snip, n))
    translate_markers.regen(ctx.snap.src)


# ------------------------------------------------------------------------------------------------
# problem dict -> file / model input
# ------------------------------------------------------------------------------------------------
def write_problem(p, path):
    femgen.write(p, path)
    if "forcemaxmesh" in p:
        L = open(path, newline="").read().split("\n")
        k = next(i for i, l in enumerate(L) if l.startswith("[MinAngle]"))
        L.insert(k + 1, "[ForceMaxMesh] =  %d" % p["forcemaxmesh"])
        open(path, "w", newline="").write("\n".join(L))


def cabs(re_, im):
    if re_ == 0 and im == 0:
        return 0.0
    if abs(re_) > abs(im):
        return abs(re_) * math.sqrt(1.0 + (im / re_) * (im / re_))
    return abs(im) * math.sqrt(1.0 + (re_ / im) * (re_ / im))


def zc(n):
    return "(%d)%%Z" % n


def sc(s):
    return '"%s"%%string' % s.replace('"', '""')


def bc(b):
    return "true" if b else "false"


def model_expr(p, verbose=False):
    f = vlib.fhexs
    kind = p["kind"]
    mag = kind == "fem"
    pts = p["points"]
    P = [(q["x"], q["y"]) for q in pts]
    cx = "; ".join("((%s, %s), (%s, %s))" % (f(q["x"]), f(q["y"]), zc(q.get("prop", 0) - 1), zc(-1 if mag else q.get("cond", 0) - 1)) for q in pts)
    ls = []
    for s in p["segments"]:
        ms = float(s.get("maxside", -1))
        (x0, y0), (x1, y1) = P[s["n0"]], P[s["n1"]]
        L = cabs(x0 - x1, y0 - y1)
        parts = 1 if ms == -1 else int(math.ceil(L / ms))
        ls.append("(mkDLine %d %d %s %s, mkAttr %s %s %s)" % (s["n0"], s["n1"], f(ms), zc(parts), zc(s.get("bdry", 0) - 1),
                                                            zc(-1 if mag else s.get("cond", 0) - 1), bc(s.get("hidden", 0))))
    ars = []
    for a in p["arcs"]:
        al, ms = float(a["angle"]), float(a.get("maxseg", 10))
        parts = int(math.ceil(al / ms))
        tta = al * math.pi / 180.0
        step = al * math.pi / (float(parts) * 180.0)
        ars.append("(mkDArc %d %d %s %s %s %s %s %s, mkAttr %s %s %s)" % (
            a["n0"], a["n1"], f(al), f(ms), zc(parts), f(math.sin(tta / 2.0)), f(math.cos(step)), f(math.sin(step)),
            zc(a.get("bdry", 0) - 1), zc(-1 if mag else a.get("cond", 0) - 1), bc(a.get("hidden", 0))))
    labs = ["mkLabel %s %s %s %s" % (f(h["x"]), f(h["y"]), zc(-1), f(0.0)) for h in p.get("holes", [])]
    labs += ["mkLabel %s %s %s %s" % (f(l["x"]), f(l["y"]), zc(l.get("block", 1) - 1), f(float(l.get("maxarea", -1)))) for l in p["labels"]]
    props = "mkProps [%s] [%s] [%s] %s" % ("; ".join(sc(x["name"]) for x in p.get("pointprops", [])),
                                           "; ".join(sc(x["name"]) for x in p.get("bdryprops", [])),
                                           "; ".join(sc(x["name"]) for x in p.get("circuits", [])), zc(len(p.get("blockprops", []))))
    S = "mkSettings %s %s %s %s %s" % (bc(mag), bc(p.get("dosmartmesh", 1)), bc(p.get("forcemaxmesh", 0)), bc(verbose), f(float(p.get("minangle", 30))))
    return ("let S := %s in match poly_input FA S (%s) [%s] [%s] [%s] [%s] with "
            "Some T => (true, (ti_points T, ti_pmarks T, ti_segs T), (ti_smarks T, ti_holes T, ti_regions T), min_angle_arg FA S) "
            "| None => (false, ([], [], []), ([], [], []), min_angle_arg FA S) end" % (S, props, cx, "; ".join(ls), "; ".join(ars), "; ".join(labs)))


def out_expr(o):
    f = vlib.fhexs
    fl = lambda v: "[%s]" % "; ".join(f(x) for x in v)
    zl = lambda v: "[%s]" % "; ".join(zc(x) for x in v)
    return ("let o := @mkTriOut float %s %s %s %s %s %s %s %s %s %s %s in "
            "let enc := map (map (fun t : @tok float => match t with TI z => (true, z, 0%%float) | TF x => (false, 0%%Z, x) end)) in "
            "(enc (node_file FA o), enc (edge_file o), match ele_file FA o with Some l => (true, enc l) | None => (false, []) end)" % (
                zc(o["np"]), fl(o["pl"]), zl(o["pm"]), zc(o["ne"]), zl(o["el"]), zl(o["em"]),
                zc(o["nt"]), zc(o["corners"]), zc(o["nattr"]), zl(o["tl"]), fl(o["ta"])))


# ------------------------------------------------------------------------------------------------
# running the real code
# ------------------------------------------------------------------------------------------------
def harness_input(path, verbose, status, o):
    L = ["RUN %s %d %d" % (path, 1 if verbose else 0, status)]
    L.append("NP %d" % o["np"])
    for k in range(o["np"]):
        L.append("%.17g %.17g %d" % (o["pl"][2 * k], o["pl"][2 * k + 1], o["pm"][k]))
    L.append("NE %d" % o["ne"])
    for k in range(o["ne"]):
        L.append("%d %d %d" % (o["el"][2 * k], o["el"][2 * k + 1], o["em"][k]))
    L.append("NT %d %d %d" % (o["nt"], o["corners"], o["nattr"]))
    for k in range(o["nt"]):
        L.append(" ".join(["%d" % x for x in o["tl"][o["corners"] * k:o["corners"] * (k + 1)]] +
                          ["%.17g" % x for x in o["ta"][o["nattr"] * k:o["nattr"] * (k + 1)]]))
    L.append("GO")
    return "\n".join(L) + "\n"


def parse_dump(out):
    d = dict(points=[], pmarks=[], segs=[], holes=[], regions=[], switches=None, ret=None, counts={}, periodic=None, attrs=None)
    for l in out.split("\n"):
        t = l.split()
        if not t:
            continue
        if t[0] == "SWITCHES":
            d["switches"] = l[len("SWITCHES "):]
        elif t[0] == "P":
            d["points"].append((float(t[2]), float(t[3]))); d["pmarks"].append(int(t[4]))
        elif t[0] == "S":
            d["segs"].append((int(t[2]), int(t[3]), int(t[4])))
        elif t[0] == "H":
            d["holes"].append((float(t[2]), float(t[3])))
        elif t[0] == "R":
            d["regions"].append(tuple(float(x) for x in t[2:6]))
        elif t[0] in ("INPOINTS", "INSEGS", "INHOLES", "INREGIONS"):
            d["counts"][t[0]] = int(t[1])
        elif t[0] == "INATTRS":
            d["attrs"] = (int(t[1]), t[2])
        elif t[0] == "RET":
            d["ret"] = int(t[1])
        elif t[0] == "PERIODIC":
            d["periodic"] = int(t[1])
    return d


def read_tokens(path):
    """token table of a written mesh file: None when the file does not exist"""
    if not os.path.exists(path):
        return None
    rows = []
    for l in open(path).read().split("\n"):
        if l.strip():
            rows.append(l.split())
    return rows


def poly_comment(path):
    for l in open(path):
        if l.startswith("# "):
            return l[2:].rstrip("\n")
    return None


SW = re.compile(r"^(-pPq)([-+0-9.a-z]+?)(eAaz)(Q?)(I)(j?)(Y?)$")


def switch_tokens(s):
    m = SW.match(s or "")
    if not m:
        return None
    return [g for g in m.groups() if g != ""]


# ------------------------------------------------------------------------------------------------
# generators
# ------------------------------------------------------------------------------------------------
FAMS = [geomgen.fam_rect, geomgen.fam_circle_in_square, geomgen.fam_nested_polygons, geomgen.fam_annulus, geomgen.fam_rounded,
        geomgen.fam_tall_holes, geomgen.fam_chamfer]
KINDS = ["fee", "feh", "fem"]


def gen_case(rng, k):
    kind = KINDS[(k + k // len(FAMS)) % 3]
    p = FAMS[k % len(FAMS)](rng, kind, True)
    p = geomgen.with_meshed_side(p, k)
    feats = list(p.get("features", []))
    p["dosmartmesh"] = rng.choice([0, 1])
    p["forcemaxmesh"] = rng.choice([0, 1])
    p["minangle"] = rng.choice([1.0, 10.0, 20.0, 25.5, 30.0, 30.8, 30.800000000000004, 31.0, 33.0, 33.8, 40.0, 0.0])
    npp, nb, nc = len(p.get("pointprops", [])), len(p.get("bdryprops", [])), len(p.get("circuits", []))
    # a second point property so that indices other than 0 occur
    p["pointprops"].append(dict(name="pp2", V=2.0))
    npp += 1
    for q in p["points"]:
        r = rng.random()
        if r < 0.25:
            q["prop"] = rng.randint(1, npp)
        if kind != "fem" and rng.random() < 0.25:
            q["cond"] = rng.randint(1, nc)
    for e in p["segments"] + p["arcs"]:
        if rng.random() < 0.2:
            e["hidden"] = 1
        if rng.random() < 0.15:
            e["bdry"] = rng.randint(1, nb)
        if kind != "fem" and rng.random() < 0.2:
            e["cond"] = rng.randint(1, nc)
    # no-mesh labels: some of the [NumHoles] entries become labels of block 0 placed anywhere among the labels
    holes = p.get("holes", [])
    keep = []
    for h in holes:
        if rng.random() < 0.5:
            p["labels"].insert(rng.randint(0, len(p["labels"])), dict(x=h["x"], y=h["y"], block=0, maxarea=rng.choice([-1, 0.3])))
            feats.append("nomesh-label")
        else:
            keep.append(h)
    p["holes"] = keep
    meshed = [l for l in p["labels"] if l.get("block", 1) != 0]
    for l in meshed:
        r = rng.random()
        if r < 0.12:
            l["maxarea"] = 0
        elif r < 0.2:
            l["maxarea"] = -1
        elif r < 0.28:
            l["maxarea"] = rng.choice([1e30, 1e160, 50.0, 1e-170, 3e-9])
        elif r < 0.4:
            l["maxarea"] = l.get("maxarea", 1.0) * rng.choice([7.0, 30.0, 0.3])
    if meshed and rng.random() < 0.4:
        rng.choice(meshed)["external"] = 2
        feats.append("default-label")
    feats += ["smart%d" % p["dosmartmesh"], "force%d" % p["forcemaxmesh"], "minangle%g" % p["minangle"]]
    p["features"] = feats
    return p


def square(kind, rng=None):
    B = femgen.Builder(kind)
    ids = geomgen.base_props(B, kind, rng or vlib.Rng(1))
    p = B.p
    p["problemtype"] = "planar"; p["units"] = "centimeters"; p["depth"] = 1.0; p["minangle"] = 30.0; p["dosmartmesh"] = 0
    B.rect(0.0, 0.0, 4.0, 3.0, dict(b=dict(bdry=ids["bdry"][0]), t=dict(bdry=ids["bdry"][1])))
    B.rect(1.0, 1.0, 2.5, 2.0)
    return B, ids


def handmade():
    out = []
    # a label of type <No Mesh> (block 0) listed BEFORE the meshed labels: the meshed ones are numbered without it
    B, ids = square("fee")
    B.label(1.5, 1.5, 0, maxarea=0.2)
    B.label(0.5, 0.5, ids["mats"][0], maxarea=0.4)
    B.label(3.5, 2.5, ids["mats"][1], maxarea=0.3)
    B.p["features"] = ["hand:nomesh-label-first"]; out.append(B.p)
    # two labels in one region, different sizes; a hole entry in the same region as a label
    B, ids = square("feh")
    B.label(0.5, 0.5, ids["mats"][0], maxarea=0.4)
    B.label(3.5, 2.5, ids["mats"][1], maxarea=0.1)
    B.label(1.5, 1.5, ids["mats"][2], maxarea=0.2)
    B.p["holes"].append(dict(x=2.0, y=1.5))
    B.p["features"] = ["hand:two-labels-one-region", "hand:label-in-hole-region"]; out.append(B.p)
    # mesh sizes: zero, negative, tiny (MaxArea underflows to 0), huge (MaxArea overflows to infinity), with and without ForceMaxMesh
    for force in (0, 1):
        for smart in (0, 1):
            B, ids = square("fem")
            B.p["forcemaxmesh"] = force; B.p["dosmartmesh"] = smart
            for i, d in enumerate([0, -2.5, 1e-170, 1e200, 0.05, 4.0, 6.0, 1e-3]):
                B.label(0.1 + 0.1 * i, 0.5, ids["mats"][i % 3], maxarea=d)
            B.label(1.5, 1.5, ids["mats"][1])
            B.p["features"] = ["hand:mesh-sizes", "force%d" % force, "smart%d" % smart]; out.append(B.p)
    # hidden segment / arc with boundary and conductor
    B, ids = square("fee")
    B.p["segments"][4].update(hidden=1, bdry=ids["bdry"][2], cond=ids["cond"][1])
    a = B.point(5.0, 0.0); b = B.point(5.0, 3.0)
    B.arc(1, 2, 90.0, maxseg=7.0, hidden=1, bdry=ids["bdry"][3], cond=ids["cond"][0])
    B.label(0.5, 0.5, ids["mats"][0], maxarea=0.4)
    B.label(1.5, 1.5, ids["mats"][1], maxarea=0.4)
    B.p["features"] = ["hand:hidden-with-boundary"]; out.append(B.p)
    # duplicate names: the last boundary property of that name wins, every conductor of that name is added
    for kind in ("feh", "fem"):
        B, ids = square(kind)
        B.p["bdryprops"][2]["name"] = B.p["bdryprops"][0]["name"]
        B.p["circuits"][1]["name"] = B.p["circuits"][0]["name"]
        B.p["pointprops"].append(dict(name=B.p["pointprops"][0]["name"], V=5.0))
        B.p["points"][0]["prop"] = 1
        if kind != "fem":
            B.p["points"][1]["cond"] = 1
            B.p["segments"][1]["cond"] = 1
        B.label(0.5, 0.5, ids["mats"][0], maxarea=0.4)
        B.label(1.5, 1.5, ids["mats"][1], maxarea=0.4)
        B.p["features"] = ["hand:duplicate-names", kind]; out.append(B.p)
    # a property called "<None>": every entity WITHOUT an assignment (and every node created by the subdivision) matches it
    for kind in ("fee", "fem"):
        B, ids = square(kind)
        B.p["pointprops"].append(dict(name="<None>", V=7.0))
        B.p["bdryprops"][1]["name"] = "<None>"
        if kind != "fem":
            B.p["circuits"][1]["name"] = "<None>"
        B.p["segments"][1]["maxside"] = 0.8
        B.label(0.5, 0.5, ids["mats"][0], maxarea=0.4)
        B.label(1.5, 1.5, ids["mats"][1], maxarea=0.4)
        B.p["features"] = ["hand:property-called-<None>", kind]; out.append(B.p)
    # no labels at all; only holes
    B, ids = square("feh")
    B.p["features"] = ["hand:no-labels"]; out.append(B.p)
    B, ids = square("fee")
    B.p["holes"].append(dict(x=1.5, y=1.5)); B.p["holes"].append(dict(x=0.5, y=0.5))
    B.p["features"] = ["hand:only-holes"]; out.append(B.p)
    # an empty drawing (default mesh size -1) and a drawing of points only
    for smart in (0, 1):
        B = femgen.Builder("fem"); ids = geomgen.base_props(B, "fem", vlib.Rng(2))
        B.p["dosmartmesh"] = smart
        B.label(0.5, 0.5, ids["mats"][0], maxarea=0.4); B.label(1.5, 0.5, ids["mats"][0])
        B.p["features"] = ["hand:empty-drawing", "smart%d" % smart]; out.append(B.p)
    B = femgen.Builder("fee"); ids = geomgen.base_props(B, "fee", vlib.Rng(3))
    B.point(1.0, 2.0, prop=1, cond=2); B.point(-3.0, 0.5, cond=1); B.point(0.25, -7.0)
    B.label(0.5, 0.5, ids["mats"][0])
    B.p["features"] = ["hand:points-only"]; out.append(B.p)
    # minimum angles at and beyond the cap, negative
    for ma in (30.8, 33.8, 34.0, 89.0, -5.0, 0.0, 1e-7, 123456.789):
        B, ids = square("fee")
        B.p["minangle"] = ma
        B.label(0.5, 0.5, ids["mats"][0], maxarea=0.4); B.label(1.5, 1.5, ids["mats"][1], maxarea=0.4)
        B.p["features"] = ["hand:minangle%g" % ma]; out.append(B.p)
    return out


def random_out(rng, k):
    np_ = rng.choice([0, 1, 2, 5, 9, 17]) if k % 5 else 0
    ne = rng.choice([0, 1, 3, 8, 20]) if k % 7 else 0
    nt = rng.choice([0, 1, 2, 6, 11]) if k % 6 else 0
    corners = rng.choice([3, 3, 3, 6, 1, 4])
    nattr = rng.choice([1, 1, 1, 0, 2, 3])
    fv = lambda: rng.choice([0.0, -0.0, 1.0, rng.uniform(-10, 10), rng.uniform(-1e-9, 1e-9), 1e300, 5e-324, 0.1, 1.0 / 3.0, float(rng.randint(1, 9))])
    mk = lambda: rng.choice([0, 1, 2, 3, -2, -3, 65538, -65538, 2 ** 31 - 1, -2 ** 31, rng.randint(-200000, 200000)])
    return dict(np=np_, pl=[fv() for _ in range(2 * np_)], pm=[mk() for _ in range(np_)],
                ne=ne, el=[rng.randint(0, 40) for _ in range(2 * ne)], em=[mk() for _ in range(ne)],
                nt=nt, corners=corners, nattr=nattr, tl=[rng.randint(0, 40) for _ in range(corners * nt)], ta=[fv() for _ in range(nattr * nt)])


# ------------------------------------------------------------------------------------------------
# oracles on the implementation alone
# ------------------------------------------------------------------------------------------------
def region_oracle(p, d):
    labs = [dict(x=h["x"], y=h["y"], block=0) for h in p.get("holes", [])] + list(p["labels"])
    nomesh = [(l["x"], l["y"]) for l in labs if l.get("block", 1) == 0]
    if d["holes"] != nomesh:
        return "hole list %r is not the list of no-mesh labels %r" % (d["holes"][:4], nomesh[:4])
    meshed = [l for l in labs if l.get("block", 1) != 0]
    if len(d["regions"]) != len(meshed):
        return "%d regions for %d meshed labels" % (len(d["regions"]), len(meshed))
    for k, (l, r) in enumerate(zip(meshed, d["regions"])):
        if (r[0], r[1]) != (l["x"], l["y"]):
            return "region %d is at %r, the %d-th meshed label at %r" % (k, r[:2], k, (l["x"], l["y"]))
        if r[2] != k + 1:
            return "region %d (the %d-th meshed label) carries attribute %r instead of %d" % (k, k, r[2], k + 1)
        dd = l.get("maxarea", -1)
        if dd and 1e-150 < dd < 1e150 and not math.isinf(r[3]):
            if Fraction(r[3]) > Fraction(3141592653589794, 10 ** 15) * Fraction(dd) ** 2 / 4 * (1 + Fraction(1, 10 ** 12)):
                return "region %d: area constraint %r exceeds pi d^2/4 for mesh size d=%r" % (k, r[3], dd)
        if not (r[3] > 0) and p["points"]:
            return "region %d: area constraint %r is not positive" % (k, r[3])
    return None


def plain_names(p):
    for key in ("pointprops", "bdryprops", "circuits"):
        nm = [x["name"] for x in p.get(key, [])]
        if len(set(nm)) != len(nm) or "<None>" in nm:
            return False
    return True


def owner_oracle(p, d):
    """every PSLG segment lies on exactly the drawn line / arc (arc: within its angular span) whose boundary property and
    conductor its marker encodes; when several drawn entities contain it, one of them must match"""
    kind = p["kind"]

    def enc(e):
        t = 0
        if e.get("bdry", 0):
            t = e["bdry"] - 1 + 2
        if e.get("cond", 0) and kind != "fem":
            t += e["cond"] * 0x10000
        return -t
    P = d["points"]
    pts = p["points"]
    scale = max(max(abs(c) for c in q) for q in P) or 1.0
    tol = 1e-9 * scale
    import cmath
    for (u, v, m) in d["segs"]:
        zu, zv = complex(*P[u]), complex(*P[v])
        owners = []
        for s_ in p["segments"]:
            a = complex(pts[s_["n0"]]["x"], pts[s_["n0"]]["y"]); b = complex(pts[s_["n1"]]["x"], pts[s_["n1"]]["y"])
            L = abs(b - a)

            def on(z):
                w = (z - a) / (b - a)
                return abs(w.imag) * L <= tol and -1e-9 <= w.real <= 1 + 1e-9
            if L > 0 and on(zu) and on(zv):
                owners.append(s_)
        for a_ in p["arcs"]:
            p0 = complex(pts[a_["n0"]]["x"], pts[a_["n0"]]["y"]); p1 = complex(pts[a_["n1"]]["x"], pts[a_["n1"]]["y"])
            span = math.radians(a_["angle"])
            ch = p1 - p0
            c = p0 + ch / 2 + 1j * (ch / 2) / math.tan(span / 2)
            R = abs(p0 - c)

            def on(z):
                if abs(abs(z - c) - R) > 1e-7 * R:
                    return False
                th = cmath.phase((z - c) / (p0 - c))
                if th < -1e-7:
                    th += 2 * math.pi
                return th <= span + 1e-7
            if on(zu) and on(zv):
                owners.append(a_)
        if not owners:
            return "PSLG segment (%d,%d) lies on no drawn line or arc" % (u, v)
        if all(enc(e) != m for e in owners):
            return "PSLG segment (%d,%d) on a drawn entity with (bdry,cond)=%r has marker %d instead of %d" % (
                u, v, (owners[0].get("bdry", 0) - 1, owners[0].get("cond", 0) - 1), m, enc(owners[0]))
    for i, q in enumerate(pts):
        t = 0
        if q.get("prop", 0):
            t = q["prop"] + 1
        if q.get("cond", 0) and kind != "fem":
            t += q["cond"] * 0x10000
        if d["pmarks"][i] != t:
            return "drawn point %d with (property,conductor)=%r has marker %d instead of %d" % (i, (q.get("prop", 0) - 1, q.get("cond", 0) - 1), d["pmarks"][i], t)
    return None


def created_oracle(p, d):
    n = len(p["points"])
    for i, q in enumerate(p["points"]):
        if d["points"][i] != (q["x"], q["y"]):
            return "PSLG vertex %d is not the drawn point %d" % (i, i)
    for i in range(n, len(d["points"])):
        if d["pmarks"][i] != 0:
            return "node %d created by the subdivision carries marker %d" % (i, d["pmarks"][i])
    return None


# ------------------------------------------------------------------------------------------------
def correspond(ctx):
    rng = ctx.rng
    exe = vlib.build_harness(ctx.snap, "h_polywrite", libs=("fmesher", "femm"))
    ngen = 30 if ctx.quick() else 240
    cases = [gen_case(rng, k) for k in range(ngen)] + handmade()
    dis, exprs, runs, feats = [], [], [], {}
    tot = bit = 0
    nreal = 0
    for k, p in enumerate(cases):
        for ft in p.get("features", []):
            feats[ft] = feats.get(ft, 0) + 1
        verbose = (k % 2 == 1)
        status = 0 if k % 9 != 8 else rng.choice([1, -3, 7])
        o = random_out(rng, k)
        path = os.path.join(ctx.work, "x%d%s" % (k, EXT[p["kind"]]))
        base = path[:-4]
        write_problem(p, path)
        rc, out, err = vlib.sh([exe], inp=harness_input(path, verbose, status, o), timeout=120)
        d = parse_dump(out)
        if rc != 0 or d["ret"] is None or d["switches"] is None:
            ctx.fail("DoNonPeriodicBCTriangulation did not get as far as Triangle on a readable problem (rc=%d): %s" % (rc, (out[-200:] + err[-300:])), problem=p)
            continue
        d["poly"] = meshlib.read_poly(base + ".poly")
        d["comment"] = poly_comment(base + ".poly")
        d["files"] = {e: read_tokens(base + e) for e in (".node", ".edge", ".ele", ".pbc")}
        # the stand-alone binary writes the same .poly (real Triangle behind it; its verdict is not the subject here)
        sane = all(not (0 < float(l.get("maxarea", -1)) < 0.05) for l in p["labels"]) and p["points"]
        if sane and (k % 6 == 0 or (k >= ngen and k % 2 == 0)):
            rdir = os.path.join(ctx.work, "real%d" % k)
            os.makedirs(rdir, exist_ok=True)
            rpath = os.path.join(rdir, os.path.basename(path))
            shutil.copy(path, rpath)
            rrc, rout, rerr = vlib.sh([ctx.snap.tool("fmesher"), "--write-poly", rpath], timeout=60)
            if os.path.exists(rpath[:-4] + ".poly"):
                nreal += 1
                if open(rpath[:-4] + ".poly").read() != open(base + ".poly").read():
                    dis.append(dict(what="the .poly written by the stand-alone fmesher differs from the one written under the harness", problem=p))
            elif d["periodic"] == 0:
                dis.append(dict(what="stand-alone fmesher wrote no .poly (rc=%d)" % rrc, problem=p))
        exprs.append(model_expr(p, verbose)); exprs.append(out_expr(o))
        runs.append((p, d, o, verbose, status))
    res = vlib.coq_eval(HEADER, exprs, shard=40)
    for i, (p, d, o, verbose, status) in enumerate(runs):
        v, vo = res[2 * i], res[2 * i + 1]
        ok, (mpts, mpm, msegs), (msm, mholes, mregs), mangle = v
        bad = []
        if not ok:
            dis.append(dict(what="model rejected the inputs (ceil values / property indices) of a problem the real code processed", problem=p))
            continue

        def cmpf(what, a, b):
            nonlocal tot, bit
            tot += 1
            if vlib.ulp_diff(a, float(b)) == 0 or (a != a and b != b):
                bit += 1
            elif not vlib.close(a, float(b), 4, 1e-300):
                bad.append("%s: implementation %r, model %r" % (what, a, float(b)))

        def cmpi(what, a, b):
            nonlocal tot, bit
            tot += 1
            if int(a) == int(b):
                bit += 1
            else:
                bad.append("%s: implementation %r, model %r" % (what, a, b))
        # the dump of the in-memory structure and the .poly file say the same
        poly = d["poly"]
        if (poly["points"], poly["pmarks"], poly["segs"], poly["holes"], poly["regions"]) != (d["points"], d["pmarks"], d["segs"], d["holes"], d["regions"]):
            bad.append(".poly file and in-memory triangulateio differ")
        cnts = d["counts"]
        if (cnts.get("INPOINTS"), cnts.get("INSEGS"), cnts.get("INHOLES"), cnts.get("INREGIONS")) != (len(d["points"]), len(d["segs"]), len(d["holes"]), len(d["regions"])):
            bad.append("counts of the triangulateio input differ from the rows dumped")
        for what, a, b in (("points", d["points"], mpts), ("point markers", d["pmarks"], mpm), ("segments", d["segs"], msegs),
                           ("segment markers", d["segs"], msm), ("holes", d["holes"], mholes), ("regions", d["regions"], mregs)):
            if len(a) != len(b):
                bad.append("%d %s, model %d" % (len(a), what, len(b)))
        if not bad:
            for j, ((x, y), (mx, my)) in enumerate(zip(d["points"], mpts)):
                cmpf("point %d x" % j, x, mx); cmpf("point %d y" % j, y, my)
            for j, (a, b) in enumerate(zip(d["pmarks"], mpm)):
                cmpi("marker of point %d" % j, a, b)
            for j, ((u, w, m), (mu, mw), mm) in enumerate(zip(d["segs"], msegs, msm)):
                cmpi("segment %d n0" % j, u, mu); cmpi("segment %d n1" % j, w, mw); cmpi("marker of segment %d" % j, m, mm)
            for j, ((x, y), (mx, my)) in enumerate(zip(d["holes"], mholes)):
                cmpf("hole %d x" % j, x, mx); cmpf("hole %d y" % j, y, my)
            for j, (r, mr) in enumerate(zip(d["regions"], mregs)):
                for nm, a, b in zip(("x", "y", "attribute", "area constraint"), r, mr):
                    cmpf("region %d %s" % (j, nm), a, b)
        # switches
        st = switch_tokens(d["switches"])
        ct = switch_tokens(d["comment"])
        want_angle = "%f" % float(mangle)
        tot += 2
        if st is None or st != ["-pPq", st[1] if st else "", "eAaz"] + ([] if verbose else ["Q"]) + ["I", "j"]:
            bad.append("switch string %r is not nonperiodic_switches verbose=%r" % (d["switches"], verbose))
        elif st[1] != want_angle:
            bad.append("angle in the switch string is %s, model min(MinAngle+3, 33.8) = %s" % (st[1], want_angle))
        else:
            bit += 1
        if ct is None or ct != ["-pPq", want_angle, "eAaz", "Q", "I", "j"]:
            bad.append("comment of the .poly file %r is not the switch string for verbose=false" % (d["comment"],))
        else:
            bit += 1
        # return value and files
        (mnode, medge, (eok, mele)) = vo
        tot += 1
        if d["ret"] != status:
            bad.append("return value %r, model %r" % (d["ret"], status))
        else:
            bit += 1
        files = d["files"]
        if files[".pbc"] != [["0"], ["0"]]:
            bad.append(".pbc file is %r" % (files[".pbc"],))
        if status != 0:
            if any(files[e] is not None for e in (".node", ".edge", ".ele")):
                bad.append("mesh files were written although triangulate returned %d" % status)
        else:
            for e, mt in ((".node", mnode), (".edge", medge), (".ele", mele)):
                ft = files[e]
                if e == ".ele" and not eok:
                    continue
                if ft is None:
                    bad.append("%s was not written" % e); continue
                if len(ft) != len(mt) or any(len(a) != len(b) for a, b in zip(ft, mt)):
                    bad.append("%s has %d rows, model %d (or rows of different lengths)" % (e, len(ft), len(mt))); continue
                for r, (fr, mr) in enumerate(zip(ft, mt)):
                    for c, (tk, (isint, z, x)) in enumerate(zip(fr, mr)):
                        if isint:
                            if not re.fullmatch(r"-?\d+", tk):
                                bad.append("%s row %d column %d: %r is not an integer token" % (e, r, c, tk)); continue
                            cmpi("%s row %d column %d" % (e, r, c), int(tk), z)
                        else:
                            cmpf("%s row %d column %d" % (e, r, c), float(tk), x)
        if bad:
            dis.append(dict(what="PolyWrite correspondence: " + bad[0], more=bad[1:4], problem=p, out_tables=o, verbose=verbose, status=status))
        # oracles on the implementation alone
        msg = region_oracle(p, d)
        if msg:
            ctx.fail("regions / holes handed to Triangle: " + msg, problem=p)
        if plain_names(p) and d["points"]:
            msg = created_oracle(p, d) or owner_oracle(p, d)
            if msg:
                ctx.fail("markers handed to Triangle: " + msg, problem=p)
    cov = ctx.res.cov
    cov["evaluations"] = len(cases)
    cov["distinct_nontrivial"] = len(set(json.dumps(r[0], sort_keys=True, default=str) for r in runs))
    cov["rule"] = ("generated non-periodic problems of the three physics (conductors / point properties on points, boundary + conductor on "
                   "lines and arcs, hidden entities, no-mesh labels as hole entries and as block-0 labels, default labels, smart mesh, "
                   "ForceMaxMesh, mesh sizes 0 / negative / tiny / huge, minimum angles around the cap) and hand-made drawings; the real "
                   "DoNonPeriodicBCTriangulation with Triangle stubbed: in-memory triangulateio input, .poly, switch string (verbose on/off), "
                   "return value and the .node/.edge/.ele written from chosen output tables vs. PolyWrite.v by vm_compute")
    cov["input_distribution"] = feats
    cov["samples"] = [dict(features=r[0].get("features"), points=len(r[1]["points"]), segments=len(r[1]["segs"]), holes=len(r[1]["holes"]),
                           regions=len(r[1]["regions"]), switches=r[1]["switches"]) for r in runs[:4]]
    cov["values_compared"] = tot
    cov["bit_identical"] = bit
    cov["standalone_fmesher_poly_compared"] = nreal
    return dis


def search(ctx, broken):
    return []
