"""C17 — generators: (1) well-formed problems of the three physics (femgen / geomgen families plus a
magnetics generator of its own), (2) the Lua script that builds a problem from scratch with the documented
command set (both spellings of every command, alternating), (3) the post-processing queries.

Documented signatures used (the `\\lua{...}` doc comments above the handlers of femmcli/Lua*Commands.cpp):
  newdocument(doctype)                                    0 magnetics, 1 electrostatics, 2 heat flow
  mi_probdef(frequency,(units),(type),(precision),(depth),(minangle),(acsolver))
  ei_probdef(units,type,precision,(depth),(minangle))
  hi_probdef(units,type,precision,(depth),(minangle),(prevSolution),(dT))
  mi_addmaterial("name", mu x, mu y, H c, J, Cduct, Lam d, Phi hmax, lam fill, LamType, Phi hx, Phi hy, NStrands, WireD)
  mi_addbhpoint("blockname",b,h)
  ei_addmaterial("name", ex, ey, qv)      hi_addmaterial("name", kx, ky, qv, kt)     hi_addtkpoint("name",T,k)
  mi_addboundprop("propname", A0, A1, A2, Phi, Mu, Sig, c0, c1, BdryFormat)
  ei_addboundprop("boundpropname", Vs, qs, c0, c1, BdryFormat)
  hi_addboundprop("boundpropname", BdryFormat, Tset, qs, Tinf, h, beta)
  mi_addpointprop("pointpropname",a,j)    ei_addpointprop("pointpropname",Vp,qp)    hi_addpointprop("pointpropname",Tp,qp)
  mi_addcircprop("circuitname", i, circuittype)           [eh]i_addconductorprop("conductorname", Vc|Tc, qc, conductortype)
  xi_addnode(x,y)  xi_addsegment(x1,y1,x2,y2)  xi_addarc(x1,y1,x2,y2,angle,maxseg)  xi_addblocklabel(x,y)
  xi_selectnode(x,y) xi_selectsegment(x,y) xi_selectarcsegment(x,y) xi_selectlabel(x,y)  xi_clearselected()
  mi_setnodeprop("propname",groupno)                      [eh]i_setnodeprop("propname",groupno,"inconductor")
  mi_setsegmentprop("propname", elementsize, automesh, hide, group)   [eh]i_...(..., group, "inconductor")
  mi_setarcsegmentprop(maxsegdeg, "propname", hide, group)            ei_...(..., group, "inconductor")
  mi_setblockprop("blockname", automesh, meshsize, "incircuit", magdirection, group, turns)
  [eh]i_setblockprop("blockname", automesh, meshsize, group)
  xi_attachouterspace() xi_attachdefault() xi_defineouterspace(Zo,Ro,Ri)
  xi_modifymaterial|modifyboundprop|modifypointprop("name",propnum,value)  mi_modifycircprop / ei_modifyconductorprop(...)
  xi_deletematerial|deleteboundprop|deletepointprop("name")  mi_deletecircuit / [eh]i_deleteconductor("name")  xi_setgroup(n)
  xi_saveas("filename")  xi_createmesh()  xi_analyze(flag)  xi_loadsolution()
"""
import math, copy
import femgen, geomgen
from femgen import Builder, mesh_diameter

PRE = {"fee": ("ei", "eo"), "feh": ("hi", "ho"), "fem": ("mi", "mo")}
DOCTYPE = {"fem": 0, "fee": 1, "feh": 2}
LUA_UNIT = {"inches": "inches", "millimeters": "millimeters", "centimeters": "centimeters", "meters": "meters",
            "mils": "mils", "microns": "micrometers"}


# ----------------------------------------------------------------------------------------------
# magnetics generator
# ----------------------------------------------------------------------------------------------
def gen_mag_problem(rng, axi=None, size_nodes=70, bh=None, outer=False):
    """Magnetostatic problem on a rectangle divided into four cells; each cell may hold a feature:
    wound coil (series circuit, turns), solid bar (parallel circuit), permanent magnet (H_c, direction),
    iron piece bounded by two arcs (linear anisotropic or B-H curve), point current / prescribed A."""
    B = Builder("fem")
    p = B.p
    axi = rng.random() < 0.4 if axi is None else axi
    p["problemtype"] = "axisymmetric" if axi else "planar"
    # (axisymmetric magnetostatics declared in microns used to yield NaN potentials from fsolver on both routes: repaired in
    #  /repo 0288a4c, found through this generator; C10 checks it)
    p["units"] = rng.choice(femgen.UNITS)
    p["depth"] = rng.choice([1.0, 2.5, 10.0, 40.0])
    p["precision"] = 1e-8
    p["minangle"] = rng.choice([20, 25, 30])
    p["frequency"] = 0
    W = rng.choice([8.0, 10.0, 12.0])
    H = rng.choice([6.0, 8.0])
    x0 = rng.choice([0.0, 0.5, 1.0]) if axi else rng.choice([-4.0, 0.0, 0.5])
    y0 = rng.choice([-3.0, 0.0, 1.0])
    x1, y1 = x0 + W, y0 + H
    d = mesh_diameter(W * H / max(size_nodes, 10) * 1.3)
    use_bh = rng.random() < 0.3 if bh is None else bh
    air = B.prop("blockprops", name="Air", mu_x=1.0, mu_y=1.0)
    if use_bh:
        iron = B.prop("blockprops", name="Soft iron", mu_x=2000.0, mu_y=2000.0,
                      bh=[(0.0, 0.0), (0.5, 100.0), (1.0, 250.0), (1.5, 1500.0), (1.8, 8000.0), (2.0, 30000.0)])
    else:
        mx = rng.choice([100.0, 1000.0, 2500.0])
        iron = B.prop("blockprops", name="Soft iron", mu_x=mx, mu_y=mx if rng.random() < 0.5 else rng.choice([50.0, 500.0]),
                      lamtype=rng.choice([0, 0, 1]) if not axi else 0, lamfill=rng.choice([1.0, 0.95]), d_lam=0.0)
    copper = B.prop("blockprops", name="Copper 18AWG", mu_x=1.0, mu_y=1.0, sigma=58.0, lamtype=3, nstrands=1, wired=1.0239652968433499)
    bar = B.prop("blockprops", name="Al bar", mu_x=1.0, mu_y=1.0, sigma=34.45, J_re=rng.choice([0.0, 0.5, -1.0]))
    magnet = B.prop("blockprops", name="NdFeB 32", mu_x=1.045, mu_y=1.045, H_c=rng.choice([883310.0, 500000.0]))
    a0 = B.prop("bdryprops", name="A=0", type=0)
    a1 = B.prop("bdryprops", name="A lin", type=0, A_0=rng.choice([1e-4, -2e-4]), A_1=rng.choice([0.0, 1e-5]), A_2=rng.choice([0.0, -1e-5]), Phi=0.0)
    if rng.random() < 0.5:
        # (only settable through mi_modifyboundprop(name, 10|11, angle); meaningless for this boundary type, carried along)
        p["bdryprops"][-1].update(innerangle=12.5, outerangle=-7.25)
    mix = B.prop("bdryprops", name="mixed", type=2, c0=rng.choice([0.0, 10.0]), c1=rng.choice([1.0 / (4e-7 * math.pi), 2e5]))
    pI = B.prop("pointprops", name="line current", I_re=rng.choice([5.0, -20.0]))
    pA = B.prop("pointprops", name="A point", A_re=rng.choice([0.0, 1e-4]))
    coil = B.prop("circuits", name="coil", type=1, amps_re=rng.choice([1.0, 2.5, -4.0]))
    par = B.prop("circuits", name="bars", type=0, amps_re=rng.choice([10.0, -30.0]))
    B.prop("circuits", name="unused", type=1, amps_re=0.0)
    # outer sides
    sides = {}
    picks = [rng.choice([a0, a0, a0, a1, mix, 0]) for _ in range(4)]
    if not any(c in (a0, a1) for c in picks):
        picks[rng.randrange(3)] = a0
    if axi and x0 == 0.0:
        picks[3] = 0
    for nm, c in zip("brtl", picks):
        sides[nm] = dict(bdry=c) if c else {}
        if rng.random() < 0.3:
            sides[nm]["group"] = 9
        if rng.random() < 0.2:
            sides[nm]["maxside"] = W / rng.choice([8.0, 16.0])
    B.rect(x0, y0, x1, y1, sides)
    B.label(x0 + W * 0.5, y0 + H * 0.5, air, maxarea=d, group=rng.choice([0, 1]))
    cells = [(x0 + W * cx, y0 + H * cy) for cx in (0.25, 0.75) for cy in (0.25, 0.75)]
    rng.shuffle(cells)
    cw, ch = W * 0.15, H * 0.15
    feats = []
    kinds = ["coil", rng.choice(["magnet", "bar"]), "iron", rng.choice(["point", "bar", "magnet", "none"])]
    for (cx, cy), what in zip(cells, kinds):
        if what == "coil":
            grp = rng.choice([0, 3])
            B.rect(cx - cw, cy - ch, cx + cw, cy + ch, {k: dict(group=grp) for k in "brtl"})
            for q in p["points"][-4:]:
                q["group"] = grp
            B.label(cx, cy, copper, maxarea=d / 1.5, circuit=coil, turns=rng.choice([1, 10, -25, 100]), group=grp)
        elif what == "bar":
            B.rect(cx - cw, cy - ch * 0.5, cx + cw, cy + ch * 0.5)
            B.label(cx, cy, bar, maxarea=-1, circuit=par, turns=1, group=4)
        elif what == "magnet":
            B.rect(cx - cw * 0.6, cy - ch, cx + cw * 0.6, cy + ch, dict(t=dict(hidden=rng.choice([0, 1]))))
            B.label(cx, cy, magnet, maxarea=d / 2, magdir=rng.choice([0.0, 90.0, -45.0, 180.0, 30.5]), group=5)
        elif what == "iron":
            r = min(cw, ch) * 1.2
            maxseg = rng.choice([5.0, 10.0, 20.0])
            a = B.point(cx - r, cy)
            b = B.point(cx + r, cy)
            B.arc(a, b, 180.0, maxseg=maxseg, group=6)
            B.arc(b, a, 180.0, maxseg=maxseg, hidden=0, group=6, bdry=0)
            B.label(cx, cy, iron, maxarea=d / 1.5, group=6)
        elif what == "point":
            B.point(cx, cy, prop=rng.choice([pI, pA]), group=2)
        feats.append(what)
    if outer and axi:
        # axisymmetric exterior region (Kelvin transformation): flagged on the air label only
        # (the centre of the exterior region is kept far away from the drawing: its mapping is singular there)
        p["extZo"], p["extRo"], p["extRi"] = y1 + 2.0 * W, W * 1.0, W * 0.75
        p["labels"][0]["external"] = 1
        for l in p["labels"][1:]:
            m = p["blockprops"][l["block"] - 1]
            if m.get("mu_x", 1) == m.get("mu_y", 1) and not m.get("bh") and not l.get("circuit", 0) and not m.get("H_c"):
                l["external"] = 1          # a second label of the exterior region, attached by its own command
                break
        feats.append("outer-space")
    if rng.random() < 0.5:
        k = rng.randrange(len(p["labels"]))
        p["labels"][k]["external"] = p["labels"][k].get("external", 0) | 2      # the default block label
        feats.append("default-label")
    p["features"] = ["mag-cells"] + feats + ["axi" if axi else "planar", p["units"], "bh" if use_bh else "linear"]
    return p


def add_outer_space(p, rng):
    """axisymmetric electrostatics / heat flow: an exterior region (xi_defineouterspace) with up to two labels attached to it
    (xi_attachouterspace); the centre of the region is far from the drawing"""
    if p.get("problemtype") != "axisymmetric" or not p.get("labels"):
        return p
    ys = [q["y"] for q in p["points"]]
    xs = [q["x"] for q in p["points"]]
    W = max(xs) - min(xs)
    iso = []
    for l in p["labels"]:
        m = p["blockprops"][l["block"] - 1]
        a, b = (m.get("ex", 1), m.get("ey", 1)) if p["kind"] == "fee" else (m.get("kx", 1), m.get("ky", 1))
        if a == b and not m.get("tk"):
            iso.append(l)
    if not iso:
        return p
    p["extZo"], p["extRo"], p["extRi"] = max(ys) + 3.0 * W, W * 1.5, W * 1.0
    # (a problem whose elements are ALL in the exterior region crashes [eh]pproc on loading the solution, on both routes:
    #  HPProc/ESPProc::OpenDocument take getMeshElement(<number of external elements>); reported separately)
    for l in iso[:min(2, len(p["labels"]) - 1)]:
        l["external"] = l.get("external", 0) | 1
    if not any(l.get("external", 0) & 1 for l in p["labels"]):
        del p["extZo"], p["extRo"], p["extRi"]
        return p
    p.setdefault("features", []).append("outer-space")
    return p


def arc_features(p):
    return any(a.get("bdry", 0) or a.get("cond", 0) or a.get("group", 0) or a.get("hidden", 0) for a in p.get("arcs", []))


def heat_arc_props(p):
    """a heat-flow arc whose properties must be set by hi_setarcsegmentprop"""
    return p["kind"] == "feh" and any(a.get("bdry", 0) or a.get("cond", 0) or a.get("group", 0) or a.get("hidden", 0)
                                      for a in p.get("arcs", []))


def ensure_well_posed(p):
    """The geometry families of geomgen were written for the mesher: a drawing may end up without any fixed potential
    (only homogeneous Neumann / mixed conditions), for which the solvers iterate for ever.  Give such a problem a fixed
    boundary condition on its first outer segment (or arc)."""
    kind = p["kind"]
    bd = p.get("bdryprops", [])
    ents = p.get("segments", []) + p.get("arcs", []) + p.get("points", [])

    def fixes(i):
        if not (0 < i <= len(bd)):
            return False
        b = bd[i - 1]
        if b.get("type", 0) == 0:
            return True
        if kind == "fee":
            return b.get("type") == 1 and b.get("c0", 0) != 0
        if kind == "feh":
            return b.get("type") == 2 and b.get("h", 0) != 0
        return False
    if any(fixes(e.get("bdry", 0)) for e in p.get("segments", []) + p.get("arcs", [])):
        return p
    if kind != "fem" and any(e.get("cond", 0) and p["circuits"][e["cond"] - 1].get("type", 1) == 1 for e in ents):
        return p
    fixed = [i + 1 for i, b in enumerate(bd) if b.get("type", 0) == 0]
    if not fixed:
        bd.append(dict(name="fixed0", type=0))
        fixed = [len(bd)]
    target = (p.get("segments") or p.get("arcs"))[0]
    target["bdry"] = fixed[0]
    target.pop("cond", None)
    p.setdefault("features", []).append("bc-added")
    return p


def normalise(p):
    """What the Lua command set of xfemm cannot express is removed from the problem (both routes see the same):
    [DoSmartMesh] (no smartmesh command), the comment (no command)."""
    p = copy.deepcopy(p)
    p.pop("dosmartmesh", None)
    p["comment"] = ""
    p.setdefault("units", "millimeters")
    p.setdefault("problemtype", "planar")
    p.setdefault("depth", 1.0)
    p.setdefault("precision", 1e-8)
    p.setdefault("minangle", 30)
    return ensure_well_posed(p)


# ----------------------------------------------------------------------------------------------
# Lua script generation
# ----------------------------------------------------------------------------------------------
def lnum(x):
    if isinstance(x, int) and not isinstance(x, bool):
        return "%d" % x
    return "%.17g" % x


def lstr(s):
    return '"' + s.replace("\\", "\\\\").replace('"', '\\"') + '"'


PRELUDE = ['function out(tag, ...)', '  local s = "R " .. tag', '  for i = 1, arg.n do',
           '    if arg[i] == nil then s = s .. " nil"',
           '    elseif type(arg[i]) == "number" then s = s .. " " .. format("%.17g", arg[i])',
           '    else s = s .. " " .. tostring(arg[i]) end', '  end', '  print(s)', 'end']


def canon(n):
    c = n.replace("_", "")
    if c.endswith("analyse"):
        c = c[:-7] + "analyze"
    return c


class Speller:
    """Alternates between the registered spellings of each command (from the regenerated table)."""

    def __init__(self, table_rows):
        self.variants = {}
        for n, h, f in table_rows:
            self.variants.setdefault(canon(n), []).append(n)
        for k in self.variants:
            self.variants[k].sort(key=lambda s: (s.count("_"), "analyse" in s, s))
        self.count = {}          # name -> times used
        self.turn = {}

    def registered(self, name):
        return name in self.variants.get(canon(name), [])

    def __call__(self, base):
        v = self.variants.get(canon(base))
        if not v:
            self.count[base] = self.count.get(base, 0) + 1
            return base          # not registered: the script will fail there (reported by the caller)
        k = self.turn.get(canon(base), 0)
        self.turn[canon(base)] = k + 1
        name = v[k % len(v)]
        self.count[name] = self.count.get(name, 0) + 1
        return name

    def usage(self):
        plain = {n: c for n, c in self.count.items() if n.count("_") <= (1 if n[2:3] == "_" else 0) and "analyse" not in n}
        other = {n: c for n, c in self.count.items() if n not in plain}
        return plain, other


def arc_mid(p, a):
    """midpoint of the arc n0 -> n1 (counter-clockwise, angle in degrees), as FemmProblem::getCircle places it"""
    q0, q1 = p["points"][a["n0"]], p["points"][a["n1"]]
    a0 = complex(q0["x"], q0["y"])
    a1 = complex(q1["x"], q1["y"])
    d = abs(a1 - a0)
    tta = a["angle"] * math.pi / 180.0
    t = (a1 - a0) / d
    R = d / (2.0 * math.sin(tta / 2.0))
    c = a0 + (d / 2.0 + 1j * math.sqrt(max(R * R - d * d / 4.0, 0.0))) * t
    m = c + (a0 - c) * complex(math.cos(tta / 2.0), math.sin(tta / 2.0))
    return m.real, m.imag


def name_of(lst, idx, none="<None>"):
    return lst[idx - 1]["name"] if idx and 0 < idx <= len(lst) else none


def arc_plain(a):
    return not (a.get("bdry", 0) or a.get("cond", 0) or a.get("group", 0) or a.get("hidden", 0))


MODIFY = {
    # per kind and property class: [(propnum of xi_modify*, key in the problem dict, default, is integer)]  (FEMM 4.2 manual numbering)
    ("fem", "blockprops"): [(1, "mu_x", 1, 0), (2, "mu_y", 1, 0), (3, "H_c", 0, 0), (4, "J_re", 0, 0), (5, "sigma", 0, 0), (6, "d_lam", 0, 0),
                            (7, "phi_h", 0, 0), (10, "phi_hx", 0, 0), (11, "phi_hy", 0, 0), (12, "nstrands", 0, 1)],
    # (13, WireD, is probed on its own: finding C17-4)
    ("fem", "bdryprops"): [(1, "A_0", 0, 0), (2, "A_1", 0, 0), (3, "A_2", 0, 0), (4, "Phi", 0, 0), (5, "Mu_ssd", 0, 0), (6, "Sigma_ssd", 0, 0),
                           (7, "c0", 0, 0), (8, "c1", 0, 0)],
    ("fem", "pointprops"): [(1, "A_re", 0, 0), (2, "I_re", 0, 0)],
    ("fem", "circuits"): [(1, "amps_re", 0, 0)],
    ("fee", "blockprops"): [(1, "ex", 1, 0), (2, "ey", 1, 0), (3, "qv", 0, 0)],
    ("fee", "bdryprops"): [(1, "V", 0, 0), (2, "qs", 0, 0), (3, "c0", 0, 0), (4, "c1", 0, 0)],
    ("fee", "pointprops"): [(1, "V", 0, 0), (2, "q", 0, 0)],
    ("fee", "circuits"): [(1, "V", 0, 0), (2, "q", 0, 0)],
    ("feh", "blockprops"): [(1, "kx", 1, 0), (2, "ky", 1, 0), (3, "qv", 0, 0), (4, "kt", 0, 0)],
    ("feh", "bdryprops"): [(2, "Tset", 0, 0), (3, "qs", 0, 0), (4, "Tinf", 0, 0), (5, "h", 0, 0), (6, "beta", 0, 0)],
    ("feh", "pointprops"): [(1, "V", 0, 0), (2, "q", 0, 0)],
    # hi_modifyconductorprop numbers its fields (1 type, 2 Tc, 3 qc) unlike ei_ and the FEMM manual (1 Tc, 2 qc, 3 type): not used
}
MODIFY_CMD = {"blockprops": "modifymaterial", "bdryprops": "modifyboundprop", "pointprops": "modifypointprop"}
DELETE_CMD = {"blockprops": "deletematerial", "bdryprops": "deleteboundprop", "pointprops": "deletepointprop"}
JUNK = "zz junk"
POSTLUDE = "-- postlude: commands outside the model's script_of"


def vary_prop(p, key, item, vary):
    """(item to pass to the add command, modify lines): one field is first given a wrong value and then corrected by xi_modify*"""
    kind = p["kind"]
    fields = MODIFY.get((kind, key))
    if vary is None or not fields or vary.random() > 0.45:
        return item, None
    num, fkey, dflt, isint = vary.choice(fields)
    true = item.get(fkey, dflt)
    wrong = dict(item)
    wrong[fkey] = (true + 1) if isint else (true + 1.5 if true == 0 else true * 3.0)
    return wrong, (num, true)


class Cmds(list):
    """script lines; .canonical = the same commands in the plain order (properties first)"""
    canonical = None


# property lists whose tail may be defined after use (names given to entities before the property exists)
LATE_KEYS = ("pointprops", "bdryprops", "blockprops", "circuits")


def build_commands(p, sp, tag, newdoc_form=0, vary=None):
    """Lua lines that build problem p from scratch; `expect` = {tag: values the select commands must return}.
    vary: random source for the detours through xi_modify*, xi_delete* and xi_setgroup (None: the plain script)."""
    kind = p["kind"]
    pi, po = PRE[kind]
    L, expect = Cmds(), {}
    # "define after use": with vary, the tail of a property list may be defined only after the entities were given
    # those property names (names are resolved when the property appears).  L.canonical keeps the plain order
    # (what the model's script_of renders); the late lines are run after the assignments.
    L.canonical = []
    late_lines = []

    class Both(object):
        """appends go to the script and to the canonical order"""
        def append(self, line, late=False):
            L.canonical.append(line)
            (late_lines if late else L).append(line)
    LL = Both()

    def call(base, *args):
        return "%s(%s)" % (sp(base), ", ".join(args))
    forms = ["newdocument(%d)" % DOCTYPE[kind], "new_document(%d)" % DOCTYPE[kind], "create(%d)" % DOCTYPE[kind],
             "%s_newdocument()" % pi, "%s_new_document()" % pi]
    f = forms[newdoc_form % len(forms)]
    sp.count[f.split("(")[0]] = sp.count.get(f.split("(")[0], 0) + 1
    LL.append(f)
    units = lstr(LUA_UNIT[p.get("units", "millimeters")])
    typ = lstr("axi" if p.get("problemtype") == "axisymmetric" else "planar")
    if kind == "fem":
        LL.append(call(pi + "_probdef", lnum(p.get("frequency", 0)), units, typ, lnum(p.get("precision", 1e-8)), lnum(p.get("depth", 1)),
                      lnum(p.get("minangle", 30)), "0"))
    elif kind == "fee":
        LL.append(call(pi + "_probdef", units, typ, lnum(p.get("precision", 1e-8)), lnum(p.get("depth", 1)), lnum(p.get("minangle", 30))))
    else:
        LL.append(call(pi + "_probdef", units, typ, lnum(p.get("precision", 1e-8)), lnum(p.get("depth", 1)), lnum(p.get("minangle", 30)),
                      lstr(p.get("prevsoln", "")), lnum(p.get("dt", 0))))
    if p.get("problemtype") == "axisymmetric" and "extRo" in p:
        LL.append(call(pi + "_defineouterspace", lnum(p["extZo"]), lnum(p["extRo"]), lnum(p["extRi"])))
    # properties, in file order: point, boundary, block, circuit/conductor
    pi_mod = {"circuits": "modifycircprop" if kind == "fem" else "modifyconductorprop"}
    pi_del = {"circuits": "deletecircuit" if kind == "fem" else "deleteconductor"}

    def add_line(key, it):
        if key == "pointprops":
            if kind == "fem":
                return call(pi + "_addpointprop", lstr(it["name"]), cplx(it.get("A_re", 0), it.get("A_im", 0)), cplx(it.get("I_re", 0), it.get("I_im", 0)))
            return call(pi + "_addpointprop", lstr(it["name"]), lnum(it.get("V", 0)), lnum(it.get("q", 0)))
        if key == "bdryprops":
            if kind == "fem":
                return call(pi + "_addboundprop", lstr(it["name"]), lnum(it.get("A_0", 0)), lnum(it.get("A_1", 0)), lnum(it.get("A_2", 0)),
                            lnum(it.get("Phi", 0)), lnum(it.get("Mu_ssd", 0)), lnum(it.get("Sigma_ssd", 0)),
                            cplx(it.get("c0", 0), it.get("c0i", 0)), cplx(it.get("c1", 0), it.get("c1i", 0)), "%d" % it.get("type", 0))
            if kind == "fee":
                return call(pi + "_addboundprop", lstr(it["name"]), lnum(it.get("V", 0)), lnum(it.get("qs", 0)), lnum(it.get("c0", 0)),
                            lnum(it.get("c1", 0)), "%d" % it.get("type", 0))
            return call(pi + "_addboundprop", lstr(it["name"]), "%d" % it.get("type", 0), lnum(it.get("Tset", 0)), lnum(it.get("qs", 0)),
                        lnum(it.get("Tinf", 0)), lnum(it.get("h", 0)), lnum(it.get("beta", 0)))
        if key == "blockprops":
            if kind == "fem":
                return call(pi + "_addmaterial", lstr(it["name"]), lnum(it.get("mu_x", 1)), lnum(it.get("mu_y", 1)), lnum(it.get("H_c", 0)),
                            cplx(it.get("J_re", 0), it.get("J_im", 0)), lnum(it.get("sigma", 0)), lnum(it.get("d_lam", 0)), lnum(it.get("phi_h", 0)),
                            lnum(it.get("lamfill", 1)), "%d" % it.get("lamtype", 0), lnum(it.get("phi_hx", 0)), lnum(it.get("phi_hy", 0)),
                            "%d" % it.get("nstrands", 0), lnum(it.get("wired", 0)))
            if kind == "fee":
                return call(pi + "_addmaterial", lstr(it["name"]), lnum(it.get("ex", 1)), lnum(it.get("ey", 1)), lnum(it.get("qv", 0)))
            return call(pi + "_addmaterial", lstr(it["name"]), lnum(it.get("kx", 1)), lnum(it.get("ky", 1)), lnum(it.get("qv", 0)), lnum(it.get("kt", 0)))
        if kind == "fem":
            return call(pi + "_addcircprop", lstr(it["name"]), cplx(it.get("amps_re", 0), it.get("amps_im", 0)), "%d" % it.get("type", 1))
        return call(pi + "_addconductorprop", lstr(it["name"]), lnum(it.get("V", 0)), lnum(it.get("q", 0)), "%d" % it.get("type", 1))

    for key in ("pointprops", "bdryprops", "blockprops", "circuits"):
        items = p.get(key, [])
        late_from = len(items)
        if vary is not None and items and key in LATE_KEYS and vary.random() < 0.4:
            late_from = vary.randrange(len(items))           # items[late_from:] are defined after the assignments
            sp.count["(define-after-use:%s)" % key] = sp.count.get("(define-after-use:%s)" % key, 0) + 1
        junk_at = None
        if vary is not None and vary.random() < 0.35:
            junk_at = vary.randrange(len(items) + 1)         # a property that is deleted again (shifts the indices meanwhile)
        for i, it in enumerate(items):
            if junk_at == i:
                LL.append(add_line(key, dict(it, name=JUNK)))
            it2, mod = vary_prop(p, key, it, vary)
            lt = i >= late_from
            LL.append(add_line(key, it2), lt)
            if mod:
                LL.append(call(pi + "_" + MODIFY_CMD.get(key, pi_mod.get(key)), lstr(it["name"]), "%d" % mod[0], lnum(mod[1])), lt)
            if key == "bdryprops" and kind == "fem" and "innerangle" in it:
                LL.append(call(pi + "_modifyboundprop", lstr(it["name"]), "10", lnum(it["innerangle"])), lt)
                LL.append(call(pi + "_modifyboundprop", lstr(it["name"]), "11", lnum(it["outerangle"])), lt)
            if key == "blockprops" and kind == "fem":
                for (bb, hh) in it.get("bh", []):
                    LL.append(call(pi + "_addbhpoint", lstr(it["name"]), lnum(bb), lnum(hh)), lt)
            if key == "blockprops" and kind == "feh":
                for (t, k) in it.get("tk", []):
                    LL.append(call(pi + "_addtkpoint", lstr(it["name"]), lnum(t), lnum(k)), lt)
        if junk_at is not None:
            if junk_at == len(items):
                LL.append(add_line(key, dict(items[-1], name=JUNK) if items else dict(name=JUNK)))
            LL.append(call(pi + "_" + DELETE_CMD.get(key, pi_del.get(key)), lstr(JUNK)))
    # geometry
    pts = p.get("points", [])
    for q in pts:
        LL.append(call(pi + "_addnode", lnum(q["x"]), lnum(q["y"])))
    for s in p.get("segments", []):
        a, b = pts[s["n0"]], pts[s["n1"]]
        LL.append(call(pi + "_addsegment", lnum(a["x"]), lnum(a["y"]), lnum(b["x"]), lnum(b["y"])))
    for a in p.get("arcs", []):
        q0, q1 = pts[a["n0"]], pts[a["n1"]]
        LL.append(call(pi + "_addarc", lnum(q0["x"]), lnum(q0["y"]), lnum(q1["x"]), lnum(q1["y"]), lnum(a["angle"]), lnum(a.get("maxseg", 10))))
    for h in p.get("holes", []):
        LL.append(call(pi + "_addblocklabel", lnum(h["x"]), lnum(h["y"])))
    for l in p.get("labels", []):
        LL.append(call(pi + "_addblocklabel", lnum(l["x"]), lnum(l["y"])))
    # assignments: select + set*prop + clearselected for every entity; the select commands return the
    # coordinates of what they selected (checked against the intended entity)
    circ = p.get("circuits", [])
    for i, q in enumerate(pts):
        t = "%s_sn%d" % (tag, i)
        LL.append('out("%s", %s)' % (t, call(pi + "_selectnode", lnum(q["x"]), lnum(q["y"]))))
        expect[t] = [q["x"], q["y"]]
        args = [lstr(name_of(p.get("pointprops", []), q.get("prop", 0))), "%d" % q.get("group", 0)]
        if kind != "fem":
            args.append(lstr(name_of(circ, q.get("cond", 0))))
        LL.append(call(pi + "_setnodeprop", *args))
        LL.append(call(pi + "_clearselected"))
    for i, s in enumerate(p.get("segments", [])):
        a, b = pts[s["n0"]], pts[s["n1"]]
        t = "%s_ss%d" % (tag, i)
        LL.append('out("%s", %s)' % (t, call(pi + "_selectsegment", lnum((a["x"] + b["x"]) / 2), lnum((a["y"] + b["y"]) / 2))))
        expect[t] = [a["x"], a["y"], b["x"], b["y"]]
        ms = s.get("maxside", -1)
        args = [lstr(name_of(p.get("bdryprops", []), s.get("bdry", 0))), lnum(ms if ms > 0 else 0), "1" if ms <= 0 else "0",
                "%d" % s.get("hidden", 0), "%d" % s.get("group", 0)]
        if kind != "fem":
            args.append(lstr(name_of(circ, s.get("cond", 0))))
        LL.append(call(pi + "_setsegmentprop", *args))
        LL.append(call(pi + "_clearselected"))
    for i, a in enumerate(p.get("arcs", [])):
        if kind == "feh" and arc_plain(a) and not sp.registered("hi_setarcsegmentprop"):
            continue             # finding C17-1: nothing to set, and the command does not exist
        q0, q1 = pts[a["n0"]], pts[a["n1"]]
        mx, my = arc_mid(p, a)
        t = "%s_sa%d" % (tag, i)
        LL.append('out("%s", %s)' % (t, call(pi + "_selectarcsegment", lnum(mx), lnum(my))))
        expect[t] = [q0["x"], q0["y"], q1["x"], q1["y"]]
        args = [lnum(a.get("maxseg", 10)), lstr(name_of(p.get("bdryprops", []), a.get("bdry", 0))), "%d" % a.get("hidden", 0), "%d" % a.get("group", 0)]
        if kind != "fem":
            args.append(lstr(name_of(circ, a.get("cond", 0))))
        LL.append(call(pi + "_setarcsegmentprop", *args))
        LL.append(call(pi + "_clearselected"))
    for i, h in enumerate(p.get("holes", [])):
        t = "%s_sh%d" % (tag, i)
        LL.append('out("%s", %s)' % (t, call(pi + "_selectlabel", lnum(h["x"]), lnum(h["y"]))))
        expect[t] = [h["x"], h["y"]]
        if kind == "fem":
            LL.append(call(pi + "_setblockprop", lstr("<No Mesh>"), "1", "0", lstr("<None>"), "0", "%d" % h.get("group", 0), "1"))
        else:
            LL.append(call(pi + "_setblockprop", lstr("<No Mesh>"), "1", "0", "%d" % h.get("group", 0)))
        LL.append(call(pi + "_clearselected"))
    for i, l in enumerate(p.get("labels", [])):
        t = "%s_sl%d" % (tag, i)
        LL.append('out("%s", %s)' % (t, call(pi + "_selectlabel", lnum(l["x"]), lnum(l["y"]))))
        expect[t] = [l["x"], l["y"]]
        dd = l.get("maxarea", -1)
        blk = lstr(name_of(p.get("blockprops", []), l.get("block", 1), "<No Mesh>"))
        if kind == "fem":
            LL.append(call(pi + "_setblockprop", blk, "1" if dd <= 0 else "0", lnum(dd if dd > 0 else 0), lstr(name_of(circ, l.get("circuit", 0))),
                          lnum(l.get("magdir", 0)), "%d" % l.get("group", 0), "%d" % l.get("turns", 1)))
        else:
            LL.append(call(pi + "_setblockprop", blk, "1" if dd <= 0 else "0", lnum(dd if dd > 0 else 0), "%d" % l.get("group", 0)))
        ext = l.get("external", 0)
        if ext & 1:
            LL.append(call(pi + "_attachouterspace"))
        if ext & 2:
            LL.append(call(pi + "_attachdefault"))
        LL.append(call(pi + "_clearselected"))
    L.extend(late_lines)
    if vary is not None:
        # xi_setgroup(n): "set the group of the selected items to n" (and unselects them): away and back again
        LL.append(POSTLUDE)
        labs = p.get("labels", [])
        if len(labs) >= 2:
            # detours through the "there is exactly one default label" / "outer-space flag per label" book-keeping: the default is
            # first attached to ANOTHER label (the later xi_attachdefault on the right one must take it away again), and the
            # outer-space flag is attached to a label that is not exterior and detached again
            dflt = [k for k, l in enumerate(labs) if l.get("external", 0) & 2]
            if dflt and vary.random() < 0.6:
                others = [k for k in range(len(labs)) if k != dflt[0]]
                o = labs[others[vary.randrange(len(others))]]
                LL.append(call(pi + "_selectlabel", lnum(o["x"]), lnum(o["y"])))
                LL.append(call(pi + "_attachdefault"))
                LL.append(call(pi + "_clearselected"))
                r = labs[dflt[0]]
                LL.append(call(pi + "_selectlabel", lnum(r["x"]), lnum(r["y"])))
                LL.append(call(pi + "_attachdefault"))
                LL.append(call(pi + "_clearselected"))
            elif not dflt and vary.random() < 0.3:
                o = labs[vary.randrange(len(labs))]
                LL.append(call(pi + "_selectlabel", lnum(o["x"]), lnum(o["y"])))
                LL.append(call(pi + "_attachdefault"))
                LL.append(call(pi + "_clearselected"))
                LL.append(call(pi + "_selectlabel", lnum(o["x"]), lnum(o["y"])))
                LL.append(call(pi + "_detachdefault"))
                LL.append(call(pi + "_clearselected"))
            inner = [k for k, l in enumerate(labs) if not (l.get("external", 0) & 1)]
            if inner and vary.random() < 0.3:
                o = labs[inner[vary.randrange(len(inner))]]
                LL.append(call(pi + "_selectlabel", lnum(o["x"]), lnum(o["y"])))
                LL.append(call(pi + "_attachouterspace"))
                LL.append(call(pi + "_clearselected"))
                LL.append(call(pi + "_selectlabel", lnum(o["x"]), lnum(o["y"])))
                LL.append(call(pi + "_detachouterspace"))
                LL.append(call(pi + "_clearselected"))
        picks = []
        if pts:
            picks.append(("_selectnode", pts[vary.randrange(len(pts))], None))
        if p.get("segments"):
            sgm = p["segments"][vary.randrange(len(p["segments"]))]
            a, b = pts[sgm["n0"]], pts[sgm["n1"]]
            picks.append(("_selectsegment", dict(x=(a["x"] + b["x"]) / 2, y=(a["y"] + b["y"]) / 2, group=sgm.get("group", 0)), None))
        if p.get("labels"):
            picks.append(("_selectlabel", p["labels"][vary.randrange(len(p["labels"]))], None))
        for cmd, ent, _ in picks:
            for g in (97, ent.get("group", 0)):
                LL.append(call(pi + cmd, lnum(ent["x"]), lnum(ent["y"])))
                LL.append(call(pi + "_setgroup", "%d" % g))
    return L, expect


def cplx(re, im):
    if im == 0:
        return lnum(re)
    return "Complex(%s, %s)" % (lnum(re), lnum(im))


def query_lines(kind, queries, sp, tag):
    """the post-processing queries, both spellings alternating; tags <tag>_q<k>"""
    pi, po = PRE[kind]
    L = []

    def call(base, *args):
        return "%s(%s)" % (sp(base), ", ".join(args))
    for k, q in enumerate(queries):
        t = "%s_q%d" % (tag, k)
        if q[0] == "point":
            L.append('out("%s", %s)' % (t, call(po + "_getpointvalues", lnum(q[1]), lnum(q[2]))))
        elif q[0] == "block":
            L.append(call(po + "_clearblock"))
            for (x, y) in q[1]:
                L.append(call(po + "_selectblock", lnum(x), lnum(y)))
            L.append('out("%s", %s)' % (t, call(po + "_blockintegral", "%d" % q[2])))
            L.append(call(po + "_clearblock"))
        elif q[0] == "cond":
            fn = "mo_getcircuitproperties" if kind == "fem" else po + "_getconductorproperties"
            L.append('out("%s", %s)' % (t, call(fn, lstr(q[1]))))
        elif q[0] == "line":
            L.append(call(po + "_clearcontour"))
            for (x, y) in q[1]:
                L.append(call(po + "_addcontour", lnum(x), lnum(y)))
            L.append('out("%s", %s)' % (t, call(po + "_lineintegral", "%d" % q[2])))
            L.append(call(po + "_clearcontour"))
        elif q[0] == "nodes":
            L.append('out("%s", %s, %s)' % (t, call(po + "_numnodes"), call(po + "_numelements")))
    return L


def extra_lines(kind, sp, tag, node_ids, elem_ids):
    """queries checked against independent oracles only (return order / units): problem info, mesh nodes, elements"""
    pi, po = PRE[kind]
    L = ['out("%s_xinfo", %s())' % (tag, sp(po + "_getprobleminfo"))]
    for n in node_ids:
        L.append('out("%s_xnode%d", %s(%d))' % (tag, n, sp(po + "_getnode"), n))
    for n in elem_ids:
        L.append('out("%s_xelem%d", %s(%d))' % (tag, n, sp(po + "_getelement"), n))
    return L


AREA_TYPE = {"fee": 1, "feh": 1, "fem": 5}


def group_lines(kind, queries, sp, tag):
    """xo_groupselectblock(n) selects the blocks whose labels are in group n: same integral as selecting them one by one"""
    pi, po = PRE[kind]
    L = []
    for q in queries:
        if q[0] == "block" and len(q) > 3 and q[3] == "group":
            L.append("%s()" % sp(po + "_clearblock"))
            L.append("%s(%d)" % (sp(po + "_groupselectblock"), q[4]))
            L.append('out("%s_gb%d", %s(%d))' % (tag, q[4], sp(po + "_blockintegral"), q[2]))
            L.append("%s()" % sp(po + "_clearblock"))
    return L


def standard_queries(p):
    """point values at every block label and at a few more points, block integrals, conductor/circuit results, mesh size"""
    kind = p["kind"]
    labs = [(l["x"], l["y"]) for l in p.get("labels", [])]
    xs = [q["x"] for q in p["points"]]
    ys = [q["y"] for q in p["points"]]
    x0, x1, y0, y1 = min(xs), max(xs), min(ys), max(ys)
    Q = [("nodes",)]
    for (x, y) in labs:
        Q.append(("point", x, y))
    for (fx, fy) in ((0.31, 0.47), (0.62, 0.21), (0.83, 0.77)):
        Q.append(("point", x0 + (x1 - x0) * fx, y0 + (y1 - y0) * fy))
    types = {"fee": [0, 1, 2], "feh": [0, 1, 2], "fem": [2, 5, 10, 0]}[kind]
    for t in types:
        Q.append(("block", labs[:1], t))
    if len(labs) > 1:
        Q.append(("block", labs, types[0]))
    # (group 0 means "all blocks" to xo_groupselectblock, as calling it without an argument does)
    for g in sorted(set(l.get("group", 0) for l in p.get("labels", []))):
        Q.append(("block", [(l["x"], l["y"]) for l in p["labels"] if g == 0 or l.get("group", 0) == g], AREA_TYPE[kind], "group", g))
    for c in p.get("circuits", []):
        Q.append(("cond", c["name"]))
    # a contour along the lower part of the domain: line integral types 0..2 exist for all three physics
    cy = y0 + (y1 - y0) * 0.37
    for t in ([0, 1] if kind != "fem" else [0, 1]):
        Q.append(("line", [(x0 + (x1 - x0) * 0.1, cy), (x0 + (x1 - x0) * 0.9, cy)], t))
    return Q
