"""C10 — declaring the same drawing in other length units rescales results exactly.
(1) every unit table of the sources is regenerated into coq/theories/gen/Tables.v and proved
consistent with the SI definitions (Units.v / UnitsProofs.v, vm_compute over the finite tables);
(2) dimensional scaling law of the assembled element equations proved on the electrostatics model;
(3) paired real runs: the same numbers declared in two units -> identical mesh, results related by
the known powers of the length ratio for each class of excitation."""
import os, json, math, copy
import vlib, femgen, femmrun, translate_tables
from femgen import Builder, mesh_diameter, UNIT_M

# theorems about the axisymmetric magnetics model AsmMAxi.v that belong to this property (the model is tied to the code by C05 / C11: props/xaxi.py)
EXTRA_PROPERTY_FILES = ["C10_axi"]
LEVEL = "proof"
COQ_MODULES = ["Units"]
ASSUMPTIONS = [
    "scaling theorems are proved for the electrostatics element model (AsmE); heat and magnetics rest on the paired runs and on their own assembly checks (C04, C05)",
    "paired runs compare to 2e-5 relative (solver precision 1e-8, different conditioning in different units)",
]


def regen(ctx):
    changed, tables, order = translate_tables.regen(ctx.snap.src)
    ctx.unit_tables = tables


# ------------------------------------------------------------------------------------------
def gen_single_excitation(rng, kind, cls, axi, nonlinear=False):
    B = Builder(kind)
    p = B.p
    p["problemtype"] = "axisymmetric" if axi else "planar"
    p["depth"] = rng.choice([1.0, 2.5, 7.0])
    p["precision"] = 1e-8
    p["minangle"] = 30
    p["dosmartmesh"] = 0
    W, H = rng.choice([2.0, 3.0, 4.0]), rng.choice([1.5, 2.0, 3.0])
    x0 = rng.choice([0.5, 1.0]) if axi else rng.choice([-1.0, 0.0])
    if axi and kind == "fem":
        x0 = rng.choice([0.0, 0.25])            # conductor close to the axis: mesh nodes with 0 < r < 1 unit
    y0 = rng.choice([-0.5, 0.0])
    d = mesh_diameter(W * H / 70)
    if kind == "fee":
        m1 = B.prop("blockprops", name="m1", ex=rng.choice([1.0, 2.0]), ey=rng.choice([1.0, 3.0]), qv=(rng.choice([1e-3, -2e-3]) if cls == "volume" else 0.0))
        m2 = B.prop("blockprops", name="m2", ex=4.0, ey=4.0, qv=0.0)
        fixA = B.prop("bdryprops", name="fixA", type=0, V=(rng.choice([5.0, -3.0]) if cls == "dirichlet" else 0.0))
        fixB = B.prop("bdryprops", name="fixB", type=0, V=(rng.choice([1.0, 12.0]) if cls == "dirichlet" else 0.0))
        src = B.prop("bdryprops", name="src", type=2, qs=rng.choice([1e-6, -3e-6]))
        cond = B.prop("circuits", name="cond", type=1, V=(rng.choice([2.0, 8.0]) if cls == "dirichlet" else 0.0))
    elif kind == "feh":
        m1 = B.prop("blockprops", name="m1", kx=rng.choice([1.0, 2.0]), ky=rng.choice([1.0, 3.0]), kt=0.0, qv=(rng.choice([1e3, -2e3]) if cls == "volume" else 0.0))
        if nonlinear:
            # temperature-dependent conductivity: several passes of the solver's outer loop; the table does not involve lengths
            p["blockprops"][-1]["tk"] = [(250.0, 1.0), (320.0, 2.0), (420.0, 5.0)]
        m2 = B.prop("blockprops", name="m2", kx=20.0, ky=20.0, kt=0.0, qv=0.0)
        fixA = B.prop("bdryprops", name="fixA", type=0, Tset=(rng.choice([300.0, 350.0]) if cls == "dirichlet" else 0.0))
        fixB = B.prop("bdryprops", name="fixB", type=0, Tset=(rng.choice([280.0, 400.0]) if cls == "dirichlet" else 0.0))
        src = B.prop("bdryprops", name="src", type=1, qs=rng.choice([100.0, -50.0]))
        cond = B.prop("circuits", name="cond", type=1, V=(rng.choice([310.0, 330.0]) if cls == "dirichlet" else 0.0))
    else:
        m1 = B.prop("blockprops", name="m1", mu_x=rng.choice([1.0, 10.0]), mu_y=rng.choice([1.0, 5.0]), J_re=(rng.choice([1.0, -0.5]) if cls == "volume" else 0.0))
        m2 = B.prop("blockprops", name="m2", mu_x=100.0, mu_y=100.0)
        fixA = B.prop("bdryprops", name="fixA", type=0, A_0=(rng.choice([1e-3, -2e-3]) if cls == "dirichlet" else 0.0))
        fixB = B.prop("bdryprops", name="fixB", type=0, A_0=0.0)
        if cls == "dirichlet" and not axi and rng.random() < 0.7:
            # position-dependent prescribed potential A0 + A1 x + A2 y (cartesian) or A0 + A1 r + A2 theta (polar; the file
            # keyword only - no Lua command sets it): coordinates are in the DECLARED unit, so the boundary values - and with them
            # the whole solution - are the same numbers in every unit
            p["bdryprops"][fixA - 1].update(A_1=rng.choice([2e-4, -5e-4]), A_2=rng.choice([1e-4, 3e-4]))
            p["coordinates"] = rng.choice(["polar", "cartesian", "polar"])
        src = None
        cond = B.prop("circuits", name="cond", type=1, amps_re=(rng.choice([10.0, -4.0]) if cls == "circuit" else 0.0))
    sides = dict(l=dict(bdry=fixA), r=dict(bdry=fixB), b={}, t={})
    if axi and kind == "fem" and x0 == 0.0:
        sides["l"] = {}                          # the axis itself
    if cls == "surface" and src:
        sides["r"] = dict(bdry=src)
    if kind == "fem" or cls == "volume":
        sides["b"] = dict(bdry=fixB); sides["t"] = dict(bdry=fixB)
    B.rect(x0, y0, x0 + W, y0 + H, sides)
    bx0, bx1 = x0 + W * 0.375, x0 + W * 0.625
    if axi and kind == "fem":
        bx0, bx1 = x0 + W * 0.0625, x0 + W * 0.3125
    by0, by1 = y0 + H * 0.375, y0 + H * 0.625
    if kind == "fem":
        B.rect(bx0, by0, bx1, by1)
        B.label((bx0 + bx1) / 2, (by0 + by1) / 2, m2, maxarea=d / 2, circuit=1 if cls == "circuit" else 0, turns=1)
    else:
        B.rect(bx0, by0, bx1, by1, {k: dict(cond=cond) for k in "brtl"})
        for q in p["points"][-4:]:
            q["cond"] = cond
        p["holes"].append(dict(x=(bx0 + bx1) / 2, y=(by0 + by1) / 2))
    B.label(x0 + W * 0.125, y0 + H * 0.125, m1, maxarea=d)
    main_label = p["labels"][-1]
    # a block of the second material, off centre, inside a box of free space (the weighted-stress-tensor integrals accept only
    # blocks surrounded by free space): field integrals, force and torque on it
    if kind == "fee":
        air = B.prop("blockprops", name="air", ex=1.0, ey=1.0, qv=0.0)
    elif kind == "feh":
        air = B.prop("blockprops", name="air", kx=0.5, ky=0.5, kt=0.0, qv=0.0)
    else:
        air = B.prop("blockprops", name="air", mu_x=1.0, mu_y=1.0)
    ax0, ax1, ay0, ay1 = x0 + W * 0.7, x0 + W * 0.875, y0 + H * 0.125, y0 + H * 0.3125
    B.rect(x0 + W * 0.65625, y0 + H * 0.0625, x0 + W * 0.9375, y0 + H * 0.40625)
    B.label(x0 + W * 0.671875, y0 + H * 0.078125, air, maxarea=d / 2)
    B.rect(ax0, ay0, ax1, ay1)
    B.label((ax0 + ax1) / 2, (ay0 + ay1) / 2, m2, maxarea=d / 2)
    p["bar"] = ((ax0 + ax1) / 2, (ay0 + ay1) / 2)
    p["features"] = [kind, cls, "axi" if axi else "planar"] + (["nonlinear"] if nonlinear else []) + (
        ["A(x,y)-" + p["coordinates"]] if "coordinates" in p else [])
    p["probe"] = [(x0 + W * 0.2, y0 + H * 0.3), (x0 + W * 0.8, y0 + H * 0.7), (x0 + W * 0.5, y0 + H * 0.15)]
    p["lab"] = (x0 + W * 0.125, y0 + H * 0.125)
    p["inner"] = ((bx0 + bx1) / 2, (by0 + by1) / 2)
    if axi and kind == "fem":
        main_label["x"] = x0 + W * 0.5
        p["lab"] = (x0 + W * 0.5, y0 + H * 0.125)
    return p


KV = {"dirichlet": 0, "volume": 2, "surface": 1, "circuit": 0}


def exponents(kind, cls, query, axi=False):
    k = KV[cls]
    if query[0] == "point":
        if kind == "fee":      # V, Dx, Dy, Ex, Ey, ex, ey, nrg
            return [k, k - 1, k - 1, k - 1, k - 1, 0, 0, 2 * (k - 1)]
        if kind == "feh":      # T, Fx, Fy, Gx, Gy, kx, ky
            return [k, k - 1, k - 1, k - 1, k - 1, 0, 0]
        # A, B1, B2, Sig, E, H1, H2, Je, Js, Mu1, Mu2, Pe, Ph, ff
        js = -2 if cls == "circuit" else 0
        # axisymmetric problems report the flux 2 pi r A instead of A
        return [k + 1 if axi else k, k - 1, k - 1, 0, 2 * (k - 1), k - 1, k - 1, None, js, 0, 0, None, None, None]
    if query[0] == "block":
        t = query[2]
        # force by the weighted stress tensor: stress ~ s^(2(k-1)), grad(weight) ~ 1/s, dV ~ s^3; torque has one more power
        fo, tq = 2 * (k - 1) + 2, 2 * (k - 1) + 3
        if kind == "fee":      # 3 / 4: averages of D / E over the volume; 5: force; 6: torque
            return {0: [2 * (k - 1) + 3, None], 1: [2, None], 2: [3, None], 3: [k - 1, k - 1], 4: [k - 1, k - 1], 5: [fo, fo], 6: [tq]}[t]
        if kind == "feh":      # 3 / 4: average F / G over the volume
            return {0: [k, None], 1: [2, None], 2: [3, None], 3: [k - 1, k - 1], 4: [k - 1, k - 1]}[t]
        # 0: int A.J dV, 1: int A dV, 2: energy, 5: area, 10: volume, 18 / 19: force x / y, 22: torque (weighted stress tensor)
        return {0: [2 * (k - 1) + 3, None], 1: [k + 3, None], 2: [2 * (k - 1) + 3, None], 5: [2, None], 10: [3, None],
                18: [fo], 19: [fo], 22: [tq]}[t]
    if query[0] == "cond":
        if kind == "fem":      # current, voltage drop, flux linkage
            return [0, None, k + 1]
        return [k, k + 1]
    return None


def compare(kind, cls, s, queries, r1, r2, axi=False):
    for qi, q in enumerate(queries):
        tag = "q%d" % qi
        ex = exponents(kind, cls, q, axi)
        a, b = r1.get(tag), r2.get(tag)
        if a is None or b is None or len(a) != len(b):
            return "query %r missing in one of the runs" % (q,)
        if q[0] == "nodes":
            if a != b:
                return "mesh differs between the two units: %r nodes/elements vs %r" % (a, b)
            continue
        scale_a = max([abs(x) for x in a if isinstance(x, float)] + [1e-300])
        for ci, (x, y) in enumerate(zip(a, b)):
            if ex is None or ci >= len(ex) or ex[ci] is None or not isinstance(x, float):
                continue
            want = x * s ** ex[ci]
            ref = max(abs(want), scale_a * abs(s ** ex[ci]) * 1e-6)
            if not (math.isfinite(x) and math.isfinite(y)):
                return "query %r component %d is not finite: %r in unit 1, %r in unit 2" % (q[:1] + q[2:], ci, x, y)
            if abs(y - want) > 3e-5 * ref:
                return ("query %r component %d: %.12g in unit 1, %.12g in unit 2; expected factor s^%d = %.6g (s=%.6g)"
                        % (q[:1] + q[2:], ci, x, y, ex[ci], s ** ex[ci], s))
    return None


def run_pair(ctx, k, p, u1, u2):
    kind, cls = p["features"][0], p["features"][1]
    blocks = {"fee": [0, 1, 2], "feh": [0, 1, 2], "fem": [2, 5, 10]}[kind]
    queries = [("nodes",)] + [("point", x, y) for (x, y) in p["probe"]] + [("block", [p["lab"]], t) for t in blocks] + [("cond", "cond")]
    if kind == "fem":
        queries += [("block", [p["inner"]], t) for t in (0, 1, 2)]
    # volume integrals of the field, force and torque (weighted stress tensor) on the inner block
    axi = p.get("problemtype") == "axisymmetric"
    more = {"fee": [3, 4, 5] + ([] if axi else [6]), "feh": [3, 4], "fem": [19] + ([] if axi else [18, 22])}[kind]
    queries += [("block", [p["bar"]], t) for t in more]
    out = []
    for tagu, u in (("a", u1), ("b", u2)):
        q = copy.deepcopy(p); q["units"] = u
        wd = os.path.join(ctx.work, "u%d%s" % (k, tagu)); os.makedirs(wd, exist_ok=True)
        r, err = femmrun.run(ctx, q, queries, "prob", workdir=wd)
        if err:
            return None, err, queries
        nodes, elems = femmrun.read_solution(kind, os.path.join(wd, "prob"))
        out.append((r, nodes, elems))
    return out, None, queries


def pair_oracle(p, u1, u2, out, queries):
    kind, cls = p["features"][0], p["features"][1]
    s = UNIT_M[u2] / UNIT_M[u1]
    (r1, n1, e1), (r2, n2, e2) = out
    if e1 != e2 or len(n1) != len(n2):
        return "the mesh is not identical in %s and %s (%d vs %d nodes)" % (u1, u2, len(n1), len(n2))
    axi = p["features"][2] == "axi"
    k = KV[cls] + (1 if (axi and kind == "fem") else 0)      # axisymmetric magnetics stores 2 pi r A
    vmax = max(abs(a[2]) for a in n1) or 1e-300
    for i, (a, b) in enumerate(zip(n1, n2)):
        # x*cf/cf is not the identity in binary64: allow a few ulps
        if not (vlib.close(a[0], b[0], 8, 1e-300) and vlib.close(a[1], b[1], 8, 1e-300)):
            return "node %d reported at %r in %s and %r in %s: coordinates are not in the declared unit" % (i, a[:2], u1, b[:2], u2)
        if not (math.isfinite(a[2]) and math.isfinite(b[2])):
            return "nodal potential %d is not finite: %r (%s), %r (%s)" % (i, a[2], u1, b[2], u2)
        if abs(b[2] - a[2] * s ** k) > 3e-5 * vmax * s ** k:
            return "nodal potential %d: %.12g (%s) vs %.12g (%s), expected factor s^%d" % (i, a[2], u1, b[2], u2, k)
    return compare(kind, cls, s, queries, r1, r2, axi)


def correspond(ctx):
    rng = ctx.rng
    plan = [("fee", "dirichlet", False), ("fee", "volume", False), ("fee", "surface", True), ("feh", "dirichlet", True),
            ("feh", "volume", False), ("fem", "dirichlet", False), ("fem", "volume", False), ("fem", "circuit", False),
            ("feh", "surface", False), ("fee", "dirichlet", True), ("fee", "volume", True),
            ("fem", "circuit", True), ("fem", "volume", True), ("feh", "dirichlet-nl", False), ("feh", "dirichlet-nl", True)]
    if not ctx.quick():
        plan = plan * 5
    feats, samples, n = {}, [], 0
    for k, (kind, cls, axi) in enumerate(plan):
        nl = cls.endswith("-nl")
        cls = cls[:-3] if nl else cls
        p = gen_single_excitation(rng, kind, cls, axi, nonlinear=nl)
        u1, u2 = rng.sample(femgen.UNITS, 2)
        if kind == "fem" and axi:
            # the post-processor's "node on the axis" tests are made in drawing units: pair a coarse unit with a fine one
            u1, u2 = rng.choice(["millimeters", "centimeters", "inches"]), rng.choice(["microns", "mils"]) if k % 2 else "microns"
        for ft in p["features"] + [u1, u2]:
            feats[ft] = feats.get(ft, 0) + 1
        out, err, queries = run_pair(ctx, k, p, u1, u2)
        if err:
            ctx.fail("run failed on a well-formed problem: " + err, problem=p, units=[u1, u2]); continue
        n += 1
        msg = pair_oracle(p, u1, u2, out, queries)
        if msg:
            ctx.fail("unit scaling: " + msg, problem=p, units=[u1, u2])
        if len(samples) < 3:
            samples.append(dict(features=p["features"], units=[u1, u2], nodes=len(out[0][1])))
    # mixed-excitation axisymmetric magnetics (coils, bars, magnets, iron bounded by arcs: meshes with very small
    # elements) declared in a coarse and in a fine unit: same mesh, every potential finite, and -- all sources being
    # currents / magnetisations given per area or as totals -- B-independent quantities aside, A = flux/(2 pi r) must
    # at least stay finite and the run must terminate (absolute tolerances in internal units break this)
    from props import c17_gen
    nmix = 3 if ctx.quick() else 12
    for k in range(nmix):
        p = c17_gen.gen_mag_problem(rng, axi=True, bh=False)
        p["features"] = ["fem", "mixed", "axi"]
        res = {}
        for u in ("millimeters", "microns"):
            q = copy.deepcopy(p); q["units"] = u
            wd = os.path.join(ctx.work, "mix%d%s" % (k, u[:2])); os.makedirs(wd, exist_ok=True)
            r, err = femmrun.run(ctx, q, [("nodes",)], "prob", workdir=wd, timeout=240)
            if err:
                ctx.fail("unit scaling: a problem that solves in millimeters fails in %s: %s" % (u, err[-300:]) if u != "millimeters"
                         else "run failed on a well-formed problem: " + err[-300:], problem=p, units=[u])
                res = None; break
            nodes, elems = femmrun.read_solution("fem", os.path.join(wd, "prob"))
            res[u] = (nodes, elems)
        feats["fem-mixed-axi"] = feats.get("fem-mixed-axi", 0) + 1
        if not res:
            continue
        n += 1
        (n1, e1), (n2, e2) = res["millimeters"], res["microns"]
        if e1 != e2 or len(n1) != len(n2):
            ctx.fail("unit scaling: the mesh is not identical in millimeters and microns", problem=p, units=["millimeters", "microns"])
            continue
        bad = [i for i, a in enumerate(n2) if not math.isfinite(a[2])]
        if bad and all(math.isfinite(a[2]) for a in n1):
            ctx.fail("unit scaling: %d of %d nodal potentials are not finite when the drawing is declared in microns "
                     "(all finite in millimeters)" % (len(bad), len(n2)), problem=p, units=["millimeters", "microns"])
    cov = ctx.res.cov
    cov["evaluations"] = len(plan) + nmix
    cov["distinct_nontrivial"] = n
    cov["rule"] = ("single-excitation problems (fixed potentials / volume source / surface source / circuit current) of the three "
                   "physics, planar and axisymmetric, each declared in two randomly chosen units with the same numbers: meshes "
                   "must be identical, coordinates reported in the declared unit, nodal potentials, point values, block "
                   "integrals and conductor/circuit results related by the proved powers of the length ratio")
    cov["input_distribution"] = feats
    cov["samples"] = samples
    cov["unit_tables"] = getattr(ctx, "unit_tables", {})
    return []
