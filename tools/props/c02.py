"""C02 — the mesh carries materials, boundary conditions and conductors to the right places.
(1) marker codec: Coq round-trip theorems (MarkerProofs.v) for constants regenerated from the
sources; the decode model is compared with the real LoadMesh of the three solvers on hand-made
marker values and on real meshes.  (2) chain problem file -> .poly markers -> Triangle -> mesh
markers -> solver data is checked on generated problems by an oracle and by the verified mesh
validator (region attributes, edge and vertex markers)."""
import os, json, math
import vlib, femgen, meshlib, geomgen, translate_markers
from props import c01
from props import ext as extmod

# node / element renumbering between LoadMesh and assembly (FEASolver::Cuthill, SortNodes, SortElements): model Renumber.v,
# theorems Properties_C02_renumber.v (+ C07 / C08 / C09 parts in their own files), harness h_cuthill.cpp (props/xcm.py)
EXTENSIONS = ["xcm", "xload"]
EXTRA_PROPERTY_FILES = ["C02_renumber", "C02_load", "C02_poly"]

LEVEL = "proof"
COQ_MODULES = ["Marker", "MeshCheck"]
ASSUMPTIONS = [
    "Triangle's propagation of segment markers to the edges it creates is checked on every produced mesh by the validator, not proved",
    "problems with more than 65533 point/boundary properties or 32766 conductors are outside the codec's proved range (refuted beyond it)",
]
HEADER = ("From Coq Require Import ZArith List. Import ListNotations. From XF Require Import Marker MeshCheck. "
          "Local Open Scope Z_scope.")
SOLVER = {"fee": "e", "feh": "h", "fem": "m"}


def regen(ctx):
    changed, consts = translate_markers.regen(ctx.snap.src)
    ctx.marker_consts = consts
    from props import xload
    xload.regen(ctx)          # gen/LoadConsts.v + the anchors of the LoadMesh model


def read_dump(path):
    nodes, elems, status = [], [], None
    for l in open(path):
        t = l.split()
        if t[0] in ("OK", "FAIL"):
            status = l.strip()
        elif t[0] == "NODE":
            nodes.append((int(t[1]), int(t[2])))
        elif t[0] == "ELEM":
            elems.append(tuple(int(x) for x in t[1:9]))
    return status, nodes, elems


def run_loadmesh(ctx, kind, base):
    exe = vlib.build_harness(ctx.snap, "h_loadmesh", libs=("esolver", "hsolver", "fsolver", "femm"))
    dump = base + ".lmdump"
    rc, out, err = vlib.sh([exe, SOLVER[kind], base, dump], timeout=120)
    if not os.path.exists(dump):
        return None, "LoadMesh harness crashed rc=%d %s" % (rc, err[-200:])
    st, nodes, elems = read_dump(dump)
    if not st or not st.startswith("OK"):
        return None, "LoadMesh failed on a well-formed problem: %s" % st
    return (nodes, elems), None


def ozp(v):
    return None if v < 0 else v


def py_dec_pt(n):
    if n > 1:
        j = (n & 0xffff) - 2
        c = (n - (n & 0xffff)) // 0x10000 - 1
        return (ozp(j), ozp(c))
    return (None, None)


def py_dec_seg(n):
    if n < 0:
        m = -n
        j = (m & 0xffff) - 2
        c = (m - (m & 0xffff)) // 0x10000 - 1
        return (ozp(j), ozp(c))
    return (None, None)


def synthetic_case(ctx, kind, marks_pt, marks_seg):
    """a square of two triangles with chosen vertex / edge markers (files written by hand)"""
    B = femgen.Builder(kind)
    ids = geomgen.base_props(B, kind, ctx.rng)
    for k in range(4):                      # 8 boundary props, 5 conductors, 6 point props in total
        B.prop("bdryprops", name="xb%d" % k, type=0)
        B.prop("pointprops", name="xp%d" % k)
        if kind != "fem":
            B.prop("circuits", name="xc%d" % k, type=1)
    B.rect(0.0, 0.0, 1.0, 1.0)
    B.label(0.3, 0.2, 1)
    B.p["problemtype"] = "planar"; B.p["units"] = "meters"
    ext = "." + kind
    f = os.path.join(ctx.work, "syn_%s_%d%s" % (kind, len(os.listdir(ctx.work)), ext))
    femgen.write(B.p, f)
    base = f[:-4]
    pts = [(0.0, 0.0), (1.0, 0.0), (1.0, 1.0), (0.0, 1.0)]
    with open(base + ".node", "w") as fh:
        fh.write("4\t2\t0\t1\n")
        for i, (x, y) in enumerate(pts):
            fh.write("%d\t%.17g\t%.17g\t%d\n" % (i, x, y, marks_pt[i]))
    with open(base + ".ele", "w") as fh:
        fh.write("2\t3\t1\n0\t0\t1\t2\t1\n1\t0\t2\t3\t1\n")
    edges = [(0, 1), (1, 2), (2, 3), (3, 0), (0, 2)]
    with open(base + ".edge", "w") as fh:
        fh.write("5\t1\n")
        for i, (u, v) in enumerate(edges):
            fh.write("%d\t%d\t%d\t%d\n" % (i, u, v, marks_seg[i]))
    with open(base + ".pbc", "w") as fh:
        fh.write("0\n0\n")
    return base, edges


def expected_from_files(kind, nmarks, emarks, T, attr_to_lbl):
    """what LoadMesh must produce according to the decode model (python mirror of Marker.v; the
    Coq model itself is evaluated on the same markers and compared with this mirror)"""
    nodes = []
    for m in nmarks:
        if kind == "fem":
            nodes.append([m - 2 if m > 1 else -1, -1])
        else:
            j, c = py_dec_pt(m)
            nodes.append([-1 if j is None else j, -1 if c is None else c])
    edge_bc = {}
    for (u, v, m) in emarks:
        if kind == "fem":
            j = -(m + 2) if m < 0 else -1
            c = None
        else:
            jj, c = py_dec_seg(m)
            j = -1 if jj is None else jj
        if c is not None and kind != "fem":
            nodes[u][1] = c; nodes[v][1] = c
        if j >= 0:
            edge_bc[frozenset((u, v))] = j
    return nodes, edge_bc


def check_dump(kind, d_nodes, d_elems, nmarks, emarks, T, A, nlabels_default=None):
    exp_nodes, edge_bc = expected_from_files(kind, nmarks, emarks, T, None)
    for i, (en, dn) in enumerate(zip(exp_nodes, d_nodes)):
        if tuple(en) != tuple(dn):
            return "node %d: marker %d decodes (model) to %r but LoadMesh stored %r" % (i, nmarks[i], tuple(en), dn)
    # element edges: every marked edge is carried by at least one adjacent element, nothing else is marked
    carried = set()
    for ei, e in enumerate(d_elems):
        p = e[0:3]
        for k in range(3):
            key = frozenset((p[k], p[(k + 1) % 3]))
            if e[3 + k] >= 0:
                if edge_bc.get(key) != e[3 + k]:
                    return "element %d edge %d carries boundary property %d but the .edge file says %r" % (ei, k, e[3 + k], edge_bc.get(key))
                carried.add(key)
    for key, j in edge_bc.items():
        if key not in carried:
            return "edge %r with boundary property %d is carried by no element" % (sorted(key), j)
    for ei, (e, a) in enumerate(zip(d_elems, A)):
        if tuple(e[0:3]) != tuple(T[ei]):
            return "element %d corners changed" % ei
        if e[7] != int(a) - 1 and int(a) >= 1:
            return "element %d: region attribute %d but label index %d" % (ei, int(a), e[7])
    return None


def entity_expectations(p):
    """expected (bdry index, conductor index) for points / segments / arcs of problem dict p (0-based, None)"""
    def idx(v):
        return None if not v else v - 1
    pts = [(q["x"], q["y"], idx(q.get("prop", 0)), idx(q.get("cond", 0))) for q in p["points"]]
    segs = [(s["n0"], s["n1"], idx(s.get("bdry", 0)), idx(s.get("cond", 0))) for s in p["segments"]]
    arcs = [(a["n0"], a["n1"], a["angle"], idx(a.get("bdry", 0)), idx(a.get("cond", 0))) for a in p["arcs"]]
    return pts, segs, arcs


def arc_circle(p, a):
    x0, y0 = p["points"][a[0]]["x"], p["points"][a[0]]["y"]
    x1, y1 = p["points"][a[1]]["x"], p["points"][a[1]]["y"]
    d = math.hypot(x1 - x0, y1 - y0)
    tta = a[2] * math.pi / 180.0
    R = d / (2 * math.sin(tta / 2))
    tx, ty = (x1 - x0) / d, (y1 - y0) / d
    h = math.sqrt(max(R * R - d * d / 4, 0.0))
    cx = x0 + (d / 2) * tx - h * ty
    cy = y0 + (d / 2) * ty + h * tx
    return cx, cy, R


def poly_marker_oracle(p, poly):
    """.poly markers must be the encoding of the drawn entity each PSLG segment/point belongs to."""
    kind = p["kind"]
    pts, segs, arcs = entity_expectations(p)

    def enc(prop, cond, sign):
        t = 0
        if prop is not None:
            t = prop + 2
        if cond is not None and kind != "fem":
            t += (cond + 1) * 0x10000
        return sign * t
    P = poly["points"]
    for i, (x, y, pr, co) in enumerate(pts):
        if i < len(P) and (P[i][0], P[i][1]) == (x, y):
            if poly["pmarks"][i] != enc(pr, co, 1):
                return "drawn point %d carries property/conductor (%r,%r) but its PSLG marker is %d" % (i, pr, co, poly["pmarks"][i])
    scale = max(max(abs(c) for c in q) for q in P) or 1.0
    tol = 1e-9 * scale
    for (u, v, m) in poly["segs"]:
        (xu, yu), (xv, yv) = P[u], P[v]
        owner = None
        for (a, b, pr, co) in segs:
            xa, ya = p["points"][a]["x"], p["points"][a]["y"]
            xb, yb = p["points"][b]["x"], p["points"][b]["y"]
            L = math.hypot(xb - xa, yb - ya)

            def on(x, y):
                cr = abs((xb - xa) * (y - ya) - (yb - ya) * (x - xa)) / L
                t = ((x - xa) * (xb - xa) + (y - ya) * (yb - ya)) / (L * L)
                return cr <= tol and -1e-9 <= t <= 1 + 1e-9
            if on(xu, yu) and on(xv, yv):
                owner = (pr, co)
                break
        if owner is None:
            for a in arcs:
                cx, cy, R = arc_circle(p, a)
                if abs(math.hypot(xu - cx, yu - cy) - R) <= 1e-7 * R and abs(math.hypot(xv - cx, yv - cy) - R) <= 1e-7 * R:
                    owner = (a[3], a[4])
                    break
        if owner is None:
            return "PSLG segment (%d,%d) lies on no drawn line or arc" % (u, v)
        if m != enc(owner[0], owner[1], -1):
            return "PSLG segment (%d,%d) on an entity with (bdry,cond)=%r has marker %d instead of %d" % (u, v, owner, m, enc(owner[0], owner[1], -1))
    return None


def drawn_point_oracle(p, d):
    """every drawn point that carries a point property / conductor and is a mesh vertex must carry
    exactly that assignment in the FINAL mesh (.node), whatever path the mesher took"""
    kind = p["kind"]
    idx = {}
    for i, q in enumerate(d["X"]):
        idx.setdefault(q, i)
    for qi, q in enumerate(p["points"]):
        prop = q.get("prop", 0)
        cond = q.get("cond", 0) if kind != "fem" else 0
        if not prop and not cond:
            continue
        i = idx.get((q["x"], q["y"]))
        if i is None:
            continue
        want = (prop - 1 if prop else None, cond - 1 if cond else None)
        m = d["nmark"][i]
        got = (m - 2 if m > 1 else None, None) if kind == "fem" else py_dec_pt(m)
        if kind != "fem":
            # conductors are also carried by the edges through the point (LoadMesh copies them to the nodes)
            for (u, v, em) in d["E"]:
                if i in (u, v) and py_dec_seg(em)[1] is not None and got[1] is None:
                    got = (got[0], py_dec_seg(em)[1])
        if want[1] is None and got[1] is not None:
            # the point itself has no conductor: the one it shows must come from a drawn line / arc ending at it
            inc = [e.get("cond", 0) for e in p["segments"] + p.get("arcs", []) if qi in (e["n0"], e["n1"])]
            if got[1] + 1 in inc:
                got = (got[0], None)
        if got != want:
            return "drawn point %d at (%g,%g) carries (point property, conductor) = %r but its mesh vertex decodes to %r (marker %d)" % (qi, q["x"], q["y"], want, got, m)
    return None


def periodic_problem(rng, kind):
    """rectangle with (anti)periodic left/right sides and points carrying properties"""
    B = femgen.Builder(kind)
    ids = geomgen.base_props(B, kind, rng)
    p = B.p
    p["problemtype"] = "planar"; p["units"] = rng.choice(femgen.UNITS); p["depth"] = 1.0; p["dosmartmesh"] = 0
    ptype = {"fee": 3, "feh": 4, "fem": 4}[kind] + rng.choice([0, 1])
    per = B.prop("bdryprops", name="per", type=ptype)
    W, H = 4.0, 2.0
    B.rect(0.0, 0.0, W, H, dict(l=dict(bdry=per), r=dict(bdry=per), b=dict(bdry=ids["bdry"][0]), t=dict(bdry=ids["bdry"][1])))
    B.label(1.0, 1.0, ids["mats"][0], maxarea=femgen.mesh_diameter(W * H / 40))
    # points with properties: an interior point, a point on the bottom side, a corner
    B.point(1.5, 0.75, prop=ids["pt"], **({} if kind == "fem" else {"cond": ids["cond"][0]}))
    a = B.point(2.5, 0.0, prop=ids["pt"])
    segs = p["segments"]
    bot = segs[0]
    p["segments"] = [dict(bot, n1=a), dict(bot, n0=a)] + segs[1:]
    p["points"][2]["prop"] = ids["pt"]
    p["features"] = ["periodic-rect", kind, "bdrytype%d" % ptype]
    return p


def session_mesh(ctx, k, p):
    """the same problem meshed inside a femmcli session in which entities are still SELECTED (a segment or arc that is not
    part of a periodic pair, a point, a block label, as a script leaves them after setting properties without clearing):
    the mesh files must be byte-identical to those of the stand-alone mesher -- the editor's selection is not part of
    the problem.  Mesh files are captured through hard links (the session unlinks them after loading)."""
    import hashlib
    pi = {"fee": "ei", "feh": "hi", "fem": "mi"}[p["kind"]]
    ext = {"fee": ".fee", "feh": ".feh", "fem": ".fem"}[p["kind"]]
    base = os.path.join(ctx.work, "m%d" % k)
    sb = os.path.join(ctx.work, "s%d" % k)
    femgen.write(p, sb + ext)
    per = set(i + 1 for i, b in enumerate(p.get("bdryprops", [])) if b.get("type") in ({"fee": (3, 4), "feh": (4, 5), "fem": (4, 5, 6, 7)}[p["kind"]]))
    pts = p["points"]
    L = ['open("%s")' % (sb + ext)]
    segs = [s_ for s_ in p.get("segments", []) if s_.get("bdry", 0) not in per]
    arcs = [a for a in p.get("arcs", []) if a.get("bdry", 0) not in per]
    for s_ in segs[-2:]:
        a, b = pts[s_["n0"]], pts[s_["n1"]]
        L.append("%s_selectsegment(%r, %r)" % (pi, (a["x"] + b["x"]) / 2, (a["y"] + b["y"]) / 2))
    if arcs:
        from props import c17_gen
        mx, my = c17_gen.arc_mid(p, arcs[-1])
        L.append("%s_selectarcsegment(%r, %r)" % (pi, mx, my))
    if pts:
        L.append("%s_selectnode(%r, %r)" % (pi, pts[0]["x"], pts[0]["y"]))
    if p.get("labels"):
        L.append("%s_selectlabel(%r, %r)" % (pi, p["labels"][-1]["x"], p["labels"][-1]["y"]))
    L += ["%s_createmesh()" % pi, 'print("R done")']
    for e in (".node", ".ele", ".edge", ".pbc"):
        open(sb + "_keep" + e, "w").close()
        if os.path.exists(sb + e):
            os.remove(sb + e)
        os.link(sb + "_keep" + e, sb + e)
    lua = sb + ".lua"
    open(lua, "w").write("\n".join(L) + "\n")
    rc, out, err = vlib.sh([ctx.snap.tool("femmcli"), "--lua-script=" + lua], timeout=300, cwd=ctx.work)
    if rc != 0 or "R done" not in out:
        return "femmcli could not mesh (rc=%d) a problem that the stand-alone mesher meshes, with entities left selected: %s" % (rc, (out + err)[-300:])
    for e in (".node", ".ele", ".edge", ".pbc"):
        fa, fb = base + e, sb + "_keep" + e
        da = open(fa, "rb").read() if os.path.exists(fa) else b""
        db = open(fb, "rb").read() if os.path.exists(fb) else b""
        if da != db:
            return ("the %s file written inside a femmcli session with entities left selected (%d bytes) differs from the "
                    "stand-alone mesher's (%d bytes): the mesh depends on the editor's selection state" % (e, len(db), len(da)))
    return None


def correspond(ctx):
    rng = ctx.rng
    dis = []
    # ---- (1) codec: model vs real LoadMesh on hand-made markers ----
    interesting_pt = [0, 1, 2, 3, 5, 7, 65536 + 2, 2 * 65536 + 3, 3 * 65536, 65536, 65536 + 1, -1, -5, 4 * 65536 + 6]
    interesting_seg = [0, 1, -2, -3, -5, -(65536 + 2), -(2 * 65536 + 4), -(3 * 65536), -65536, -1, 5, -(4 * 65536 + 7), -(65536 + 1)]
    synth = 0
    exprs, exp_list = [], []
    for kind in ("fee", "feh", "fem"):
        for rep in range(4 if ctx.quick() else 20):
            if kind == "fem":
                mp = [rng.choice([0, 1, 2, 3, 4, 6, -1]) for _ in range(4)]
                ms = [rng.choice([0, 1, -2, -3, -5, -1, 4]) for _ in range(5)]
            else:
                mp = [rng.choice(interesting_pt) for _ in range(4)]
                ms = [rng.choice(interesting_seg) for _ in range(5)]
            base, edges = synthetic_case(ctx, kind, mp, ms)
            r, msg = run_loadmesh(ctx, kind, base)
            if msg:
                ctx.fail(msg, kind=kind, node_markers=mp, edge_markers=ms)
                continue
            d_nodes, d_elems = r
            T = [(0, 1, 2), (0, 2, 3)]
            msg = check_dump(kind, d_nodes, d_elems, mp, [(u, v, m) for (u, v), m in zip(edges, ms)], T, [1.0, 1.0])
            synth += 1
            if msg:
                dis.append(dict(what="marker decode: " + msg, kind=kind, node_markers=mp, edge_markers=ms))
            # Coq model of the decoders on the same markers (compared with the python mirror)
            if kind == "fem":
                exprs.append("(map dec_pt_mag_z [%s], map dec_seg_mag_z [%s])" % ("; ".join(meshlib.zc(m) for m in mp), "; ".join(meshlib.zc(m) for m in ms)))
                exp_list.append(("fem", mp, ms))
            else:
                exprs.append("(map dec_pt_z [%s], map dec_seg_z [%s])" % ("; ".join(meshlib.zc(m) for m in mp), "; ".join(meshlib.zc(m) for m in ms)))
                exp_list.append((kind, mp, ms))
    res = vlib.coq_eval(HEADER, exprs, shard=200)
    for (kind, mp, ms), v in zip(exp_list, res):
        pm, sm = v
        if kind == "fem":
            want = ([m - 2 if m > 1 else -1 for m in mp], [(-(m + 2) if m < 0 and -(m + 2) >= 0 else -1) for m in ms])
            got = (list(pm), list(sm))
        else:
            z = lambda t: tuple(-1 if x is None else x for x in t)
            want = ([z(py_dec_pt(m)) for m in mp], [z(py_dec_seg(m)) for m in ms])
            got = ([tuple(x) for x in pm], [tuple(x) for x in sm])
        if got != want:
            dis.append(dict(what="Coq decode model and its python mirror differ: %r vs %r" % (got, want), kind=kind))
    # ---- (2) generated problems end to end ----
    count = 12 if ctx.quick() else 60
    exprs, cases, feats = [], [], {}
    for k in range(count):
        periodic = (k % 3 == 2)
        p = periodic_problem(rng, ["feh", "fem", "fee"][(k // 3) % 3]) if periodic else geomgen.gen_any(rng, k, quick=True)
        periodic = periodic or p["features"][0].startswith("periodic")
        if not periodic and p["points"] and p.get("pointprops") and rng.random() < 0.5:
            p["points"][rng.randrange(len(p["points"]))]["prop"] = 1
        for ft in p.get("features", []):
            feats[ft] = feats.get(ft, 0) + 1
        d, msg = c01.mesh_problem(ctx, 100 + k, p)
        if msg:
            ctx.fail(msg, problem=p); continue
        msg = drawn_point_oracle(p, d)
        if msg:
            ctx.fail("fmesher marker assignment: " + msg, problem=p)
        if periodic or k % 2 == 0:
            msg = session_mesh(ctx, 100 + k, p)
            feats["session-with-selection"] = feats.get("session-with-selection", 0) + 1
            if msg:
                ctx.fail("mesh hand-off: " + msg, problem=p)
        if periodic:
            # the .poly of the periodic path is that of the first trial pass: entity ownership is checked
            # on the final mesh by the validator below
            msg = None
        else:
            msg = poly_marker_oracle(p, d["poly"])
        if msg:
            ctx.fail("fmesher marker assignment: " + msg, problem=p)
        ext = {"fee": ".fee", "feh": ".feh", "fem": ".fem"}[p["kind"]]
        base = os.path.join(ctx.work, "m%d" % (100 + k))
        r, msg = run_loadmesh(ctx, p["kind"], base)
        if msg:
            ctx.fail(msg, problem=p); continue
        d_nodes, d_elems = r
        msg = check_dump(p["kind"], d_nodes, d_elems, d["nmark"], d["E"], d["T"], d["A"])
        if msg:
            ctx.fail("LoadMesh: " + msg, problem=p)
        # label -> material
        labels = p["labels"]
        for ei, e in enumerate(d_elems):
            lbl = e[7]
            if not (0 <= lbl < len(labels)) or e[6] != labels[lbl].get("block", 1) - 1:
                ctx.fail("LoadMesh: element %d has label %d / block %d, the file's label says block %r" %
                         (ei, lbl, e[6], labels[lbl].get("block") if 0 <= lbl < len(labels) else None), problem=p)
                break
        if len(d["T"]) <= 1500 and not periodic:
            exprs.append(meshlib.to_coq(d)[0]); cases.append((p, d))
    res = vlib.coq_eval(HEADER, exprs, shard=6, timeout=3000)
    for (p, d), v in zip(cases, res):
        rep = meshlib.parse_report(v)
        for key in ("bad_attr_pairs", "bad_regions", "bad_holes", "bad_points", "bad_edge_marks"):
            if rep[key]:
                ctx.fail("mesh validator (C02 part): " + meshlib.first_failure(rep), problem=p)
                break
    cov = ctx.res.cov
    cov["evaluations"] = synth + count
    cov["distinct_nontrivial"] = synth + len(cases)
    cov["rule"] = ("(1) hand-made vertex/edge marker values around the codec's field boundaries fed to the real LoadMesh of esolver, "
                   "hsolver and fsolver and to the Coq decode model; (2) generated problems of all three file types with "
                   "properties on points, lines, arcs and labels: .poly markers vs. the drawn entity's assignment, mesh markers "
                   "vs. LoadMesh data, region attributes / edge / vertex markers through the Coq validator")
    cov["input_distribution"] = feats
    cov["samples"] = [dict(kind=k, node_markers=mp, edge_markers=ms) for (k, mp, ms) in exp_list[:3]]
    cov["marker_constants"] = getattr(ctx, "marker_consts", {})
    dis += extmod.run(ctx, EXTENSIONS)
    return dis




def search(ctx, broken):
    """a proof/translator/correspondence broke: look for a problem on which the property fails"""
    rng = vlib.Rng(ctx.seed + 5)
    for k in range(40):
        p = geomgen.gen_any(rng, k, quick=True)
        if rng.random() < 0.7 and p["points"] and p.get("pointprops"):
            # make sure point properties and conductors are exercised
            q = rng.choice(p["points"])
            q["prop"] = 1
        d, msg = c01.mesh_problem(ctx, 500 + k, p)
        if msg:
            return [dict(what=msg, problem=p)]
        msg = poly_marker_oracle(p, d["poly"])
        if msg:
            return [dict(what="fmesher marker assignment: " + msg, problem=p)]
        base = os.path.join(ctx.work, "m%d" % (500 + k))
        r, msg = run_loadmesh(ctx, p["kind"], base)
        if msg:
            return [dict(what=msg, problem=p)]
        msg = check_dump(p["kind"], r[0], r[1], d["nmark"], d["E"], d["T"], d["A"])
        if msg:
            return [dict(what="LoadMesh: " + msg, problem=p)]
    return []
