"""Property oracle of C16 on the implementation's own dumps — independent of the Coq model.
Exact rational arithmetic (fractions.Fraction) for incidence / crossing / duplication; the snap
tolerances are recomputed the way the commands compute them (binary64, same formulas) and compared
with a 1e-9 relative slack.

state = dict(nodes=[(x,y,sel,grp,prop)], segs=[(n0,n1,sel,grp,prop)],
             arcs=[(n0,n1,sel,grp,arclength,maxside,prop)], labels=[(x,y,sel,grp,maxarea,prop)])"""
import math
from fractions import Fraction as Fr

CLOSE_ENOUGH = 1.e-06


# ------------------------------------------------------------------ tolerances (as the code) ----
def cabs(re, im):
    if re == 0 and im == 0:
        return 0.0
    if abs(re) > abs(im):
        return abs(re) * math.sqrt(1. + (im / re) * (im / re))
    return abs(im) * math.sqrt(1. + (re / im) * (re / im))


def tol_of_points(pts):
    if len(pts) < 2:
        return 1.e-08
    x0 = x1 = pts[0][0]
    y0 = y1 = pts[0][1]
    for p in pts[1:]:
        if p[0] < x0: x0 = p[0]
        if p[0] > x1: x1 = p[0]
        if p[1] < y0: y0 = p[1]
        if p[1] > y1: y1 = p[1]
    return cabs(x1 - x0, y1 - y0) * CLOSE_ENOUGH


def lua_tol(st):
    return tol_of_points([(n[0], n[1]) for n in st["nodes"]])


def fin(*v):
    return all(math.isfinite(x) for x in v)


# ----------------------------------------------------------------------- exact geometry ----
def orient(a, b, c):
    return (b[0] - a[0]) * (c[1] - a[1]) - (b[1] - a[1]) * (c[0] - a[0])


def frpt(p):
    return (Fr(p[0]), Fr(p[1]))


def strictly_inside(a, b, p):
    """p lies on the open segment ]a,b[ (exact)"""
    if orient(a, b, p) != 0:
        return False
    d = (b[0] - a[0], b[1] - a[1])
    t = (p[0] - a[0]) * d[0] + (p[1] - a[1]) * d[1]
    L = d[0] * d[0] + d[1] * d[1]
    return 0 < t < L


def on_closed(a, b, p):
    if orient(a, b, p) != 0:
        return False
    d = (b[0] - a[0], b[1] - a[1])
    t = (p[0] - a[0]) * d[0] + (p[1] - a[1]) * d[1]
    L = d[0] * d[0] + d[1] * d[1]
    return 0 <= t <= L


def proper_cross(a, b, c, d):
    """open segments ]a,b[ and ]c,d[ have a point in common (crossing or collinear overlap)"""
    o1, o2, o3, o4 = orient(a, b, c), orient(a, b, d), orient(c, d, a), orient(c, d, b)
    if o1 == 0 and o2 == 0:
        # collinear: overlap of positive length, or one contains an end of the other strictly inside
        if a == b or c == d:
            return False
        ax = 0 if a[0] != b[0] else 1
        lo1, hi1 = min(a[ax], b[ax]), max(a[ax], b[ax])
        lo2, hi2 = min(c[ax], d[ax]), max(c[ax], d[ax])
        return max(lo1, lo2) < min(hi1, hi2)
    if (o1 > 0) != (o2 > 0) and o1 != 0 and o2 != 0 and (o3 > 0) != (o4 > 0) and o3 != 0 and o4 != 0:
        return True
    # an end point of one strictly inside the other (T-junction without a shared node)
    if o1 == 0 and strictly_inside(a, b, c): return True
    if o2 == 0 and strictly_inside(a, b, d): return True
    if o3 == 0 and strictly_inside(c, d, a): return True
    if o4 == 0 and strictly_inside(c, d, b): return True
    return False


def dist_pt_seg(p, a, b):
    x0, y0, x1, y1 = a[0], a[1], b[0], b[1]
    den = (x1 - x0) * (x1 - x0) + (y1 - y0) * (y1 - y0)
    if den == 0:
        return math.hypot(p[0] - x0, p[1] - y0)
    t = ((p[0] - x0) * (x1 - x0) + (p[1] - y0) * (y1 - y0)) / den
    t = min(1., max(0., t))
    return math.hypot(p[0] - (x0 + t * (x1 - x0)), p[1] - (y0 + t * (y1 - y0)))


# ------------------------------------------------------------------------------ arcs ----
def arc_circle(st, a):
    p0 = st["nodes"][a[0]]
    p1 = st["nodes"][a[1]]
    a0 = complex(p0[0], p0[1])
    a1 = complex(p1[0], p1[1])
    d = abs(a1 - a0)
    if d == 0:
        return None
    t = (a1 - a0) / d
    tta = a[4] * math.pi / 180.
    s = math.sin(tta / 2.)
    if s == 0:
        return None
    R = d / (2. * s)
    h2 = R * R - d * d / 4.
    c = a0 + (d / 2. + 1j * math.sqrt(max(h2, 0.))) * t
    return c, abs(R), a0, tta


def arc_param(c, a0, p):
    """angle of p from the arc start, in [0, 2pi)"""
    z = (p - c) / (a0 - c)
    ang = math.atan2(z.imag, z.real)
    return ang if ang >= 0 else ang + 2 * math.pi


def check_arcs(st, scale):
    nn = len(st["nodes"])
    arcs = st["arcs"]
    for i, a in enumerate(arcs):
        for b in arcs[i + 1:]:
            if a[0] == b[0] and a[1] == b[1] and abs(a[4] - b[4]) < 1.e-2:
                return "arc (%d,%d,%g deg) is duplicated" % (a[0], a[1], a[4])
    eps = 1e-6 * scale
    for a in arcs:
        cc = arc_circle(st, a)
        if cc is None or not fin(cc[0].real, cc[0].imag, cc[1]):
            continue
        c, R, a0, tta = cc
        if R > 1e6 * scale:
            continue
        # a node strictly inside the arc
        for k, n in enumerate(st["nodes"]):
            if k in (a[0], a[1]):
                continue
            p = complex(n[0], n[1])
            if abs(abs(p - c) - R) < 1e-9 * scale:
                ang = arc_param(c, a0, p)
                if 1e-4 < ang < tta - 1e-4:
                    return "node %d (%.17g,%.17g) lies inside arc (%d,%d)" % (k, n[0], n[1], a[0], a[1])
        # crossings with segments that do not share an end node with the arc
        for s in st["segs"]:
            if s[0] in (a[0], a[1]) or s[1] in (a[0], a[1]):
                continue
            p0 = complex(*st["nodes"][s[0]][:2])
            p1 = complex(*st["nodes"][s[1]][:2])
            L = abs(p1 - p0)
            if L == 0:
                continue
            t = (p1 - p0) / L
            v = (c - p0) / t
            if abs(v.imag) > R * (1 - 1e-6):
                continue                      # no crossing or (near) tangent: not judged
            l = math.sqrt(R * R - v.imag * v.imag)
            for sgn in (1, -1):
                u = v.real + sgn * l
                if not (1e-4 * L < u < L * (1 - 1e-4)):
                    continue
                q = p0 + u * t
                ang = arc_param(c, a0, q)
                if 1e-4 < ang < tta - 1e-4 and all(abs(q - complex(n[0], n[1])) > eps for n in st["nodes"]):
                    return ("segment (%d,%d) crosses arc (%d,%d) at (%.9g,%.9g) where there is no node"
                            % (s[0], s[1], a[0], a[1], q.real, q.imag))
    return None


# ------------------------------------------------------------------- structural checks ----
def check_structure(st):
    nn = len(st["nodes"])
    for kind, lst in (("segment", st["segs"]), ("arc", st["arcs"])):
        for i, s in enumerate(lst):
            if not (0 <= s[0] < nn and 0 <= s[1] < nn):
                return "%s %d refers to a missing point: (%d,%d) with %d points" % (kind, i, s[0], s[1], nn)
            if s[0] == s[1]:
                return "%s %d joins point %d with itself" % (kind, i, s[0])
    seen = {}
    for i, s in enumerate(st["segs"]):
        key = (min(s[0], s[1]), max(s[0], s[1]))
        if key in seen:
            return "duplicate segment: segments %d and %d both join points %d and %d" % (seen[key], i, key[0], key[1])
        seen[key] = i
    return None


def scale_of(st):
    xs = [n[0] for n in st["nodes"]] + [n[1] for n in st["nodes"]]
    return max([1e-300] + [abs(v) for v in xs if math.isfinite(v)])


def check_planar(st):
    nodes = st["nodes"]
    if not all(fin(n[0], n[1]) for n in nodes):
        return None
    P = [frpt(n) for n in nodes]
    # two points at exactly the same place
    seen = {}
    for i, p in enumerate(P):
        if p in seen:
            return "points %d and %d are at the same place (%.17g,%.17g)" % (seen[p], i, nodes[i][0], nodes[i][1])
        seen[p] = i
    segs = st["segs"]
    for i, s in enumerate(segs):
        a, b = P[s[0]], P[s[1]]
        for k, p in enumerate(P):
            if k != s[0] and k != s[1] and strictly_inside(a, b, p):
                return "point %d (%.17g,%.17g) lies inside segment %d (%d,%d) which is not split there" % (
                    k, nodes[k][0], nodes[k][1], i, s[0], s[1])
    for i, s in enumerate(segs):
        a, b = P[s[0]], P[s[1]]
        for j in range(i + 1, len(segs)):
            t = segs[j]
            c, d = P[t[0]], P[t[1]]
            shared = {s[0], s[1]} & {t[0], t[1]}
            if len(shared) == 2:
                continue          # duplicate: reported by check_structure
            if len(shared) == 1:
                # may only meet at the shared point: no collinear overlap
                o = shared.pop()
                u = P[s[0] if s[1] == o else s[1]]
                v = P[t[0] if t[1] == o else t[1]]
                if orient(P[o], u, v) == 0 and ((u[0] - P[o][0]) * (v[0] - P[o][0]) + (u[1] - P[o][1]) * (v[1] - P[o][1])) > 0:
                    return "segments %d (%d,%d) and %d (%d,%d) overlap along a line" % (i, s[0], s[1], j, t[0], t[1])
                continue
            if proper_cross(a, b, c, d):
                return "segments %d (%d,%d) and %d (%d,%d) meet at a place that is not a point of the drawing" % (
                    i, s[0], s[1], j, t[0], t[1])
    for k, l in enumerate(st["labels"]):
        if not fin(l[0], l[1]):
            continue
        q = frpt(l)
        if q in seen:
            return "block label %d sits on point %d" % (k, seen[q])
        for i, s in enumerate(segs):
            if on_closed(P[s[0]], P[s[1]], q):
                return "block label %d (%.17g,%.17g) sits on segment %d (%d,%d)" % (k, l[0], l[1], i, s[0], s[1])
    return None


def nothing_selected(st, kinds=("nodes", "segs", "arcs", "labels")):
    for k in kinds:
        for i, e in enumerate(st[k]):
            if e[2]:
                return "%s %d is still selected" % ({"nodes": "point", "segs": "segment", "arcs": "arc", "labels": "block label"}[k], i)
    return None


def min_node_gap(st):
    P = [(n[0], n[1]) for n in st["nodes"]]
    best = None
    for i in range(len(P)):
        for j in range(i + 1, len(P)):
            d = math.hypot(P[i][0] - P[j][0], P[i][1] - P[j][1])
            if best is None or d < best:
                best = d
    return best


def pairwise_at_least(st, d):
    P = [(n[0], n[1]) for n in st["nodes"]]
    for i in range(len(P)):
        for j in range(i + 1, len(P)):
            g = math.sqrt((P[i][0] - P[j][0]) * (P[i][0] - P[j][0]) + (P[i][1] - P[j][1]) * (P[i][1] - P[j][1]))
            if g < d * (1 - 1e-9):
                return "points %d and %d are %.6g apart, closer than this command's snap tolerance %.6g" % (i, j, g, d)
    return None


# ----------------------------------------------------------- the commands' raw transformations ----
def selected_for_mode(pre, mode, moving):
    """indices of nodes / labels / segments the command acts on"""
    nodes = set()
    if moving:
        if mode in (1, 4):
            for s in pre["segs"]:
                if s[2]:
                    nodes.update((s[0], s[1]))
        if mode in (3, 4):
            for a in pre["arcs"]:
                if a[2]:
                    nodes.update((a[0], a[1]))
        if mode in (0, 1, 3, 4):
            nodes.update(i for i, n in enumerate(pre["nodes"]) if n[2])
    else:
        if mode in (0, 4):
            nodes.update(i for i, n in enumerate(pre["nodes"]) if n[2])
    labels = {i for i, l in enumerate(pre["labels"]) if l[2]} if mode in (2, 4) else set()
    return nodes, labels


def transform_of(op):
    k = op[0]
    if k in ("movetranslate",):
        dx, dy = op[1], op[2]
        return [lambda p: (p[0] + dx, p[1] + dy)], op[3], True
    if k == "copytranslate":
        fs = []
        for nc in range(max(0, op[3])):
            dx, dy = float(nc + 1) * op[1], float(nc + 1) * op[2]
            fs.append(lambda p, dx=dx, dy=dy: (p[0] + dx, p[1] + dy))
        return fs, op[4], True
    if k == "scale":
        bx, by, sf = op[1], op[2], op[3]
        return [lambda p: (bx + sf * (p[0] - bx), by + sf * (p[1] - by))], op[4], True
    if k in ("moverotate", "copyrotate"):
        c = complex(op[1], op[2])
        n = 1 if k == "moverotate" else max(0, op[4])
        fs = []
        for nc in range(n):
            t = float(nc + 1) * op[3]
            z = complex(math.cos(t * math.pi / 180), math.sin(t * math.pi / 180))

            def f(p, z=z):
                w = (complex(p[0], p[1]) - c) * z + c
                return (w.real, w.imag)
            fs.append(f)
        return fs, op[-1], False
    if k == "mirror":
        x = complex(op[1], op[2])
        p = complex(op[3] - op[1], op[4] - op[2])
        if abs(p) == 0:
            return None, op[5], False
        p = p / abs(p)

        def f(q):
            y = (complex(q[0], q[1]) - x) / p
            y = p * y.conjugate() + x
            return (y.real, y.imag)
        return [f], op[5], False
    return None, None, False


def same_pt(a, b, exact):
    if exact:
        return a[0] == b[0] and a[1] == b[1]
    s = max(abs(a[0]), abs(a[1]), abs(b[0]), abs(b[1]), 1e-300)
    return abs(a[0] - b[0]) <= 1e-12 * s and abs(a[1] - b[1]) <= 1e-12 * s


def raw_points(pre, op):
    """the point list handed to enforcePSLG by a move / copy command, the images it must contain, the label images"""
    fs, mode, exact = transform_of(op)
    if fs is None or mode is None or not (0 <= mode <= 4):
        return None
    k = op[0]
    copying = k in ("copytranslate", "copyrotate", "mirror")
    pn = [(n[0], n[1]) for n in pre["nodes"]]
    if not all(fin(*p) for p in pn):
        return None
    raw = list(pn)
    images = []          # (image point, original node tuple)
    limages = []
    if copying:
        nsel, lsel = selected_for_mode(pre, mode, False)
        for f in fs:
            for i in sorted(nsel):
                q = f(pn[i])
                raw.append(q)
                images.append((q, pre["nodes"][i]))
            if mode in (1, 4):
                for s in pre["segs"]:
                    if s[2]:
                        for e in (s[0], s[1]):
                            q = f(pn[e])
                            raw.append(q)
                            images.append((q, pre["nodes"][e]))
            if mode in (3, 4):
                for a in pre["arcs"]:
                    if a[2]:
                        for e in (a[0], a[1]):
                            raw.append(f(pn[e]))
            for i in sorted(lsel):
                limages.append((f((pre["labels"][i][0], pre["labels"][i][1])), pre["labels"][i]))
    else:
        nsel, lsel = selected_for_mode(pre, mode, True)
        f = fs[0]
        for i in sorted(nsel):
            raw[i] = f(pn[i])
            images.append((raw[i], pre["nodes"][i]))
        for i in sorted(lsel):
            limages.append((f((pre["labels"][i][0], pre["labels"][i][1])), pre["labels"][i]))
    if not all(fin(*p) for p in raw):
        return None
    return raw, images, limages, exact, copying


def enforce_tolerance(pre, op):
    r = raw_points(pre, op)
    return None if r is None else tol_of_points(r[0])


def check_enforce(pre, op, post):
    """move / copy commands: tolerance of the command, images present (or merged), properties kept"""
    r = raw_points(pre, op)
    if r is None:
        return None
    raw, images, limages, exact, copying = r
    if not all(fin(*p) for p in raw):
        return None
    d = tol_of_points(raw)
    if exact:
        msg = pairwise_at_least(post, d)
        if msg:
            return msg
    slack = d * (1 + 1e-6) + (0 if exact else 1e-9 * max(1.0, scale_of(post)))
    pp = [(n[0], n[1]) for n in post["nodes"]]
    if pre["arcs"] or post["arcs"]:
        return None            # arcs add intersection nodes and drop things in ways not judged here
    for q, orig in images:
        hit = [n for n in post["nodes"] if same_pt((n[0], n[1]), q, exact)]
        if hit:
            # the copy/moved point itself survived unless an equal point came earlier in the list
            firsts = [o for o in pre["nodes"] if same_pt((o[0], o[1]), q, exact)] if copying else []
            if not firsts and not any(n[3] == orig[3] and n[4] == orig[4] for n in hit):
                # several images may coincide: the first one wins
                cands = [o for (qq, o) in images if same_pt(qq, q, exact)]
                if not any(n[3] == c[3] and n[4] == c[4] for n in hit for c in cands):
                    return ("the point at the transformed coordinates (%.17g,%.17g) lost its group/properties: has %r, original %r"
                            % (q[0], q[1], hit[0][3:], orig[3:]))
            continue
        if not any(math.hypot(p[0] - q[0], p[1] - q[1]) < slack for p in pp):
            return "no point at the transformed coordinates (%.17g,%.17g) (nor one within the tolerance %.3g)" % (q[0], q[1], d)
    for q, orig in limages:
        hit = [l for l in post["labels"] if same_pt((l[0], l[1]), q, exact)]
        if hit:
            continue
        near_node = any(math.hypot(p[0] - q[0], p[1] - q[1]) < slack for p in pp)
        near_seg = any(dist_pt_seg(q, pp[s[0]], pp[s[1]]) < slack for s in post["segs"])
        near_lab = any(math.hypot(l[0] - q[0], l[1] - q[1]) < slack for l in post["labels"])
        if not (near_node or near_seg or near_lab):
            return "no block label at the transformed coordinates (%.17g,%.17g)" % (q[0], q[1])
    return None


def arc_mid(st, a):
    """the point half way along the arc (which side of the chord it bulges to)"""
    cc = arc_circle(st, a)
    if cc is None:
        return None
    c, R, a0, tta = cc
    z = complex(math.cos(tta / 2.), math.sin(tta / 2.))
    m = c + (a0 - c) * z
    return (m.real, m.imag)


def check_arc_images(pre, op, post):
    """copies / moves of arcs: when the command created no intersection (the number of arcs is the expected one),
    every image of a selected arc must be an arc of the result: transformed end points AND transformed mid point
    (a mirrored arc bulges to the mirrored side), same angle, same properties and group"""
    fs, mode, exact = transform_of(op)
    if fs is None or mode not in (3, 4):
        return None
    k = op[0]
    copying = k in ("copytranslate", "copyrotate", "mirror")
    sel = [a for a in pre["arcs"] if a[2]] if mode == 3 else []
    if mode == 4:
        return None
    if not sel:
        return None
    expect = len(pre["arcs"]) + (len(sel) * len(fs) if copying else 0)
    if len(post["arcs"]) != expect:
        return None
    sc = max(1.0, scale_of(post))
    for a in sel:
        m0 = arc_mid(pre, a)
        if m0 is None:
            continue
        e0 = (pre["nodes"][a[0]][0], pre["nodes"][a[0]][1]); e1 = (pre["nodes"][a[1]][0], pre["nodes"][a[1]][1])
        for f in fs:
            fm, f0, f1 = f(m0), f(e0), f(e1)
            found = False
            for b in post["arcs"]:
                mb = arc_mid(post, b)
                if mb is None:
                    continue
                b0 = (post["nodes"][b[0]][0], post["nodes"][b[0]][1]); b1 = (post["nodes"][b[1]][0], post["nodes"][b[1]][1])
                near = lambda u, v: math.hypot(u[0] - v[0], u[1] - v[1]) <= 1e-9 * sc
                if near(mb, fm) and ((near(b0, f0) and near(b1, f1)) or (near(b0, f1) and near(b1, f0))):
                    found = True
                    if abs(b[4] - a[4]) > 1e-9 * abs(a[4]) or b[3] != a[3] or b[6] != a[6]:
                        return ("the image of arc (%g,%g)-(%g,%g) lost its angle / group / properties: %r vs %r" %
                                (e0[0], e0[1], e1[0], e1[1], b[3:], a[3:]))
                    break
            if not found:
                return ("%s of the arc (%g,%g)->(%g,%g) of %g deg: the result has no arc through the transformed end points and the "
                        "transformed mid point (%.12g,%.12g) -- the image bulges to the wrong side or is missing"
                        % (k, e0[0], e0[1], e1[0], e1[1], a[4], fm[0], fm[1]))
    return None


def duplicate_from_split(pre, op, post):
    """the duplicated segment pair has an end point that this command created (add commands: a new index;
    commands that rebuild the drawing: a point that is not one of the transformed input points), i.e. the
    duplicate comes out of addNode's segment split and not out of addSegment's own duplicate test"""
    seen, dups = {}, []
    for i, s in enumerate(post["segs"]):
        key = (min(s[0], s[1]), max(s[0], s[1]))
        if key in seen:
            dups.append(key)
        seen[key] = i
    if not dups:
        return False
    if op[0] in ("addnode", "addsegment", "addarc"):
        n0 = len(pre["nodes"])
        return all(k[1] >= n0 for k in dups)
    if op[0] in ENFORCE:
        fs, mode, exact = transform_of(op)
        if fs is None:
            return False
        inputs = set((n[0], n[1]) for n in pre["nodes"])
        for f in fs:
            for n in pre["nodes"]:
                inputs.add(f((n[0], n[1])))
        if not exact:
            return True
        return all(any((post["nodes"][e][0], post["nodes"][e][1]) not in inputs for e in k) for k in dups)
    return False


# ------------------------------------------------------------------------ one command ----
CLEARS = {"setgroup", "clearselected", "deleteselected", "addarc"}
ENFORCE = {"movetranslate", "moverotate", "scale", "copytranslate", "copyrotate", "mirror"}


def check_step(pre, op, post):
    msg = check_structure(post)
    if msg:
        return msg
    k = op[0]
    # selection
    if k in CLEARS and not (k == "addarc" and not pre["nodes"]):
        msg = nothing_selected(post)
    elif k in ENFORCE:
        mode = op[-1]
        degenerate = (k == "mirror" and cabs((op[3] - op[1]) + 0. * (op[4] - op[2]), 1. * (op[4] - op[2])) == 0)
        if 0 <= mode <= 4 and not degenerate:
            msg = nothing_selected(post)
    elif k == "addsegment":
        if post != pre:
            msg = nothing_selected(post)
    elif k == "deleteselectednodes":
        msg = nothing_selected(post, ("nodes",))
    elif k == "deleteselectedsegments":
        msg = nothing_selected(post, ("segs",))
    elif k == "deleteselectedlabels":
        msg = nothing_selected(post, ("labels",))
    elif k == "deleteselectedarcs":
        msg = nothing_selected(post, ("arcs",))
    if msg:
        return "after a completed %s command %s" % (k, msg)
    msg = check_planar(post)
    if msg:
        return msg
    if post["arcs"]:
        msg = check_arcs(post, scale_of(post))
        if msg:
            return msg
    # metric: this command's own tolerance
    if k == "addnode" and len(post["nodes"]) == len(pre["nodes"]) + 1:
        d = lua_tol(pre)
        x, y = post["nodes"][-1][0], post["nodes"][-1][1]
        if (x, y) != (op[1], op[2]):
            return "the new point is at (%.17g,%.17g), asked for (%.17g,%.17g)" % (x, y, op[1], op[2])
        for i, n in enumerate(pre["nodes"]):
            g = math.sqrt((n[0] - x) * (n[0] - x) + (n[1] - y) * (n[1] - y))
            if g < d * (1 - 1e-9):
                return "new point is %.6g from point %d, closer than the snap tolerance %.6g of this command" % (g, i, d)
        for i, l in enumerate(pre["labels"]):
            g = math.sqrt((l[0] - x) * (l[0] - x) + (l[1] - y) * (l[1] - y))
            if g < d * (1 - 1e-9):
                return "new point is %.6g from block label %d, closer than the snap tolerance %.6g" % (g, i, d)
    if k == "addlabel" and len(post["labels"]) == len(pre["labels"]) + 1:
        d = lua_tol(pre)
        x, y = post["labels"][-1][0], post["labels"][-1][1]
        pp = [(n[0], n[1]) for n in post["nodes"]]
        for i, n in enumerate(pp):
            if math.hypot(n[0] - x, n[1] - y) < d * (1 - 1e-9):
                return "new block label is within the snap tolerance of point %d" % i
        for i, s in enumerate(post["segs"]):
            if dist_pt_seg((x, y), pp[s[0]], pp[s[1]]) < d * (1 - 1e-9):
                return "new block label is within the snap tolerance of segment %d" % i
    if k in ENFORCE:
        msg = check_enforce(pre, op, post) or check_arc_images(pre, op, post)
        if msg:
            return msg
    return None
