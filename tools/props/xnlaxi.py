"""XNLAXI (temporary id; serves C19's last clause and C05) — the nonlinear (B-H curve) branch of the AXISYMMETRIC
magnetostatic solver FSolver::StaticAxisymmetric: the loop  do { assemble; PCGSolve; exit test / relaxation }
while(LinearFlag==false)  of cfemm/fsolver/staticaxi.cpp.
Model: coq/theories/AsmMAxiNL.v (anl_pass = one pass's system from the previous iterate and the per-element
permeabilities, anl_update = permeability update "B derived directly from energy" + tangent term Mn; the combine
statement, GetBHProps, the exit test / relaxation and the loop state are AsmMNL's because the C++ text is the same);
it reuses AsmMAxi.v, AsmMNL.v, Sparse.v and BH.v.  Theorems: Properties_C19_nlaxi.v (proofs in AsmMAxiNLProofs.v).
Correspondence: xaxi.gen_problem axisymmetric problems with B-H tables put on the iron (and sometimes the magnet)
blocks (xnl / c19 table kinds; LamType 0 with fill < 1; LamType 1, 2; iron next to the axis; iron in the conformally
mapped exterior region) -> real fmesher -> harness h_fsolver_axi_nl (real LoadProblemFile incl. GetSlopes, LoadMesh,
Cuthill, StaticAxisymmetric) dumps PER PASS the element permeabilities, the assembled matrix and right-hand side
before the solve, the iterate before and after the solve, Relax; the float reading of the model is given each pass's
solved vector and must reproduce every pass's system, permeabilities, control variables (Iter, res, Relax,
LinearFlag), relaxed iterate and the written flux 2 pi r A bit for bit.
Property oracles on what the REAL fsolver binary writes: (1) an independent numpy assembly (xaxi.si_system: SI units,
1/r mean from the exact contour integral) of the nonlinear residual K(nu(<B>)) A - f with nu from an independent
construction of the B-H spline and <B> the volume-weighted rms flux density of the element, which must vanish at the
free nodes to the iteration tolerance; (2) paired runs straight-line table vs linear material of that permeability;
(3) every generated problem must leave the loop within MAXPASS passes (the C++ loop has no cap)."""
import os, math, json, copy, re
import numpy as np
import vlib, femgen
from props import c05, c05_gen, c19, xnl, xaxi

LEVEL = "proof"
COQ_MODULES = ["AsmMAxiNL"]
MAXPASS = 60
ASSUMPTIONS = [
    "theorems are about the real-number reading of AsmMAxiNL.v; rounding is not bounded (the float reading is compared with "
    "the C++ bit for bit, pass by pass, on the generated problems)",
    "termination of the Newton loop of StaticAxisymmetric is NOT proved (the C++ loop has no iteration cap: it runs until "
    "res < 100*Precision or the iterate is exactly zero); the model's loop is fuelled and the check reports every generated "
    "problem that does not leave the loop within %d passes (a violation for straight-line tables, a coverage entry otherwise: "
    "findings/XNLAXI-2.md)" % MAXPASS,
    "the linear solve (CBigLinProb::PCGSolve) is abstract in the model (C09's subject): theorems hold for every solver "
    "function, the correspondence feeds each pass's solved vector (obtained from the real PCGSolve) to the model",
    "the B-H table is the one CMSolverMaterialProp::GetSlopes left (Bdata, Hdata, slope dumped by the harness); GetSlopes "
    "itself, GetH / GetBHProps and their consistency are C19's main subject (BH.v)",
    "not modelled / not generated: previous-solution runs (incremental / frozen permeability, hence v12 = 0; El->Jprev, which "
    "the loop increments in EVERY pass), polar boundary coordinates, the harmonic axisymmetric nonlinear solver",
    "reduction to the linear case is proved for LamType 0 (any fill factor) for elements outside the conformally mapped exterior "
    "region; it is REFUTED (a) for laminations on edge (LamType 1, 2) with fill < 1 (passes after the first store mu*fill where "
    "the linear material uses mu*fill + (1-fill): the axisymmetric twin of findings/XNL-1.md) and (b) for a block with a table "
    "in the exterior region (the factor 1/kludge is applied in the pass Iter == 0 only: findings/XNLAXI-1.md); the residual "
    "oracle follows the code in both cases",
    "the fixed-point theorem speaks about the rows of the element loop (before SetValue / periodicity), with the permeabilities "
    "the pass computed from the iterate; the flux density of the update is proved to be the volume-weighted rms flux density "
    "of FEMM's modified-potential element provided the iterate vanishes at the element's on-axis nodes (SetValue(i,0) makes it so)",
    "libm values (cos/sin of the magnetisation direction, cos(phi*DEG), the six logarithms per element of the R_hat formulas) "
    "are inputs of the model; Triangle, the file readers and Cuthill-McKee are not modelled (the model starts from the solver's "
    "in-memory data dumped by the harness)",
]
HEADER = ("From Coq Require Import ZArith List Floats. Import ListNotations. "
          "From XF Require Import Arith Sparse AsmE AsmM BH AsmMNL AsmMAxi AsmMAxiNL.")
MU0 = c19.MUO
HARNESS = "h_fsolver_axi_nl"
AX = "fsolver/staticaxi.cpp"

ANCHORS = [
    (AX, "while(LinearFlag==false);"),
    (AX, "if(Iter>0) L.Wipe();"),
    (AX, "for(j=0,a_hat=0; j<3; j++) a_hat+=(rn[j]*rn[j]*p[j]/(4.*R)); vol=2.*R*a_hat;"),
    (AX, "if (blockproplist[k].BHpoints != 0) { if (bIncremental == 0) { LinearFlag = 0; }"),
    (AX, "if ((blockproplist[k].LamType==0) && (meshele[i].mu1==meshele[i].mu2) &&(blockproplist[k].BHpoints>0))"),
    (AX, "v[0]=0; v[1]=0; v[2]=0; for(j=0; j<3; j++) for(w=0; w<3; w++) v[j]+=(Mx[j][w]+My[j][w])*L.V[n[w]]; "
         "for(j=0,dv=0; j<3; j++) dv+=L.V[n[j]]*v[j]; dv*=(10000.*c*c/vol); B=sqrt(fabs(dv));"),
    (AX, "blockproplist[k].GetBHProps(B,mu,dv); mu=1./(muo*mu); meshele[i].mu1=mu; meshele[i].mu2=mu;"),
    (AX, "for(w=0,v[j]=0; w<3; w++) v[j]+=(Mx[j][w]+My[j][w])*L.V[n[w]];"),
    (AX, "K=-200.*c*c*c*dv/vol; for(j=0; j<3; j++) for(w=0; w<3; w++) Mn[j][w]=K*v[j]*v[w];"),
    (AX, "if ((blockproplist[k].LamType==1) && (blockproplist[k].BHpoints>0)) { t=blockproplist[k].LamFill;"),
    (AX, "v[j]+=(Mx[j][w]+My[j][w]/(t*t))*L.V[n[w]];"),
    (AX, "meshele[i].mu1=mu*t; meshele[i].mu2=mu/(t+mu*(1.-t));"),
    (AX, "v[j]+=(My[j][w]/t+Mx[j][w])*L.V[n[w]]; u[j]+=(My[j][w]/t + t*Mx[j][w])*L.V[n[w]];"),
    (AX, "K=-100.*c*c*c*dv/(vol); for(j=0; j<3; j++) for(w=0; w<3; w++) Mn[j][w]=K*(v[j]*u[w]+v[w]*u[j]);"),
    (AX, "if ((blockproplist[k].LamType==2) && (blockproplist[k].BHpoints>0)) { t=blockproplist[k].LamFill;"),
    (AX, "v[j]+=(Mx[j][w]/(t*t)+My[j][w])*L.V[n[w]];"),
    (AX, "meshele[i].mu2=mu*t; meshele[i].mu1=mu/(t+mu*(1.-t));"),
    (AX, "v[j]+=(Mx[j][w]/t + My[j][w])*L.V[n[w]]; u[j]+=(Mx[j][w]/t + t*My[j][w])*L.V[n[w]];"),
    (AX, "if((labellist[meshele[i].lbl].IsExternal) && (Iter==0))"),
    (AX, "Me[j][k]+= (Mx[j][k]/Re(El->mu2) + My[j][k]/Re(El->mu1) + Mxy[j][k] * Re(El->v12) + Mn[j][k]); be[j]+=Mn[j][k]*L.V[n[k]];"),
    (AX, "L.Put(L.Get(n[j],n[k])-Me[j][k],n[j],n[k]); L.b[n[j]]-=be[j];"),
    (AX, "for(j=0;j<NumNodes;j++) V_old[j]=L.V[j]; if (L.PCGSolve(Iter)==false) return false;"),
    (AX, "if (LinearFlag==false) { for(j=0,x=0,y=0; j<NumNodes; j++) { x+=(L.V[j]-V_old[j])*(L.V[j]-V_old[j]); y+=(L.V[j]*L.V[j]); }"),
    (AX, "if (y==0) LinearFlag=true; else { lastres=res; res=sqrt(x/y); }"),
    (AX, "if(Iter>5) { if ((res>lastres) && (Relax>0.125)) Relax/=2.; else Relax+= 0.1 * (1. - Relax); "
         "for(j=0; j<NumNodes; j++) L.V[j]=Relax*L.V[j]+(1.0-Relax)*V_old[j]; }"),
    (AX, "if((res<100.*Precision) && Iter>0) LinearFlag=true; Iter++;"),
    (AX, "L.b[i]=L.V[i]*c; L.b[i]*=(meshnode[i].x*0.01*2*PI);"),
    ("fsolver/fsolver.cpp", "Relax=1.;"),
    ("libfemm/CMaterialProp.cpp", "mu_x = Bdata[1] / (muo*abs(Hdata[1])); mu_y = mu_x;"),
    ("libfemm/CMaterialProp.cpp", "v=h/b; dv=0.5*(dh/(b*b) - h/(b*b*b));"),
    ("libfemm/spars.cpp", "b[i]=0.; e=M[i]; do { e->x=0; e=e->next; } while(e!=NULL);"),
    ("libfemm/femmconstants.h", "#define muo 1.2566370614359173e-6"),
]


def squeeze(t):
    """whitespace, // comments and the (commented-out) progress-bar lines removed"""
    return "".join(re.sub(r"//[^\n]*", "", t).split())


def regen(ctx):
    """no generated Coq text: AsmMAxiNL.v is a transcription; check that the statements it transcribes are still there
    (XNLAXI_SKIP_ANCHORS=1 switches the textual check off: used to show that the bit-level tie alone catches a change)"""
    if os.environ.get("XNLAXI_SKIP_ANCHORS") == "1":
        return
    cache = {}
    for f, snip in ANCHORS:
        if f not in cache:
            cache[f] = squeeze(open(os.path.join(ctx.snap.src, f), errors="replace").read())
        if squeeze(snip) not in cache[f]:
            raise vlib.TranslateError("%s no longer contains `%s`: the model AsmMAxiNL.v transcribes it" % (f, snip))


# ------------------------------------------------------------------------- generator ----
NL_STRATA = {   # k mod 8 -> forced configuration of xaxi.gen_problem
    0: dict(x0=0.0, main_iron=True, boxes=["jblock", None]),                       # iron touching the axis, source block on the axis
    1: dict(x0=0.0, main_iron=True, boxes=["coil", "magnet"], coil_mode="series"),
    2: dict(x0=0.5, main_iron=True, boxes=["coil", "coil"], coil_mode="parallel", coil_sigma=0.0, coil_J=1.0),
    3: dict(x0=0.0, boxes=["iron", "jblock"], two=False),                            # iron box on the axis in air
    4: dict(x0=0.0, boxes=["jblock", "iron"], two=True, external=True),              # interface, exterior region (maybe iron in it)
    5: dict(x0=0.0, main_iron=True, boxes=["solid", "iron"]),
    6: dict(x0=1.0, main_iron=True, boxes=["jblock", None], pbc=True, two=False),
    7: dict(x0=0.0, main_iron=True, boxes=["magnet", "jblock"]),
}


def gen_nl_problem(rng, k, size_nodes=25, force=None):
    """a static xaxi.gen_problem problem whose iron blocks (and, now and then, the magnet) carry B-H tables"""
    force = dict(force or {})
    fa = dict(NL_STRATA.get(k % 8, {}))
    fa.update(force.get("axi", {}))
    if "iron" in force:
        fa["iron"] = force["iron"]
    p = xaxi.gen_problem(rng, harmonic=False, size_nodes=size_nodes, force=fa)
    feats = p["features"]
    kinds = force.get("kinds")
    nl = 0
    for b in p["blockprops"]:
        nm = b["name"]
        isiron = nm.startswith("iron")
        ismag = nm.startswith("mag")
        if not (isiron or (ismag and rng.random() < 0.5)):
            continue
        if isiron and nl > 0 and rng.random() < 0.25 and not force.get("all_nl"):
            continue                                  # a linear iron next to a nonlinear one
        kind = (kinds[nl % len(kinds)] if kinds else rng.choice(xnl.TABLE_KINDS))
        t = c19.gen_table(vlib.Rng(rng.randint(0, 1 << 30)), kind, nmax=(3 if kind == "few" else rng.choice([6, 12, 25])))
        B, H = list(t["B"]), list(t["H"])
        if ismag:
            b["lamtype"], b["lamfill"] = 0, 1.0
        else:
            b["lamtype"] = force.get("lamtype", b.get("lamtype", 0))
            b["lamfill"] = force.get("lamfill", b.get("lamfill", 1.0))
        b["bh"] = [(float(x), float(y)) for x, y in zip(B, H)]
        b["bh_kind"] = kind
        feats.append("bh:%s:%dpt%s" % (kind, len(B), ":magnet" if ismag else ""))
        feats.append("nl:lam%d%s" % (b["lamtype"], ":fill" if b["lamfill"] != 1.0 else ""))
        nl += 1
    for l in p["labels"]:
        if l.get("external") and p["blockprops"][l["block"] - 1].get("bh"):
            feats.append("nl:in-exterior-region")
    p["nl_blocks"] = nl
    return p


def el_shape(rn, zn):
    """(vol, bz[3], br[3], R, area) of FEMM's modified-potential element (lengths in any one unit)"""
    pp = [zn[1] - zn[2], zn[2] - zn[0], zn[0] - zn[1]]
    qq = [rn[2] - rn[1], rn[0] - rn[2], rn[1] - rn[0]]
    gm = [(rn[2] + rn[1]) / 2, (rn[0] + rn[2]) / 2, (rn[1] + rn[0]) / 2]
    area = (pp[0] * qq[1] - pp[1] * qq[0]) / 2
    R = sum(rn) / 3
    vol = sum(rn[j] * rn[j] * pp[j] for j in range(3)) / 2
    bz = [pp[j] * rn[j] / vol for j in range(3)]
    br = [qq[j] * gm[j] * rn[j] / vol for j in range(3)]
    return vol, bz, br, R, area


def element_B_dump(d, V):
    """rough |B| per element (T) from a potential vector in solver units (V = A/c, lengths in cm): |B_z| and |B_r| at the centroid"""
    c = math.pi * 4e-5
    out = []
    for e in d["elems"]:
        n = e[0:3]
        rn = [d["nodes"][i][0] for i in n]; zn = [d["nodes"][i][1] for i in n]
        vol, bz, br, R, area = el_shape(rn, zn)
        Bz = sum(bz[j] * V[n[j]] for j in range(3)); Br = sum(br[j] * V[n[j]] for j in range(3)) / R
        out.append(100 * c * math.hypot(Bz, Br))
    return out


def scale_tables(p, d, rng):
    """scale every table (B and H axes alike) so that the first pass's flux densities reach into its curved part"""
    Bel = element_B_dump(d, d["passes"][0]["VSOL"])
    for bi, b in enumerate(p["blockprops"]):
        if not b.get("bh"):
            continue
        els = [i for i, e in enumerate(d["elems"]) if e[6] == bi]
        bm = max([Bel[i] for i in els if math.isfinite(Bel[i])] + [0.0])
        if not (bm > 0 and math.isfinite(bm)):
            continue
        top = b["bh"][-1][0]
        s = bm * rng.choice([0.1, 0.3, 0.8, 1.5, 4.0]) / top
        b["bh"] = [(x * s, y * s) for (x, y) in b["bh"]]
        b["bh_scale"] = s


# ------------------------------------------------------------------------------ dump ----
def parse_dump(path):
    d = xnl.parse_dump(path)
    d["logs"] = []
    d["ext"] = (0.0, 0.0, 0.0)
    d["labext"] = []
    for line in open(path):
        t = line.split()
        if not t:
            continue
        if t[0] == "EXT":
            d["ext"] = tuple(float(x) for x in t[1:4])
        elif t[0] == "ELEM":
            d["logs"].append(tuple(float(x) for x in t[12:18]))
        elif t[0] == "LABEL":
            d["labext"].append(int(t[9]))
    return d


def to_coq(d, npass):
    f = vlib.fhexs
    Vs = "[%s]" % "; ".join("[%s]" % "; ".join(f(v) for v in ps["VSOL"]) for ps in d["passes"][:npass])
    Vf = "[%s]" % "; ".join(f(v) for v in d["VFINAL"])
    return "anl_run FA %s %s %d %s %s %s" % (xaxi.coq_aprob(d), xnl.coq_mats(d), d["bw"], f(d["prec"]), Vs, Vf)


def compare(d, model, npass):
    trace, circ, flux = model
    bad, tot, nb = xnl.compare(d, (trace, circ), npass)
    a, b = d["BFINAL"], flux
    if a is None:
        return bad, tot, nb
    if len(a) != len(b):
        bad = bad or "written flux: different structure"
    else:
        for idx, (x, y) in enumerate(zip(a, b)):
            tot += 1
            if vlib.ulp_diff(x, float(y)) == 0:
                nb += 1
            elif not vlib.close(x, float(y), 64, 1e-300):
                bad = bad or "written flux 2 pi r A differs at node %d: implementation %r, model %r" % (idx, x, float(y))
    return bad, tot, nb


# ---------------------------------------------------- independent nonlinear residual ----
def nl_oracle(p, ans, prec):
    """the flux the real fsolver wrote satisfies K(nu(<B>)) A = f at the free nodes: xaxi's SI assembly with the block
    permeabilities replaced, element by element, by the secant permeability of the independently built curve at the element's
    volume-weighted rms flux density  <B>^2 = B_z^2 + (r B_r)^2 * mean(1/r) / mean(r)"""
    um = femgen.UNIT_M[p["units"]]
    nn = len(ans["nodes"])
    X = np.array([(n[0], n[1]) for n in ans["nodes"]]) * um
    onaxis = [abs(ans["nodes"][i][0]) < 1e-6 for i in range(nn)]
    A = np.array([0.0 if onaxis[i] else ans["nodes"][i][2] / (2 * math.pi * X[i, 0]) for i in range(nn)])
    curves = {}
    for bi, b in enumerate(p["blockprops"]):
        if b.get("bh"):
            curves[bi] = xnl.ref_curve(b)
            if curves[bi] is None:
                return None
    q = copy.deepcopy(p)
    elems = []
    extra = []
    for e in ans["elems"]:
        n = list(e[0:3]); lbl = e[3]
        bi = p["labels"][lbl]["block"] - 1
        if bi not in curves:
            elems.append(e); continue
        b = p["blockprops"][bi]
        P = X[n]
        rn = [float(P[j, 0]) for j in range(3)]; zn = [float(P[j, 1]) for j in range(3)]
        vol, bz, br, R, area = el_shape(rn, zn)
        nax = sum(1 for j in n if onaxis[j])
        if nax >= 2:
            Rhat = R
        else:
            Rhat = area / xaxi.inv_r_integral([(max(rn[j], 0.0) if not onaxis[n[j]] else 0.0, zn[j]) for j in range(3)])
        Bz = sum(bz[j] * A[n[j]] for j in range(3))
        rBr = sum(br[j] * A[n[j]] for j in range(3))
        Br2 = rBr * rBr / (R * Rhat)                # mean of B_r^2 weighted with r dr dz
        lt, fill = b.get("lamtype", 0), b.get("lamfill", 1.0)
        Hof, s0 = curves[bi]
        if lt == 0:
            Bm = math.sqrt(abs(Bz * Bz + Br2))
        elif lt == 1:
            Bm = math.sqrt(abs(Bz * Bz + Br2 / (fill * fill)))     # the code: (Mx + My/t^2)
        else:
            Bm = math.sqrt(abs(Bz * Bz / (fill * fill) + Br2))
        nu = (Hof(Bm) / Bm) if Bm > 0 else s0
        mu = 1.0 / (MU0 * nu)
        nb = dict(b); nb.pop("bh", None)
        if lt == 0:
            nb.update(mu_x=mu, mu_y=mu, lamtype=0, lamfill=1.0)
        elif lt == 1:
            # follows the code (findings/XNL-1): parallel direction mu*fill, series direction mu/(fill+mu(1-fill))
            nb.update(mu_x=mu * fill, mu_y=mu / (fill + mu * (1 - fill)), lamtype=0, lamfill=1.0)
        else:
            nb.update(mu_x=mu / (fill + mu * (1 - fill)), mu_y=mu * fill, lamtype=0, lamfill=1.0)
        q["blockprops"].append(nb)
        lab = dict(p["labels"][lbl]); lab["block"] = len(q["blockprops"])
        lab["external"] = 0                         # follows the code (findings/XNLAXI-1): no exterior-region factor after pass 0
        q["labels"].append(lab)
        extra.append(ans["labels"][lbl])
        elems.append(tuple(e[0:3]) + (len(q["labels"]) - 1,) + tuple(e[4:]))
    ans2 = dict(ans); ans2["elems"] = elems
    ans2["labels"] = list(ans["labels"]) + extra
    S = xaxi.si_system(q, ans2)
    if "error" in S:
        return S["error"], "mesh"
    K, f, presc, mag = S["K"], S["f"], S["presc"], S["mag"]
    if not np.all(np.isfinite(S["A"])):
        return "non-finite potentials in the solution", "nonfinite"
    for i, n in enumerate(ans["nodes"]):
        if S["onaxis"][i] and n[2] != 0:
            return "node %d is on the axis but the written flux is %r" % (i, n[2]), "axis-flux"
    r = K.dot(S["A"]) - f
    tied = set()
    for (i, j, t) in ans["pbcs"]:
        tied.add(i); tied.add(j)
    free = [i for i in range(nn) if i not in presc and i not in tied]
    tot = max(float(np.linalg.norm(mag)), 1e-300)
    if free:
        rel = float(np.linalg.norm(np.abs(r[free]))) / tot
        if rel > 3e3 * prec:
            worst = max(free, key=lambda i: abs(r[i]) / max(mag[i], 1e-300))
            return ("free-node residual of the NONLINEAR axisymmetric equations curl(nu(|B|) curl A) = J + curl Hc is %.3g "
                    "(relative); worst node %d" % (rel, worst)), "nl-residual"
    return None


# ------------------------------------------------------------------------ run cases ----
def run_case(ctx, name, p, solver=True):
    exe = vlib.build_harness(ctx.snap, HARNESS, libs=("fsolver", "femm"))
    f = os.path.join(ctx.work, "%s.fem" % name)
    c05_gen.write(p, f)
    rc, out, err = vlib.sh([ctx.snap.tool("fmesher"), f], timeout=120)
    if rc != 0:
        return None, None, "fmesher failed (rc=%d) on a well-formed problem: %s" % (rc, (out + err)[-300:])
    dump = f[:-4] + ".dump"
    if os.path.exists(dump):
        os.remove(dump)
    rc, out, err = vlib.sh([exe, f[:-4], dump, str(MAXPASS)], timeout=300)
    if not os.path.exists(dump):
        return None, None, "harness crashed (rc=%d): %s" % (rc, err[-300:])
    d = parse_dump(dump)
    d["rc"] = rc
    if not solver or d["noterm"]:
        return d, None, None
    rc2, out, err = vlib.sh([ctx.snap.tool("fsolver"), f[:-4]], timeout=300)
    ansf = f[:-4] + ".ans"
    d["newton_printed"] = out.count("Newton Iteration")
    if rc2 != 0 or not os.path.exists(ansf):
        return d, None, "fsolver failed (rc=%d) on a well-formed problem: %s" % (rc2, (out + err)[-300:])
    try:
        ans = xaxi.parse_ans(ansf, False)
    except Exception as e:
        return d, None, "the solution file written by fsolver cannot be parsed: %r" % (e,)
    if d["fail"] or rc != 0 or not d.get("solved"):
        return d, ans, "solver pipeline failed inside the harness: %s rc=%d solved=%s" % (d["fail"], rc, d.get("solved"))
    return d, ans, None


def gen_scaled(ctx, rng, k, name, size):
    p = gen_nl_problem(rng, k, size_nodes=size)
    if p["nl_blocks"] and k % 8 != 7:
        d, _, msg = run_case(ctx, name + "pre", p, solver=False)
        if d is not None and d["passes"] and not d["fail"]:
            scale_tables(p, d, rng)
    return p


def correspond(ctx):
    rng = ctx.rng
    count = 20 if ctx.quick() else 72
    passcap = 30 if ctx.quick() else 60
    limit = 70 if ctx.quick() else 240
    dis, exprs, cases, feats = [], [], [], {}
    npasses, sizes = [], []
    noterm = 0
    noterm_cases = []
    replayed = []
    if ctx.replay and isinstance(ctx.replay.get("replay"), dict) and isinstance(ctx.replay["replay"].get("problem"), dict):
        replayed.append(ctx.replay["replay"]["problem"])
    for k in range(-len(replayed), count):
        size = rng.choice([14, 20, 26]) if ctx.quick() else rng.choice([25, 50, 120])
        p = replayed[k + len(replayed)] if k < 0 else gen_scaled(ctx, rng, k, "n%d" % k, size)
        p.setdefault("features", []); p.setdefault("nl_blocks", sum(1 for b in p["blockprops"] if b.get("bh")))
        for ft in p["features"]:
            feats[ft] = feats.get(ft, 0) + 1
        d, ans, msg = run_case(ctx, ("n%d" % k) if k >= 0 else ("r%d" % -k), p)
        if msg:
            ctx.fail("fsolver (axisymmetric, nonlinear): " + msg, problem=p, signature="pipeline")
            continue
        if d["noterm"]:
            noterm += 1
            kinds = [b.get("bh_kind") for b in p["blockprops"] if b.get("bh")]
            what = ("fsolver (axisymmetric, nonlinear): the Newton loop of StaticAxisymmetric did not exit within %d passes (no cap in "
                    "the code); table kinds %s; last relative changes %s" % (MAXPASS, kinds, [ps["res"] for ps in d["passes"][-4:]]))
            if all(k == "line" for k in kinds):
                # C19: "... a straight line through the origin gives the same solution ... and the nonlinear iteration terminates"
                ctx.fail(what, problem=p, signature="no-termination")
            else:
                # curved tables: termination is not claimed (ASSUMPTIONS); recorded in the coverage, see findings/XNLAXI-2.md
                noterm_cases.append(dict(what=what, features=p["features"], kinds=kinds))
        else:
            msg = c05.consistent(d, ans, p) or xnl.harness_self_check(d)
            if msg:
                ctx.fail("fsolver (axisymmetric, nonlinear): " + msg, problem=p, signature="harness-vs-binary")
                continue
            r = nl_oracle(p, ans, d["prec"])
            if r:
                ctx.fail("fsolver (axisymmetric, nonlinear): " + r[0], problem=p, signature=r[1])
            last = d["passes"][-1]
            if any(ps["post"] is not None for ps in d["passes"]) and last["y"] != 0 and not (last["res"] < 100 * d["prec"]):
                ctx.fail("fsolver (axisymmetric, nonlinear): the loop exited although the last relative change %r is not below "
                         "100*Precision" % last["res"], problem=p, signature="exit-test")
        npasses.append(len(d["passes"]))
        sizes.append(d["nn"])
        if d["nn"] <= limit and d["passes"]:
            n = min(len(d["passes"]), passcap)
            if d["noterm"]:
                # cut off by the harness (no DONE / VFINAL / BFINAL lines): the passes it saw are compared all the same — these
                # are the runs in which the relaxation schedule (halving and growing Relax) is at work
                n = min(n, len(d["passes"]) - 1)
                d["VFINAL"] = d["passes"][n - 1]["VSOL"]
                d["BFINAL"] = None
            exprs.append(to_coq(d, n))
            cases.append((p, d, n))
    model = vlib.coq_eval(HEADER, exprs, shard=2, timeout=2400) if exprs else []
    nb = tot = 0
    for (p, d, n), m in zip(cases, model):
        bad, t, b = compare(d, m, n)
        tot += t; nb += b
        if bad:
            dis.append(dict(what="fsolver correspondence (StaticAxisymmetric, nonlinear loop): %s" % bad, problem=p))
    pairs = solver_pairs(ctx)
    cov = ctx.res.cov
    cov["evaluations"] = count + len(replayed) + pairs["runs"]
    cov["distinct_nontrivial"] = len(set(json.dumps(c[0], sort_keys=True) for c in cases if c[0].get("nl_blocks")))
    cov["rule"] = ("seeded static AXISYMMETRIC xaxi.gen_problem problems (rectangle touching the axis or not, interface / exterior region, "
                   "box next to the axis and free-standing box: coils in circuits, solid conductors, magnets, source current, mixed / "
                   "prescribed / periodic boundaries, all length units) whose iron blocks (sometimes the magnet too) carry seeded "
                   "monotone B-H tables of c19.gen_table (straight lines, knees, saturating tails, steel-like, 2-3 points, uneven, up to "
                   "25 points; LamType 0 with and without fill factor, LamType 1 and 2), scaled after a pre-run so that the first pass's "
                   "flux densities reach 0.1 .. 4 times the table's range; real fmesher, real FSolver inside the harness (per pass dump) "
                   "and real fsolver binary; the model is evaluated on the first %d passes; non-trivial = at least one nonlinear block, "
                   "meshed, solved and small enough for vm_compute; plus paired runs straight-line table vs linear material" % passcap)
    cov["input_distribution"] = feats
    cov["samples"] = [dict(features=c[0]["features"], nodes=c[1]["nn"], elements=c[1]["ne"], passes=len(c[1]["passes"])) for c in cases[:3]]
    cov["values_compared"] = tot
    cov["bit_identical"] = nb
    cov["bit_identical_fraction"] = (nb / tot) if tot else None
    cov["newton_passes"] = npasses
    cov["passes_compared"] = sum(c[2] for c in cases)
    cov["mesh_sizes"] = sizes
    cov["not_terminated_within_%d_passes" % MAXPASS] = noterm
    cov["not_terminated_cases"] = noterm_cases[:5]
    cov["solver_pairs"] = pairs
    cov["oracle"] = ("numpy SI assembly of the axisymmetric modified-potential equations (xaxi.si_system) with secant permeabilities from an "
                     "independent spline construction at the element's rms flux density, on the .ans written by the real fsolver; paired "
                     "straight-line-table / linear-material runs")
    hang_probe(ctx)
    return dis


def hang_probe(ctx):
    """the recorded finding XNLAXI-2: the Newton loops have no iteration cap; the 17-node problem findings/XNLAXI-2-replay.fem (monotone
    tables the material model accepts) keeps the real fsolver printing 'Newton Iteration' lines for ever.  Probed on every run with a
    12 s budget (the problem's linear twin solves in milliseconds); listed in known_findings.json"""
    import shutil, subprocess
    src = os.path.join(vlib.VERIF, "findings", "XNLAXI-2-replay.fem")
    if not os.path.exists(src):
        return
    f = os.path.join(ctx.work, "xnlaxi2_hang.fem")
    shutil.copy(src, f)
    rc, out, err = vlib.sh([ctx.snap.tool("fmesher"), f], timeout=60)
    if rc != 0:
        return
    log = open(f[:-4] + ".out", "w")
    pr = subprocess.Popen([ctx.snap.tool("fsolver"), f[:-4]], stdout=log, stderr=subprocess.STDOUT)
    try:
        rc = pr.wait(timeout=12)
        state = "returned"
    except subprocess.TimeoutExpired:
        pr.kill(); pr.wait()
        state = "running"
    log.close()
    n = sum(1 for l in open(f[:-4] + ".out", errors="replace") if l.startswith("Newton Iteration"))
    ctx.res.cov["xnlaxi2_probe"] = dict(state=state, newton_passes_printed=n)
    if state == "running":
        ctx.fail("XNLAXI-2 the nonlinear iteration has no iteration cap: fsolver was still printing Newton passes (%d so far) after 12 s on a "
                 "17-node axisymmetric problem with monotone B-H tables (findings/XNLAXI-2-replay.fem); Relax cycles between 2/11 and 1/11, "
                 "no solution file is written" % n, signature="XNLAXI-2", replay_file="findings/XNLAXI-2-replay.fem")


# ------------------------------------------------------ paired runs (reduction to linear) ----
XNL1 = "XNL-1 nonlinear laminations on edge drop the air term"
XNLAXI1 = "XNLAXI-1 nonlinear block in the exterior region loses the mapping factor"


def pair_problem(seed, mu, lamtype, lamfill, external=False, size=40):
    """the fixed problem family of the probes: iron main region touching the axis with a source-current box on the axis,
    centimetres; with external=True an interface whose right part is iron in the conformally mapped exterior region"""
    fa = dict(x0=0.0, main_iron=not external, boxes=["jblock", None], pbc=False, dosmartmesh=0, units="centimeters",
              two=external, external=external, iron=dict(mu_x=mu, mu_y=mu, lamtype=lamtype, lamfill=lamfill))
    rng = vlib.Rng(seed)
    for _ in range(40):
        p = xaxi.gen_problem(rng, harmonic=False, size_nodes=size, force=fa)
        irons = [b for b in p["blockprops"] if b["name"].startswith("iron")]
        if not irons:
            continue
        if external and not any(l.get("external") and p["blockprops"][l["block"] - 1]["name"].startswith("iron") for l in p["labels"]):
            continue
        return p
    return None


def run_pair(ctx, name, p, lin):
    """(A_lin, A_tab, newton passes of the table run) or None"""
    res = []
    for nm, q in (("lin", lin), ("tab", p)):
        f = os.path.join(ctx.work, "%s%s.fem" % (name, nm))
        c05_gen.write(q, f)
        rc, out, err = vlib.sh([ctx.snap.tool("fmesher"), f], timeout=120)
        rc2, out, err = vlib.sh([ctx.snap.tool("fsolver"), f[:-4]], timeout=300) if rc == 0 else (1, "", "")
        if rc != 0 or rc2 != 0 or not os.path.exists(f[:-4] + ".ans"):
            return None
        res.append((xaxi.parse_ans(f[:-4] + ".ans", False), out.count("Newton Iteration")))
    (a1, _), (a2, its) = res
    if [n[:2] for n in a1["nodes"]] != [n[:2] for n in a2["nodes"]]:
        return "mesh"
    return a1, a2, its


def line_tables(p, mu, rng):
    """p with straight-line tables of relative permeability mu on its iron blocks; returns the linear twin"""
    lin = copy.deepcopy(p)
    for b, bl in zip(p["blockprops"], lin["blockprops"]):
        if b["name"].startswith("iron"):
            n = rng.randint(2, 12)
            Bk = c19.uneven_knots(rng, n, rng.choice([0.5, 2.0, 4.0]), rng.choice([1.0, 20.0]))
            kk = 1.0 / (mu * MU0)
            b["bh"] = [(x, kk * x) for x in Bk]
            b.update(mu_x=mu, mu_y=mu); bl.update(mu_x=mu, mu_y=mu)
            bl.pop("bh", None)
    return lin


def solver_pairs(ctx):
    """an axisymmetric problem with a straight-line table on its iron (LamType 0, with and without fill factor) against the same
    problem with the linear material of that permeability: same written flux, few Newton passes; plus the two recorded probes"""
    rng = vlib.Rng(ctx.seed + 4711)
    npairs = 3 if ctx.quick() else 10
    st = dict(runs=0, pairs=[], max_rel_dA=0.0)
    plan = [("pair", None)] * npairs + [("xnl1", 1), ("xnl1", 2), ("ext", 0)]
    for k, (kind, arg) in enumerate(plan):
        if kind == "pair":
            mu = rng.choice([50.0, 1000.0, 4000.0, float(rng.randint(2, 20000))])
            lamfill = rng.choice([1.0, 1.0, 0.9, 0.5])
            p = pair_problem(ctx.seed + 100 + k, mu, 0, lamfill, size=30)
        elif kind == "xnl1":
            mu, lamfill = 2.0, 0.5
            p = pair_problem(7, mu, arg, lamfill)
        else:
            mu, lamfill = 50.0, 1.0
            p = pair_problem(7, mu, 0, lamfill, external=True)
        if p is None:
            continue
        lin = line_tables(p, mu, rng)
        replay = dict(problem=p, linear_problem=lin, mu=mu)
        r = run_pair(ctx, "pair%d" % k, p, lin)
        st["runs"] += 2
        if r is None:
            ctx.fail("paired run: fmesher / fsolver failed or did not terminate", signature="pair-pipeline", **replay)
            continue
        if r == "mesh":
            ctx.fail("paired run: the two problems were meshed differently", signature="pair-mesh", **replay)
            continue
        a1, a2, its = r
        A1 = np.array([n[2] for n in a1["nodes"]]); A2 = np.array([n[2] for n in a2["nodes"]])
        amax = max(float(np.abs(A1).max()), 1e-300)
        dA = float(np.abs(A1 - A2).max() / amax)
        if kind == "xnl1":
            st["xnl1_axi_probe_lam%d_rel_dflux" % arg] = dA
            st["xnl1_axi_probe_lam%d_newton" % arg] = its
            if not dA <= 1e-5:
                msg = (XNL1 + ": a straight-line B-H table of relative permeability 2 on a block laminated on edge (LamType %d) with fill "
                       "0.5 and the linear material of that permeability give different AXISYMMETRIC solutions (max |dflux|/max|flux| = "
                       "%.3g): FSolver::StaticAxisymmetric stores mu*fill where the first pass and the linear material use mu*fill + "
                       "(1 - fill)" % (arg, dA))
                if ctx.pid == "XNLAXI":
                    ctx.res.notes.append("known finding (recorded for property C19, reported when merged): " + msg)
                else:
                    ctx.fail(msg, signature="XNL-1", **replay)
            continue
        if kind == "ext":
            st["xnlaxi1_probe_rel_dflux"] = dA
            st["xnlaxi1_probe_newton"] = its
            if not dA <= 1e-5:
                msg = (XNLAXI1 + ": a straight-line B-H table of relative permeability 50 on a block in the conformally mapped exterior "
                       "region and the linear material of that permeability give different solutions (max |dflux|/max|flux| = %.3g): "
                       "StaticAxisymmetric divides the permeability by the mapping factor in the pass Iter == 0 only" % dA)
                if ctx.pid == "XNLAXI":
                    ctx.res.notes.append("finding findings/XNLAXI-1.md (reported as a violation once merged unless recorded): " + msg)
                else:
                    ctx.fail(msg, signature="XNLAXI-1", **replay)
            continue
        st["max_rel_dA"] = max(st["max_rel_dA"], dA)
        if not dA <= 1e-5:
            ctx.fail("straight-line B-H table and linear material of the same permeability give different axisymmetric solutions "
                     "(max |dflux|/max|flux| = %.3g, LamFill %g)" % (dA, lamfill), signature="pair-solution", **replay)
            continue
        if its > 25:
            ctx.fail("Newton iteration needed %d passes on a straight-line table" % its, signature="pair-passes", **replay)
        st["pairs"].append(dict(mu=mu, lamfill=lamfill, nodes=len(A1), newton=its, rel_dflux=dA))
    return st


def search(ctx, broken):
    found = []
    rng = vlib.Rng(ctx.seed + 9)
    for k in range(24):
        p = gen_scaled(ctx, rng, k, "s%d" % k, 20)
        d, ans, msg = run_case(ctx, "s%d" % k, p)
        if msg:
            found.append(dict(what="fsolver (axisymmetric, nonlinear): " + msg, problem=p, signature="pipeline")); break
        if d["noterm"]:
            found.append(dict(what="fsolver (axisymmetric, nonlinear): no exit within %d passes" % MAXPASS, problem=p, signature="no-termination")); break
        r = nl_oracle(p, ans, d["prec"])
        if r:
            found.append(dict(what="fsolver (axisymmetric, nonlinear): " + r[0], problem=p, signature=r[1])); break
    return found
