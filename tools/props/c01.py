"""C01 — mesher output is a valid conforming triangulation of the drawn geometry.
Triangle itself is not modelled; the property is decided by a result checker written in Coq
(coq/theories/MeshCheck.v, exact integer arithmetic) whose core is proved sound
(MeshCheckProofs.v: orientation, edge-manifoldness, discrete Green identity, boundary on drawn
entities) and which is evaluated by vm_compute on every mesh produced by the real fmesher for
generated problems.  The PSLG handed to Triangle is taken from `fmesher --write-poly`; its
relation to the drawing (subdivision of lines and arcs) is the Discretize.v model (see C18)."""
import os, json, copy
import vlib, femgen, meshlib, geomgen

EXTRA_PROPERTY_FILES = ["C02_poly"]     # C01_poly_*: switch string, written files = Triangle's arrays (PolyWrite.v, run with C18)
LEVEL = "translation_validation"
COQ_MODULES = ["MeshCheck"]
ASSUMPTIONS = [
    "Triangle (triangle.c) is not modelled: each produced mesh is validated by a checker whose soundness lemmas are proved in Coq",
    "coverage of the drawn domain follows from: elements CCW + edge-manifold + every boundary edge on a drawn entity + every drawn entity a chain of mesh edges + labels located; the final planar-topology step (Jordan) is argued in DESIGN.md, not formalised",
    "coordinates are converted to integers exactly (common power-of-two scaling) by tools/meshlib.py",
]
HEADER = "From Coq Require Import ZArith List. Import ListNotations. From XF Require Import MeshCheck. Local Open Scope Z_scope."


def mesh_problem(ctx, k, p):
    ext = {"fee": ".fee", "feh": ".feh", "fem": ".fem"}[p["kind"]]
    f = os.path.join(ctx.work, "m%d%s" % (k, ext))
    femgen.write(p, f)
    rc, out, err = vlib.sh([ctx.snap.tool("fmesher"), "--write-poly", f], timeout=300)
    base = f[:-4]
    if rc != 0 or not os.path.exists(base + ".ele"):
        return None, "fmesher failed (rc=%d) on a well-formed problem: %s" % (rc, (out + err)[-300:])
    try:
        return meshlib.load_mesh(base), None
    except Exception as e:
        return None, "mesh files unreadable: %r" % (e,)


def arc_oracle(p, d):
    """every drawn arc (n0 -> n1 counter-clockwise, span a, maximum segment angle m) must appear in the
    PSLG handed to Triangle as its polygon of EQUAL chords: the PSLG vertices on the arc, ordered by
    angle, start at n0, end at n1, are joined pairwise by PSLG segments, subtend equal angles, and no
    chord subtends more than m.  (That each PSLG chord is a chain of mesh edges is the validator's job.)"""
    import cmath, math
    poly = d["poly"]
    P = [complex(x, y) for (x, y) in poly["points"]]
    pts = p["points"]
    for i, q in enumerate(pts):
        if i >= len(P) or P[i] != complex(q["x"], q["y"]):
            return "PSLG vertex %d is not the drawn point %d (%r)" % (i, i, (q["x"], q["y"]))
    segset = set()
    for (u, v, m) in poly["segs"]:
        segset.add((u, v)); segset.add((v, u))
    for ai, a in enumerate(p.get("arcs", [])):
        p0, p1 = P[a["n0"]], P[a["n1"]]
        span = math.radians(a["angle"])
        m = float(a.get("maxseg", 10))
        ch = p1 - p0
        c = p0 + ch / 2 + 1j * (ch / 2) / math.tan(span / 2)
        R = abs(p0 - c)
        on = []
        for k, q in enumerate(P):
            if abs(abs(q - c) - R) > 1e-9 * R:
                continue
            th = cmath.phase((q - c) / (p0 - c))
            if th < -1e-9:
                th += 2 * math.pi
            if th <= span + 1e-9:
                on.append((th, k))
        on.sort()
        ids = [k for (_, k) in on]
        if not ids or ids[0] != a["n0"] or ids[-1] != a["n1"]:
            return "arc %d: the PSLG vertices on the arc do not run from its first to its last point (found %r)" % (ai, ids[:8])
        for (t0, u), (t1, v) in zip(on[:-1], on[1:]):
            if (u, v) not in segset:
                return ("arc %d (span %g deg, max segment %g deg): consecutive vertices %d and %d on the arc are not joined by a PSLG "
                        "segment: the arc is not replaced by its chord polygon" % (ai, a["angle"], m, u, v))
        nch = len(on) - 1
        for (t0, u), (t1, v) in zip(on[:-1], on[1:]):
            dth = math.degrees(t1 - t0)
            if dth > m * (1 + 1e-9):
                return "arc %d with maximum segment angle %g deg has a chord subtending %.9g deg (%d chords for a span of %g deg)" % (ai, m, dth, nch, a["angle"])
            if abs(dth - a["angle"] / nch) > 1e-7 * a["angle"]:
                return "arc %d: chords are not equal (%.12g deg vs %.12g deg)" % (ai, dth, a["angle"] / nch)
    return None


def corrupt(d, how):
    """negative controls: a validator that accepts these is broken"""
    c = copy.deepcopy(d)
    if how == "flip":
        a, b, cc = c["T"][0]; c["T"][0] = (a, cc, b)
    elif how == "dup":
        c["T"].append(c["T"][0]); c["A"].append(c["A"][0])
    elif how == "move":
        # move an interior Steiner point-free vertex: shift the last node
        x, y = c["X"][-1]; c["X"][-1] = (x + 0.25, y + 0.125)
        c["X"][0] = (c["X"][0][0] - 0.5, c["X"][0][1])
    elif how == "attr":
        c["A"][0] = c["A"][0] + 7
    elif how == "drop":
        c["T"].pop(); c["A"].pop()
    elif how == "mark":
        for i, (u, v, m) in enumerate(c["E"]):
            if m < 0:
                c["E"][i] = (u, v, m - 1); break
        else:
            return None
    return c


def correspond(ctx):
    rng = ctx.rng
    count = 15 if ctx.quick() else 120
    exprs, cases, feats = [], [], {}
    for k in range(count):
        p = geomgen.gen_any(rng, k, quick=ctx.quick())
        for ft in p.get("features", []):
            feats[ft] = feats.get(ft, 0) + 1
        d, msg = mesh_problem(ctx, k, p)
        if msg:
            ctx.fail(msg, problem=p)
            continue
        msg = arc_oracle(p, d)
        if msg:
            ctx.fail("arc discretisation: " + msg, problem=p)
        if p["features"][0].startswith("periodic") or k % 5 == 0:
            # the mesh written inside a femmcli session with entities left selected must be this (validated) mesh, byte for byte
            from props import c02
            msg = c02.session_mesh(ctx, k, p)
            feats["session-with-selection"] = feats.get("session-with-selection", 0) + 1
            if msg:
                ctx.fail("mesh of a scripted session: " + msg, problem=p)
        if len(d["T"]) > (1500 if ctx.quick() else 8000):
            continue
        e, info = meshlib.to_coq(d)
        exprs.append(e)
        cases.append((p, d, info))
    # negative controls on the first mesh
    controls = []
    if cases:
        for how in ("flip", "dup", "move", "attr", "drop", "mark"):
            c = corrupt(cases[0][1], how)
            if c is not None:
                controls.append(how)
                exprs.append(meshlib.to_coq(c)[0])
    res = vlib.coq_eval(HEADER, exprs, shard=6, timeout=3000)
    dis = []
    for (p, d, info), v in zip(cases, res):
        rep = meshlib.parse_report(v)
        if not meshlib.report_ok(rep):
            ctx.fail("mesh rejected by the verified validator: " + meshlib.first_failure(rep), problem=p,
                     report={k: (rep[k] if not isinstance(rep[k], list) else rep[k][:5]) for k in rep})
        if info["skipped_segments"]:
            ctx.res.notes.append("segments with an endpoint that is not a mesh vertex (outside meshed regions): %d" % len(info["skipped_segments"]))
    for how, v in zip(controls, res[len(cases):]):
        rep = meshlib.parse_report(v)
        if meshlib.report_ok(rep):
            dis.append(dict(what="negative control '%s' (deliberately corrupted mesh) was accepted by the validator" % how))
    cov = ctx.res.cov
    cov["evaluations"] = count
    cov["distinct_nontrivial"] = len(set(json.dumps(c[0], sort_keys=True, default=str) for c in cases))
    cov["programs"] = len(cases)
    cov["disagreements_checked"] = len(cases) + len(controls)
    cov["rule"] = ("seeded geometries of all three file types (rectangles with interfaces / inner boxes / holes, nested "
                   "polygons, circles and rounded shapes built from arcs, multiply connected regions, cells with (anti)periodic "
                   "pairs of arcs / lines; every drawn arc must be its equal-chord polygon in the PSLG; mesh sizes, minimum "
                   "angles 1-33 deg, smart mesh on/off) meshed by the real fmesher; every mesh is evaluated by the Coq "
                   "validator; 6 corrupted copies of one mesh must be rejected (negative controls)")
    cov["input_distribution"] = feats
    cov["samples"] = [dict(features=c[0].get("features"), nodes=len(c[1]["X"]), elements=len(c[1]["T"])) for c in cases[:4]]
    cov["mesh_sizes"] = [len(c[1]["T"]) for c in cases]
    cov["negative_controls"] = controls
    return dis


def search(ctx, broken):
    return []
