"""C20 — a missing input is reported as failure, never a crash or a bogus result.

Model: coq/theories/Faults.v interpreting coq/theories/gen/FaultTable.v, which regen() rewrites from
the snapshot's sources on every run (tools/translate_faults.py).  Theorems: Properties_C20.v
(property for every tool x environment, minus the rows listed in FaultExceptions.v; each listed
row proved to fail; both by vm_compute over the finite domain).

Correspondence (exhaustive, every run): for every tool x scenario x role the tool reads in that
scenario x fault kind the REAL binary of the snapshot is run in a scratch directory built from the
repo's own test data with that one input removed / made unreadable (chmod 000 under a non-root
uid) / lacking block labels / lacking a material / with an unwritable result; exit status,
terminating signal, time-out and freshness of the result files are compared with the model's
prediction for the same environment (vlib.coq_eval over the regenerated table).
Property oracle (independent of the model): a row with a needed input missing that ends in a signal,
a time-out, status 0 or a fresh result file, and an all-present row that does not end with status 0
and fresh results, is reported with ctx.fail (replay carries a stable "signature")."""
import os, re, json, shutil, stat, time
from concurrent.futures import ThreadPoolExecutor
import vlib
import translate_faults

LEVEL = "proof"
EXTRA_PROPERTY_FILES = ["C20_load"]     # the mesh readers reject element attributes that name no label (LoadMesh.v)
COQ_MODULES = ["Faults", "gen/FaultTable", "FaultExceptions"]
ASSUMPTIONS = [
    "the fault table is extracted from the C++ sources by regular expressions over a fixed list of anchors "
    "(tools/translate_faults.py), not by a C++ front end; what it claims is tied to the binaries by the exhaustive "
    "single-fault runs of this check, not proved",
    "the model covers the decision logic only (which step fails, is the failure tested, which status results); "
    "process, file-system, Lua interpreter and Triangle behaviour are observed on the real binaries, not modelled",
    "Abnormal in the model means 'behaviour undefined' (ignored load failure whose data is used): the real binary is "
    "accepted on such a row when it does anything but fail cleanly (signal, time-out, status 0 or a fresh result)",
    "'unreadable' is produced with chmod 000 and the tool run under uid/gid 65534 (setpriv); 'output unwritable' with a "
    "root-owned 0755 directory under the same uid; content faults are file edits of the repo's test problems "
    "(all block labels removed; one block label / hole marker removed so that a region has no material; "
    "a label given an unknown material through Lua)",
    "a block label whose material index is 0 in a problem FILE is a hole for xfemm's readers, so 'a block without material' "
    "is presented to the solvers as a region without block label (role Regions) and, through femmcli only, as a block label "
    "given an unknown material name with xx_setblockprop (role Material)",
    "environments with several simultaneous faults are covered by the theorem (all 2^12*8 representatives) but only "
    "pairs of absent files are replayed on the binaries, and only in the thorough tier",
    "the harmonic write path of fsolver (WriteHarmonic2D) and the periodic-mesher path inside femmcli analyze are in the "
    "translator's anchor list but no fixture exercises them (fmesher's own periodic path is exercised by fmesher/test/Temp.fem)",
]
HEADER = ("From Coq Require Import ZArith List String. Import ListNotations. "
          "From XF Require Import Faults FaultExceptions. From XF.gen Require Import FaultTable. "
          "Local Open Scope string_scope.")
GEN = os.path.join(vlib.COQDIR, "theories", "gen", "FaultTable.v")
OLD = 946684800            # 2000-01-01: mtime of planted stale result files
STALE = b"stale result planted by the C20 check\n"
TIMEOUT = 90
_ROWS = []                 # translated table (for the evidence)


def regen(ctx):
    text, rows = translate_faults.translate(ctx.snap.src)
    vlib.write_if_changed(GEN, text)
    del _ROWS[:]
    _ROWS.extend(rows)
    from props import xload
    xload.regen(ctx)          # gen/LoadConsts.v (error codes of LoadMesh) for Properties_C20_load.v


# ------------------------------------------------------------------- problem-file variants ----
def _nl(t):
    return "\r\n" if "\r\n" in t else "\n"


def _section(t, key):
    """(start, end_of_header_line, count, lines, rest_start) of `[key] = n` followed by n lines."""
    m = re.search(r"^\[%s\][ \t]*=[ \t]*(\d+)[ \t]*\r?\n" % key, t, re.M | re.I)
    if not m:
        return None
    n = int(m.group(1))
    pos = m.end()
    lines = []
    for _ in range(n):
        e = t.index("\n", pos) + 1
        lines.append(t[pos:e])
        pos = e
    return m.start(), m.end(), n, lines, pos


def set_section(t, key, lines):
    s = _section(t, key)
    return t[:s[0]] + "[%s] = %d%s" % (key, len(lines), _nl(t)) + "".join(lines) + t[s[4]:]


def bbox(t):
    s = _section(t, "NumPoints")
    xs, ys = [], []
    for l in s[3]:
        f = l.split()
        xs.append(float(f[0])); ys.append(float(f[1]))
    return min(xs), min(ys), max(xs), max(ys)


def v_nolabels(t, holes):
    """All block labels removed; hole markers kept/added (holes=True) or removed (holes=False)."""
    t = set_section(t, "NumBlockLabels", [])
    h = _section(t, "NumHoles")
    if holes:
        if h[2] == 0:
            x0, y0, x1, y1 = bbox(t)
            t = set_section(t, "NumHoles", ["%.17g\t%.17g\t0%s" % (x1 + 0.5 * (x1 - x0) + 1, y1 + 0.5 * (y1 - y0) + 1, _nl(t))])
    else:
        t = set_section(t, "NumHoles", [])
    return t


def v_nomaterial(t):
    """One region is left without block label: drop a block label when there are several, else turn
    a hole region into an unlabelled region by dropping its hole marker."""
    L = _section(t, "NumBlockLabels")
    if L[2] >= 2:
        return set_section(t, "NumBlockLabels", L[3][1:]), "first of %d block labels removed" % L[2]
    h = _section(t, "NumHoles")
    if h and h[2] >= 1:
        return set_section(t, "NumHoles", h[3][1:]), "first of %d hole markers removed (its region is now unlabelled)" % h[2]
    raise RuntimeError("cannot build a region-without-material variant")


def v_prevref(t, name):
    t2, n = re.subn(r"^\[PrevSoln\][^\r\n]*", '[PrevSoln] = "%s"' % name, t, flags=re.M | re.I)
    if n == 1:
        return t2
    if n > 1:
        raise RuntimeError("several [PrevSoln] lines")
    # no such line (fsolver/test/Temp1.fem): add it after the first line
    e = t.index("\n") + 1
    return t[:e] + '[PrevSoln] = "%s"%s' % (name, _nl(t)) + t[e:]


def v_nocircuits(t):
    """the same magnetics problem without circuit properties (FSolver::LoadProblemFile returns early for NumCircProps == 0)"""
    m = re.search(r"^\[CircuitProps\][ \t]*=[ \t]*(\d+)[ \t]*\r?\n", t, re.M | re.I)
    if not m:
        raise RuntimeError("no [CircuitProps] line")
    pos = m.end()
    for _ in range(int(m.group(1))):
        e = re.compile(r"<EndCircuit>[ \t]*\r?\n", re.I).search(t, pos)
        pos = e.end()
    t = t[:m.start()] + "[CircuitProps]  = 0" + _nl(t) + t[pos:]
    sct = _section(t, "NumBlockLabels")
    lines = []
    for l in sct[3]:
        f = l.rstrip("\r\n").split("\t")
        if len(f) < 9:
            f = l.split()
        f[4] = "0"
        lines.append("\t".join(f) + _nl(t))
    return set_section(t, "NumBlockLabels", lines)


def has_holes(t):
    h = _section(t, "NumHoles")
    return bool(h and h[2] > 0)


def first_label_xy(t):
    L = _section(t, "NumBlockLabels")
    f = L[3][0].split()
    return f[0], f[1]


# --------------------------------------------------------------------------- scenarios ----
PH = {
    "Mag": dict(solver="fsolver", ext=".fem", sol=".ans", pre="mi", post="m"),
    "Ele": dict(solver="esolver", ext=".fee", sol=".res", pre="ei", post="e"),
    "Heat": dict(solver="hsolver", ext=".feh", sol=".anh", pre="hi", post="h"),
}
MESH = [("MeshNode", ".node"), ("MeshPbc", ".pbc"), ("MeshEle", ".ele"), ("MeshEdge", ".edge")]
ROLE_NAME = {"Script": "script", "Problem": "problem", "MeshNode": "mesh-node", "MeshPbc": "mesh-pbc",
             "MeshEle": "mesh-ele", "MeshEdge": "mesh-edge", "PrevSolution": "prev-solution",
             "Solution": "solution", "Labels": "labels", "Material": "material", "Regions": "regions",
             "Output": "output"}
FSTATE = {"absent": "Absent", "unreadable": "Unreadable", "unwritable": "Unreadable"}


def rd(p):
    return open(p, "rb").read()


class Fix:
    """Valid inputs made from the snapshot's own test data by the snapshot's own tools (the chain
    of the repo's cmake tests: fmesher -> solver)."""

    def __init__(self, ctx):
        self.ctx = ctx
        self.dir = os.path.join(ctx.work, "fix")
        os.makedirs(self.dir, exist_ok=True)
        self.n = 0
        src = ctx.snap.src
        self.problem = {   # scenario -> (physics, base name, problem text)
            "m:Temp1": ("Mag", "Temp1", rd(os.path.join(src, "fsolver/test/Temp1.fem")).decode("latin1")),
            "e:test": ("Ele", "test", rd(os.path.join(src, "esolver/test/test.fee")).decode("latin1")),
            "h:Temp0": ("Heat", "Temp0", rd(os.path.join(src, "hsolver/test/Temp0.feh")).decode("latin1")),
            "h:Temp1": ("Heat", "Temp1", rd(os.path.join(src, "hsolver/test/Temp1.feh")).decode("latin1")),
        }
        self.problem["m:Temp2prev"] = ("Mag", "Temp2", v_prevref(self.problem["m:Temp1"][2], "Temp1.ans"))
        # the same without circuit properties, with (stale) mesh files beside it, as after running the mesher first
        self.problem["m:Temp3prevnc"] = ("Mag", "Temp3", v_nocircuits(v_prevref(self.problem["m:Temp1"][2], "Temp1.ans")))
        self.mesh, self.sol = {}, {}
        self.errors = []

    def tool(self, n):
        return self.ctx.snap.tool(n)

    def scratch(self):
        self.n += 1
        d = os.path.join(self.dir, "d%d" % self.n)
        os.makedirs(d)
        return d

    def run(self, cmd, cwd):
        rc, out, err = vlib.sh(cmd, cwd=cwd, timeout=TIMEOUT)
        if rc != 0:
            self.errors.append(dict(cmd=[os.path.basename(cmd[0])] + cmd[1:], rc=rc, tail=(out + err)[-400:]))
        return rc

    def do_mesh(self, text, base, ext):
        """mesh files fmesher makes for a problem text: dict ext -> bytes, or None"""
        d = self.scratch()
        open(os.path.join(d, base + ext), "wb").write(text.encode("latin1"))
        rc = self.run([self.tool("fmesher"), base + ext], d)
        if rc != 0:
            return None
        try:
            return {e: rd(os.path.join(d, base + e)) for _, e in MESH}
        except OSError:
            self.errors.append(dict(cmd=["fmesher", base + ext], rc=rc, tail="mesh files not all produced"))
            return None

    def periodic(self, sc):
        """does the problem of a scenario have (anti)periodic boundaries?  (.pbc written by fmesher lists pairs)"""
        sc = {"m:Temp2prev": "m:Temp1", "m:Temp3prevnc": "m:Temp1"}.get(sc, sc)
        m = self.mesh.get(sc)
        try:
            return int(m[".pbc"].split()[0]) > 0
        except Exception:
            return False

    def build(self):
        src = self.ctx.snap.src
        self.mesh["fm:m:Temp"] = self.do_mesh(rd(os.path.join(src, "fmesher/test/Temp.fem")).decode("latin1"), "Temp", ".fem")
        for sc in ("m:Temp1", "e:test", "h:Temp0", "h:Temp1"):
            ph, base, text = self.problem[sc]
            self.mesh[sc] = self.do_mesh(text, base, PH[ph]["ext"])
        # premeshed magnetics problem shipped with the repo (fsolver/test/Temp.*)
        self.problem["m:Temp-premeshed"] = ("Mag", "Temp", rd(os.path.join(src, "fsolver/test/Temp.fem")).decode("latin1"))
        self.mesh["m:Temp-premeshed"] = {e: rd(os.path.join(src, "fsolver/test/Temp" + e)) for _, e in MESH}
        # solutions: Temp1.ans, test.res, Temp0.anh (= previous solution of h:Temp1), Temp1.anh
        for sc in ("m:Temp1", "e:test", "h:Temp0"):
            self.sol[sc] = self.solve(sc, {})
        self.sol["h:Temp1"] = self.solve("h:Temp1", {"Temp0.anh": self.sol.get("h:Temp0")})
        self.mesh["m:Temp2prev"] = None
        self.mesh["m:Temp3prevnc"] = self.do_mesh(self.problem["m:Temp3prevnc"][2], "Temp3", ".fem")
        return not self.errors

    def solve(self, sc, extra):
        ph, base, text = self.problem[sc]
        if not self.mesh.get(sc) or any(v is None for v in extra.values()):
            return None
        d = self.scratch()
        open(os.path.join(d, base + PH[ph]["ext"]), "wb").write(text.encode("latin1"))
        for e, b in self.mesh[sc].items():
            open(os.path.join(d, base + e), "wb").write(b)
        for n, b in extra.items():
            open(os.path.join(d, n), "wb").write(b)
        if self.run([self.tool(PH[ph]["solver"]), base], d) != 0:
            return None
        try:
            return rd(os.path.join(d, base + PH[ph]["sol"]))
        except OSError:
            self.errors.append(dict(cmd=[PH[ph]["solver"], base], rc=0, tail="no solution file"))
            return None


class Row(dict):
    """One run of a real binary.  Keys: tool (model term), tname (name used in signatures), scen, role, fault,
    variant, files {name: bytes}, fault_files [names], cmd [argv, argv[0] = tool name], outputs [names],
    prevref, holes, faults [(role, state)] for the model, lua (bool)."""
    pass


def sig(r):
    if r["fault"] is None:
        return "%s:all-present" % r["tname"]
    if isinstance(r["role"], list):
        return "%s:%s:%s" % (r["tname"], "+".join(ROLE_NAME[x] for x in r["role"]), r["fault"])
    return "%s:%s:%s" % (r["tname"], ROLE_NAME[r["role"]], r["fault"])


def make_rows(fx, have_uid, thorough):
    rows = []

    def add(**k):
        k.setdefault("variant", "")
        k.setdefault("fault_files", [])
        k.setdefault("prevref", False)
        k.setdefault("holes", False)
        k.setdefault("periodic", False)
        k.setdefault("lua", False)
        k.setdefault("pre", [])
        if k["fault"] in ("unreadable", "unwritable") and not have_uid:
            return
        if k["fault"] is None:
            k["faults"] = []
        elif isinstance(k["role"], list):
            k["faults"] = [(x, FSTATE[k["fault"]]) for x in k["role"]]
        else:
            k["faults"] = [(k["role"], FSTATE[k["fault"]])]
        rows.append(Row(k))

    # ---------------------------------------------------------------- fmesher ----
    src = fx.ctx.snap.src
    fm = {"m:Temp": ("Temp", ".fem", rd(os.path.join(src, "fmesher/test/Temp.fem"))),
          "e:test": ("test", ".fee", fx.problem["e:test"][2].encode("latin1")),
          "h:Temp0": ("Temp0", ".feh", fx.problem["h:Temp0"][2].encode("latin1"))}
    for sc, (base, ext, data) in fm.items():
        outs = [base + e for _, e in MESH]
        common = dict(tool="Fmesher", tname="fmesher", scen=sc, files={base + ext: data}, cmd=["fmesher", base + ext],
                      outputs=outs, holes=has_holes(data.decode("latin1")),
                      periodic=fx.periodic("fm:m:Temp" if sc == "m:Temp" else sc))
        add(role=None, fault=None, **common)
        add(role="Problem", fault="absent", fault_files=[base + ext], **common)
        add(role="Problem", fault="unreadable", fault_files=[base + ext], **common)
        add(role="Output", fault="unwritable", **common)

    # ---------------------------------------------------------------- solvers ----
    for sc in ("m:Temp1", "m:Temp-premeshed", "m:Temp2prev", "m:Temp3prevnc", "e:test", "h:Temp0", "h:Temp1"):
        ph, base, text = fx.problem[sc]
        P = PH[ph]
        prevref = sc in ("m:Temp2prev", "m:Temp3prevnc", "h:Temp1")
        files = {base + P["ext"]: text.encode("latin1")}
        mesh_needed = sc not in ("m:Temp2prev", "m:Temp3prevnc")
        if sc == "m:Temp3prevnc":
            # mesh files are present but not needed (the mesh comes with the previous solution): not fault roles
            if not fx.mesh.get(sc):
                continue
            for _, e in MESH:
                files[base + e] = fx.mesh[sc][e]
        if mesh_needed:
            if not fx.mesh.get(sc):
                continue
            for _, e in MESH:
                files[base + e] = fx.mesh[sc][e]
        prev_name = None
        if sc in ("m:Temp2prev", "m:Temp3prevnc"):
            prev_name, prev = "Temp1.ans", fx.sol.get("m:Temp1")
        if sc == "h:Temp1":
            prev_name, prev = "Temp0.anh", fx.sol.get("h:Temp0")
        if prev_name:
            if prev is None:
                continue
            files[prev_name] = prev
        common = dict(tool="Solver " + ph, tname=P["solver"], scen=sc, cmd=[P["solver"], base], outputs=[base + P["sol"]],
                      prevref=prevref, holes=has_holes(text), periodic=fx.periodic(sc))
        add(role=None, fault=None, files=files, **common)
        froles = [("Problem", base + P["ext"])]
        if mesh_needed:
            froles += [(r, base + e) for r, e in MESH]
        if prev_name:
            froles.append(("PrevSolution", prev_name))
        for role, fn in froles:
            for fault in ("absent", "unreadable"):
                add(role=role, fault=fault, files=files, fault_files=[fn], **common)
        add(role="Output", fault="unwritable", files=files, **common)
        if thorough:
            for i in range(len(froles)):
                for j in range(i + 1, len(froles)):
                    add(role=[froles[i][0], froles[j][0]], fault="absent", files=files,
                        fault_files=[froles[i][1], froles[j][1]], **common)
        if sc in ("m:Temp-premeshed", "m:Temp3prevnc"):
            continue            # content variants need a mesh of the edited problem: done on the fmesher-meshed scenarios
        # content faults: the problem file is edited, meshed by the real fmesher (prerequisite), then solved
        nm_text, nm_how = v_nomaterial(text)
        variants = [("Labels", v_nolabels(text, has_holes(text)), "all block labels removed"),
                    ("Regions", nm_text, nm_how)]
        for role, vtext, how in variants:
            vfiles = dict(files)
            vfiles[base + P["ext"]] = vtext.encode("latin1")
            pre = []
            if mesh_needed:
                for _, e in MESH:
                    vfiles.pop(base + e, None)
                pre = [["fmesher", base + P["ext"]]]
            add(role=role, fault="absent", variant=how, files=vfiles, pre=pre, **common)

    # ---------------------------------------------------------------- femmcli ----
    def lua(lines):
        return ("\n".join(lines) + "\n").encode()

    add(tool="CliScript", tname="femmcli-script", scen="script", role=None, fault=None, lua=True,
        files={"s.lua": lua(["x = 1 + 1"])}, cmd=["femmcli", "--lua-script=s.lua"], outputs=[])
    for fault in ("absent", "unreadable"):
        add(tool="CliScript", tname="femmcli-script", scen="script", role="Script", fault=fault, lua=True,
            files={"s.lua": lua(["x = 1 + 1"])}, fault_files=["s.lua"], cmd=["femmcli", "--lua-script=s.lua"], outputs=[])

    for sc in ("m:Temp1", "e:test", "h:Temp0"):
        ph, base, text = fx.problem[sc]
        P = PH[ph]
        pf = base + P["ext"]
        files = {pf: text.encode("latin1"), "s.lua": lua(['open("%s")' % pf])}
        common = dict(tool="CliOpen", tname="femmcli-open", scen=sc, cmd=["femmcli", "--lua-script=s.lua"], outputs=[],
                      lua=True, holes=has_holes(text), periodic=fx.periodic(sc))
        add(role=None, fault=None, files=files, **common)
        for fault in ("absent", "unreadable"):
            add(role="Problem", fault=fault, files=files, fault_files=[pf], **common)

    for sc in ("m:Temp1", "m:Temp2prev", "m:Temp3prevnc", "e:test", "h:Temp0", "h:Temp1"):
        ph, base, text = fx.problem[sc]
        P = PH[ph]
        pf = base + P["ext"]
        prevref = sc in ("m:Temp2prev", "m:Temp3prevnc", "h:Temp1")
        files = {pf: text.encode("latin1")}
        prev_name = None
        if sc in ("m:Temp2prev", "m:Temp3prevnc"):
            prev_name, prev = "Temp1.ans", fx.sol.get("m:Temp1")
        if sc == "h:Temp1":
            prev_name, prev = "Temp0.anh", fx.sol.get("h:Temp0")
        if prev_name:
            if prev is None:
                continue
            files[prev_name] = prev
        script = ['open("%s")' % pf, "%s_analyze()" % P["pre"]]
        common = dict(tool="CliAnalyze " + ph, tname="femmcli-analyze-" + P["post"], scen=sc,
                      cmd=["femmcli", "--lua-script=s.lua"], outputs=[base + P["sol"]], lua=True, prevref=prevref,
                      periodic=fx.periodic(sc))
        f0 = dict(files); f0["s.lua"] = lua(script)
        add(role=None, fault=None, files=f0, holes=has_holes(text), **common)
        if prev_name:
            for fault in ("absent", "unreadable"):
                add(role="PrevSolution", fault=fault, files=f0, fault_files=[prev_name], holes=has_holes(text), **common)
        add(role="Output", fault="unwritable", files=f0, holes=has_holes(text), **common)
        for holes in (False, True):
            fv = dict(f0); fv[pf] = v_nolabels(text, holes).encode("latin1")
            add(role="Labels", fault="absent", variant="all block labels removed, hole markers %s" % ("present" if holes else "absent"),
                files=fv, holes=holes, **common)
        nm_text, nm_how = v_nomaterial(text)
        fv = dict(f0); fv[pf] = nm_text.encode("latin1")
        add(role="Regions", fault="absent", variant=nm_how, files=fv, holes=has_holes(nm_text), **common)
        x, y = first_label_xy(text)
        sp = {"Mag": '%s_setblockprop("NoSuchMaterial", 1, 0, "<None>", 0, 0, 1)',
              "Ele": '%s_setblockprop("NoSuchMaterial", 1, 0, 0)',
              "Heat": '%s_setblockprop("NoSuchMaterial", 1, 0, 0)'}[ph] % P["pre"]
        fv = dict(f0)
        fv["s.lua"] = lua(['open("%s")' % pf, "%s_selectlabel(%s, %s)" % (P["pre"], x, y), sp, "%s_analyze()" % P["pre"]])
        add(role="Material", fault="absent", variant="block label at (%s, %s) given the unknown material NoSuchMaterial through Lua" % (x, y),
            files=fv, holes=has_holes(text), **common)

    for sc in ("m:Temp1", "e:test", "h:Temp0"):
        ph, base, text = fx.problem[sc]
        P = PH[ph]
        if fx.sol.get(sc) is None:
            continue
        pf, sf = base + P["ext"], base + P["sol"]
        files = {pf: text.encode("latin1"), sf: fx.sol[sc], "s.lua": lua(['open("%s")' % pf, "%s_loadsolution()" % P["pre"]])}
        common = dict(tool="CliLoadSolution " + ph, tname="femmcli-loadsolution-" + P["post"], scen=sc,
                      cmd=["femmcli", "--lua-script=s.lua"], outputs=[], lua=True, holes=has_holes(text), periodic=fx.periodic(sc))
        add(role=None, fault=None, files=files, **common)
        for fault in ("absent", "unreadable"):
            add(role="Solution", fault=fault, files=files, fault_files=[sf], **common)
    return rows


# -------------------------------------------------------------------------------- running ----
def uid_wrapper(work):
    """argv prefix that runs a command as a non-root user for which chmod 000 really blocks reading."""
    if os.geteuid() != 0:
        return [], True        # not root: permissions are effective as they are
    d = os.path.join(work, "uidprobe")
    os.makedirs(d, exist_ok=True)
    os.chmod(d, 0o755)
    f = os.path.join(d, "secret")
    open(f, "w").write("x")
    os.chmod(f, 0)
    g = os.path.join(d, "public")
    open(g, "w").write("x")
    os.chmod(g, 0o644)
    for pre in (["setpriv", "--reuid=65534", "--regid=65534", "--clear-groups"],):
        rc0, _, _ = vlib.sh(pre + ["/bin/cat", g], timeout=20)      # the scratch tree is reachable for that uid
        rc1, _, _ = vlib.sh(pre + ["/bin/cat", f], timeout=20)      # and chmod 000 really blocks it
        if rc0 == 0 and rc1 != 0:
            return pre, True
    return [], False


def run_row(ctx, r, k, wrap):
    d = os.path.join(ctx.work, "rows", "r%03d" % k)
    os.makedirs(d)
    unwritable = r["fault"] == "unwritable"
    for n, b in r["files"].items():
        p = os.path.join(d, n)
        open(p, "wb").write(b)
        os.chmod(p, 0o644 if unwritable else 0o666)
    os.chmod(d, 0o777)
    obs = dict(blocked=None)
    # prerequisites (content variants: the edited problem is meshed by the real fmesher, as root)
    for c in r["pre"]:
        rc, out, err = vlib.sh([ctx.snap.tool(c[0])] + c[1:], cwd=d, timeout=TIMEOUT)
        if rc != 0:
            obs["blocked"] = "prerequisite %s exited %d" % (" ".join(c), rc)
            return obs
        for f in os.listdir(d):
            os.chmod(os.path.join(d, f), 0o644 if unwritable else 0o666)
    # the fault
    for n in r["fault_files"]:
        p = os.path.join(d, n)
        if r["fault"] == "absent":
            os.remove(p)
        elif r["fault"] == "unreadable":
            os.chmod(p, 0)
    # stale results
    for n in r["outputs"]:
        p = os.path.join(d, n)
        open(p, "wb").write(STALE)
        os.chmod(p, 0o644 if unwritable else 0o666)
        os.utime(p, (OLD, OLD))
    if unwritable:
        os.chmod(d, 0o755)
    before = sorted(os.listdir(d))
    cmd = wrap + [ctx.snap.tool(r["cmd"][0])] + r["cmd"][1:]
    t0 = time.time()
    rc, out, err = vlib.sh(cmd, cwd=d, timeout=TIMEOUT)
    timeout = (rc == 124 and err.endswith("TIMEOUT"))
    fresh = []
    for n in r["outputs"]:
        p = os.path.join(d, n)
        try:
            stt = os.stat(p)
            fresh.append(not (stt.st_size == len(STALE) and int(stt.st_mtime) == OLD and rd(p) == STALE))
        except OSError:
            fresh.append(False)
    obs.update(exit=(rc if rc >= 0 and not timeout else None), signal=(-rc if rc < 0 else None), timeout=timeout,
               fresh_any=any(fresh), fresh_all=bool(fresh) and all(fresh),
               lua_error=bool(re.search(r"stack traceback|Error running chunk|Error reading file", err)),
               files_before=before, files_after=sorted(os.listdir(d)),
               stdout_tail=out[-300:], stderr_tail=err[-300:])
    os.chmod(d, 0o777)
    shutil.rmtree(d, ignore_errors=True)
    return obs


def clean_failure(o):
    return o["signal"] is None and not o["timeout"] and o["exit"] not in (None, 0) and not o["fresh_any"]


def oracle(r, o):
    """The property itself, on what the real binary did (no model involved)."""
    bad = []
    if r["fault"] is not None:
        if o["signal"] is not None:
            bad.append("terminated by signal %d" % o["signal"])
        if o["timeout"]:
            bad.append("did not terminate within %d s" % TIMEOUT)
        if o["exit"] == 0:
            bad.append("exit status 0")
        if o["fresh_any"]:
            bad.append("a result file was produced / left looking fresh")
        if r["lua"] and not bad and not o["lua_error"]:
            bad.append("no Lua error was raised")
    else:
        if o["signal"] is not None or o["timeout"] or o["exit"] != 0:
            bad.append("all inputs present but the tool did not exit with status 0 (exit %s, signal %s)" % (o["exit"], o["signal"]))
        elif r["outputs"] and not o["fresh_all"]:
            bad.append("exit status 0 without producing its result files")
    return bad


def env_expr(r):
    fl = "; ".join("(%s, %s)" % (ro, s) for ro, s in r["faults"])
    b = lambda x: "true" if x else "false"
    return "run_named table (%s) (env_with [%s] %s %s %s)" % (r["tool"], fl, b(r["prevref"]), b(r["holes"]), b(r["periodic"]))


def agree(r, o, m):
    kind, status, written, step = m
    if kind == 1:
        return not clean_failure(o)
    if o["signal"] is not None or o["timeout"] or o["exit"] != status:
        return False
    if r["outputs"]:
        got = o["fresh_any"] if r["fault"] is not None else o["fresh_all"]
        return got == written
    return True


def shell_replay(r):
    """Human-readable recipe (the check itself rebuilds the directory from the row description)."""
    L = ["# in an empty directory, inputs taken from cfemm/*/test of the tree under test (scenario %s)" % r["scen"]]
    L.append("# files: " + ", ".join(sorted(r["files"])))
    if r["variant"]:
        L.append("# variant: " + r["variant"])
    for c in r["pre"]:
        L.append(" ".join(c))
    for n in r["fault_files"]:
        L.append(("rm %s" if r["fault"] == "absent" else "chmod 000 %s   # and run as a non-root user") % n)
    if r["fault"] == "unwritable":
        L.append("chmod 755 . && chown root .   # and run as a non-root user")
    L.append(" ".join(r["cmd"]))
    return L


def describe(r, o=None, m=None):
    d = dict(signature=sig(r), scenario=r["scen"], tool=r["tool"], role=r["role"], fault=r["fault"], variant=r["variant"],
             cmd=r["cmd"], files=sorted(r["files"]), prevref=r["prevref"], holes=r["holes"], periodic=r["periodic"])
    if o is not None:
        d["observed"] = {k: o.get(k) for k in ("exit", "signal", "timeout", "fresh_any", "fresh_all", "lua_error", "blocked")}
    if m is not None:
        d["model"] = dict(kind="Abnormal" if m[0] == 1 else "Exit", status=m[1], written=m[2], deciding_step=m[3])
    return d


def correspond(ctx):
    dis = []
    cov = ctx.res.cov
    wrap, have_uid = uid_wrapper(ctx.work)
    fx = Fix(ctx)
    ok = fx.build()
    if not ok:
        ctx.fail("the repo's own chain fmesher -> solver fails on the repo's test data (all inputs present)",
                 signature="fixture:all-present", errors=fx.errors[:5])
    rows = make_rows(fx, have_uid, not ctx.quick())
    if ctx.replay and isinstance(ctx.replay.get("replay"), dict) and ctx.replay["replay"].get("signature"):
        want = ctx.replay["replay"]
        rows = [r for r in rows if sig(r) == want["signature"] and r["scen"] == want.get("scenario", r["scen"])
                and r["variant"] == want.get("variant", r["variant"])]
    os.makedirs(os.path.join(ctx.work, "rows"))
    with ThreadPoolExecutor(max_workers=min(8, vlib.NCPU)) as ex:
        obs = list(ex.map(lambda kr: run_row(ctx, kr[1], kr[0], wrap), enumerate(rows)))
    model = vlib.coq_eval(HEADER, [env_expr(r) for r in rows] +
                          ["exc_names (bad_rows table)", "exc_names exceptions"], name="c20")
    expected, committed = model[-2], model[-1]
    model = model[:-2]
    expected = [tuple(x) for x in expected]
    committed = [tuple(x) for x in committed]
    missing = [x for x in expected if x not in committed]
    stale = [x for x in committed if x not in expected]
    if missing or stale:
        dis.append(dict(what="coq/theories/FaultExceptions.v does not match the regenerated fault table: rows that break the "
                             "property but are not listed: %s; rows listed that no longer fail: %s" % (missing, stale),
                        exceptions_expected=expected, exceptions_committed=committed))
    table = []
    nviol = 0
    for r, o, m in zip(rows, obs, model):
        if o.get("blocked"):
            dis.append(dict(what="row could not be set up: " + o["blocked"], row=describe(r, o, m)))
            continue
        bad = oracle(r, o)
        ag = agree(r, o, m)
        table.append([sig(r), r["scen"], r["variant"],
                      "signal %d" % o["signal"] if o["signal"] is not None else ("timeout" if o["timeout"] else "exit %d" % o["exit"]),
                      "fresh" if o["fresh_any"] else "-", "Abnormal" if m[0] == 1 else "Exit %d%s" % (m[1], " written" if m[2] else ""),
                      m[3], "VIOLATION" if bad else "ok", "agree" if ag else "DISAGREE"])
        if bad:
            nviol += 1
            ctx.fail("%s (%s%s): %s" % (sig(r), r["scen"], ", " + r["variant"] if r["variant"] else "", "; ".join(bad)),
                     replay_sh=shell_replay(r), **describe(r, o, m))
        if not ag:
            dis.append(dict(what="model and implementation differ on %s (%s): model %s, implementation exit=%s signal=%s timeout=%s fresh=%s"
                                 % (sig(r), r["scen"], describe(r, o, m)["model"], o["exit"], o["signal"], o["timeout"], o["fresh_any"]),
                            row=describe(r, o, m), replay_sh=shell_replay(r),
                            stderr_tail=o["stderr_tail"], stdout_tail=o["stdout_tail"]))
    faulty = [r for r in rows if r["fault"] is not None]
    cov["evaluations"] = len(rows)
    cov["distinct_nontrivial"] = len(set((sig(r), r["scen"], r["variant"]) for r in faulty))
    cov["exhaustive"] = bool(have_uid) and not ctx.replay
    cov["rows"] = len(rows)
    cov["rule"] = ("exhaustive enumeration, not sampling: every tool/command (fmesher, fsolver, esolver, hsolver, femmcli script/"
                   "open/analyze/loadsolution) x every scenario built from the repo's test data (plain, premeshed, with a previous "
                   "solution, with/without hole markers) x every input role the tool reads in that scenario x fault kind "
                   "(absent, unreadable via chmod 000 under uid 65534; content: no block labels, region/label without material; "
                   "result unwritable), plus one all-present row per scenario; thorough tier adds all pairs of absent files per "
                   "solver scenario.  non-trivial = a row with a fault; distinct = distinct (signature, scenario, variant)")
    cov["input_distribution"] = dict(
        per_tool={t: sum(1 for r in rows if r["tname"] == t) for t in sorted(set(r["tname"] for r in rows))},
        per_fault={f: sum(1 for r in rows if (r["fault"] or "all-present") == f) for f in ("all-present", "absent", "unreadable", "unwritable")},
        non_root_uid=" ".join(wrap) if wrap else ("not needed" if have_uid else "UNAVAILABLE: unreadable/unwritable rows skipped"))
    cov["samples"] = [describe(r, o, m) for r, o, m in list(zip(rows, obs, model))[:3]] + \
                     [describe(r, o, m) for r, o, m in zip(rows, obs, model) if sig(r).startswith("hsolver:prev-solution")][:1]
    cov["row_table_columns"] = ["signature", "scenario", "variant", "implementation", "result file", "model", "deciding step", "property", "model-vs-implementation"]
    cov["row_table"] = table
    cov["property_violations_on_rows"] = nviol
    cov["fault_table"] = [{k: r[k] for k in ("tool", "step", "role", "cond", "checked", "exit", "needed")} for r in _ROWS]
    cov["exceptions_expected"] = expected
    cov["exceptions_committed"] = committed
    if not have_uid:
        ctx.res.notes.append("no non-root uid available: 'unreadable' and 'unwritable' rows were skipped, coverage is not exhaustive")
    return dis
