"""C11 — linear problems superpose and are reciprocal in every formulation.
Theorems (SuperposeProofs.v / Properties_C11.v): the stored matrix is symmetric by construction,
hence u.(Av) = v.(Au) (reciprocity); the matrix-vector product is linear, solutions superpose, zero
excitation has the zero solution; the element-level elimination of prescribed values is linear and
leaves a matrix independent of the excitations; element loads are linear in the sources.
Real runs: S1, S2 and a*S1+b*S2 on the identical mesh for all three physics (planar,
axisymmetric, time-harmonic), zero excitation, symmetric capacitance / heat-flow / inductance
matrices, harmonic at vanishing frequency vs. static."""
import os, json, copy
import vlib, femgen, femmrun
from femgen import Builder, mesh_diameter

# axisymmetric magnetics assembly models AsmMAxi.v / AsmMHAxi.v (tied to the code by props/xaxi.py, also run here)
EXTENSIONS = ["xaxi", "xprev"]
EXTRA_PROPERTY_FILES = ["C11_axi", "C05_prev"]
LEVEL = "proof"
COQ_MODULES = []
ASSUMPTIONS = [
    "nonsingularity of the assembled matrix (uniqueness of the solution) is not proved; superposition is proved for solutions of the assembled systems and observed on the written solutions",
    "axisymmetric magnetics: linearity of the right-hand side / independence of the matrix are proved through the whole static assembly (C11_axi_*), the harmonic model at omega = 0 equals the static one up to the SetValue / periodicity stage (C11_axi_harmonic_omega0_system_partial); planar harmonic: SuperposeProofs.v",
]


def base_geometry(rng, kind, axi):
    B = Builder(kind)
    p = B.p
    p["problemtype"] = "axisymmetric" if axi else "planar"
    p["units"] = rng.choice(femgen.UNITS)
    p["depth"] = rng.choice([1.0, 3.0])
    p["precision"] = 1e-8
    p["dosmartmesh"] = 0
    W, H = 6.0, 4.0
    x0 = 1.0 if axi else 0.0
    d = mesh_diameter(W * H / 90)
    return B, p, W, H, x0, d


def make_variant(rng_state, kind, axi, exc, harmonic=0.0, refine=1.0):
    """same geometry (rng_state fixes it), excitations from dict exc"""
    rng = vlib.Rng(rng_state)
    B, p, W, H, x0, d = base_geometry(rng, kind, axi)
    d = d / refine
    if kind == "fee":
        m1 = B.prop("blockprops", name="m1", ex=2.0, ey=3.0, qv=exc.get("qv", 0.0))
        m2 = B.prop("blockprops", name="m2", ex=5.0, ey=5.0, qv=0.0)
        bl = B.prop("bdryprops", name="left", type=0, V=exc.get("Vl", 0.0))
        br = B.prop("bdryprops", name="right", type=2, qs=exc.get("qs", 0.0))
        c1 = B.prop("circuits", name="c1", type=1, V=exc.get("V1", 0.0))
        c2 = B.prop("circuits", name="c2", type=1, V=exc.get("V2", 0.0))
    elif kind == "feh":
        m1 = B.prop("blockprops", name="m1", kx=2.0, ky=3.0, kt=0.0, qv=exc.get("qv", 0.0))
        m2 = B.prop("blockprops", name="m2", kx=5.0, ky=5.0, kt=0.0, qv=0.0)
        bl = B.prop("bdryprops", name="left", type=0, Tset=exc.get("Vl", 0.0))
        br = B.prop("bdryprops", name="right", type=1, qs=exc.get("qs", 0.0))
        c1 = B.prop("circuits", name="c1", type=1, V=exc.get("V1", 0.0))
        c2 = B.prop("circuits", name="c2", type=1, V=exc.get("V2", 0.0))
    else:
        p["frequency"] = harmonic
        lam = exc.get("lam") or {}     # lamination of the two materials (not an excitation; chosen by the omega -> 0 cases)
        m1 = B.prop("blockprops", name="m1", mu_x=2.0, mu_y=3.0, J_re=exc.get("qv", 0.0), sigma=(1.0 if harmonic else 0.0), **lam.get("m1", {}))
        m2 = B.prop("blockprops", name="m2", mu_x=50.0, mu_y=50.0, H_c=exc.get("Hc", 0.0), H_cAngle=90.0, **lam.get("m2", {}))
        bl = B.prop("bdryprops", name="left", type=0, A_0=exc.get("Vl", 0.0))
        br = B.prop("bdryprops", name="right", type=0, A_0=0.0)
        c1 = B.prop("circuits", name="c1", type=1, amps_re=exc.get("V1", 0.0))
        c2 = B.prop("circuits", name="c2", type=1, amps_re=exc.get("V2", 0.0))
    y0 = 0.0
    B.rect(x0, y0, x0 + W, y0 + H, dict(l=dict(bdry=bl), r=dict(bdry=br), b=(dict(bdry=br) if kind == "fem" else {}), t=(dict(bdry=br) if kind == "fem" else {})))
    boxes = [(x0 + 1.0, 1.0, x0 + 2.0, 2.5), (x0 + 3.5, 1.5, x0 + 5.0, 3.0)]
    for bi, (bx0, by0, bx1, by1) in enumerate(boxes):
        c = (c1, c2)[bi]
        if kind == "fem" and bi == 1 and exc.get("series_bars", True):
            # terminal 2 is a series circuit of two solid bars (go and return): its blocks keep their own voltage
            # gradients in a time-harmonic problem whether or not the circuit carries current
            m3 = B.prop("blockprops", name="m3", mu_x=1.0, mu_y=1.0, sigma=8.0)
            w = (bx1 - bx0) * 0.4
            for (ax0, ax1, tn) in ((bx0, bx0 + w, 1), (bx1 - w, bx1, -1)):
                B.rect(ax0, by0, ax1, by1)
                B.label((ax0 + ax1) / 2, (by0 + by1) / 2, m3, maxarea=d / 2, circuit=c, turns=tn)
        elif kind == "fem":
            B.rect(bx0, by0, bx1, by1)
            B.label((bx0 + bx1) / 2, (by0 + by1) / 2, m2, maxarea=d / 2, circuit=c, turns=1)
        else:
            B.rect(bx0, by0, bx1, by1, {k: dict(cond=c) for k in "brtl"})
            for q in p["points"][-4:]:
                q["cond"] = c
            p["holes"].append(dict(x=(bx0 + bx1) / 2, y=(by0 + by1) / 2))
    B.label(x0 + 0.4, 0.3, m1, maxarea=d)
    p["features"] = [kind, "axi" if axi else "planar"] + (["harmonic"] if harmonic else [])
    return p


def vanishing_frequency(p):
    """a frequency far below the problem's own time scale: omega * sigma * mu * L^2 = 1e-6 with the largest conductivity and
    permeability anywhere and the full extent of the drawing (measured deviation from the static field at this frequency:
    at most 2e-7 relative).  The comparison is repeated 10^4 times lower still: before the repair 793b1f5 of the complex
    solver (drifted residual) the unknowns of solid conductors in circuits, which grow like 1/f, made the returned field
    deviate in proportion to 1/(f L^2) there."""
    import math
    L = 7.0 * femgen.UNIT_M[p["units"]]
    sig = max([b.get("sigma", 0.0) for b in p["blockprops"]] + [1e-3]) * 1e6
    mu = max([max(b.get("mu_x", 1.0), b.get("mu_y", 1.0)) for b in p["blockprops"]] + [1.0]) * 4e-7 * math.pi
    return 1e-6 / (2 * math.pi * sig * mu * L * L)


def solve(ctx, tag, p):
    wd = os.path.join(ctx.work, tag)
    os.makedirs(wd, exist_ok=True)
    cq = "condc" if p["kind"] == "fem" and p.get("frequency", 0) else "cond"
    r, err = femmrun.run(ctx, p, [("nodes",), (cq, "c1"), (cq, "c2")], "prob", workdir=wd)
    if err:
        return None, err
    nodes, elems = femmrun.read_solution(p["kind"], os.path.join(wd, "prob"))
    return (r, nodes, elems), None


def reciprocal_when_converged(ctx, k, st, kind, axi, freq, scale, idx):
    """the induced quantities are small differences of large sums: an asymmetry that is due to the PCG stopping tolerance
    (relative residual = Precision) shrinks when the same two problems are solved with Precision 1e-11"""
    out = []
    for tag, S in (("e1p", {"V1": scale["V1"]}), ("e2p", {"V2": scale["V1"]})):
        p = make_variant(st, kind, axi, S, freq)
        p["precision"] = 1e-11
        sol, err = solve(ctx, "c%d_%s" % (k, tag), p)
        if err:
            return False
        out.append(sol[0])
    r1, r2 = out
    if kind == "fem" and freq:
        # time-harmonic: mutual IMPEDANCE (voltage across the idle terminal per unit current in the other); with solid
        # conductors the flux linkage reported for a terminal is weighted with its own eddy currents and is not reciprocal
        m21 = complex(r1["q2"][2], r1["q2"][3]) if len(r1["q2"]) >= 6 else r1["q2"][idx]
        m12 = complex(r2["q1"][2], r2["q1"][3]) if len(r2["q1"]) >= 6 else r2["q1"][idx]
    else:
        m21, m12 = r1["q2"][idx], r2["q1"][idx]
    ok = abs(m21 - m12) <= 2e-6 * max(abs(m21), abs(m12), 1e-300)
    if ok:
        ctx.res.cov["asymmetries_gone_with_precision_1e-11"] = ctx.res.cov.get("asymmetries_gone_with_precision_1e-11", 0) + 1
    return ok


def field(nodes, kind, harmonic):
    if kind == "fem" and harmonic:
        return [complex(n[2], n[3]) for n in nodes]
    return [n[2] for n in nodes]


def correspond(ctx):
    rng = ctx.rng
    plan = [("fee", False, 0.0), ("feh", False, 0.0), ("fem", False, 0.0), ("fee", True, 0.0), ("feh", True, 0.0), ("fem", False, 30.0), ("fem", True, 0.0)]
    if not ctx.quick():
        plan = plan * 4
    feats, samples, done = {}, [], 0
    for k, (kind, axi, freq) in enumerate(plan):
        st = rng.randint(0, 10 ** 9)
        names = ["Vl", "qv", "qs", "V1", "V2"] if kind != "fem" else ["Vl", "qv", "Hc", "V1", "V2"]
        scale = dict(Vl=5.0, qv=(1e-3 if kind == "fee" else 1e2 if kind == "feh" else 1.0), qs=(1e-6 if kind == "fee" else 20.0),
                     V1=(4.0 if kind != "fem" else 10.0), V2=(-3.0 if kind != "fem" else 6.0), Hc=1e4)
        if kind == "fem":
            scale["Vl"] = 1e-3
        S1 = {n: scale[n] * rng.choice([1.0, 0.5, -2.0, 0.0]) for n in names}
        S2 = {n: scale[n] * rng.choice([1.0, -0.25, 3.0, 0.0]) for n in names}
        if kind == "fem" and freq:
            S1["V2"] = 0.0                       # an idle series circuit next to an excited one ...
            if S2["V2"] == 0.0:
                S2["V2"] = scale["V2"]           # ... that carries current in the other run
            if S1["V1"] == 0.0:
                S1["V1"] = scale["V1"]
        a, b = rng.choice([2.0, -1.5, 0.5]), rng.choice([1.0, 3.0, -0.75])
        S3 = {n: a * S1[n] + b * S2[n] for n in names}
        for ft in [kind, "axi" if axi else "planar"] + (["harmonic"] if freq else []):
            feats[ft] = feats.get(ft, 0) + 1
        sols = {}
        bad = None
        for tag, S in (("s1", S1), ("s2", S2), ("s3", S3), ("zero", {}), ("e1", {"V1": scale["V1"]}), ("e2", {"V2": scale["V1"]})):
            sol, err = solve(ctx, "c%d_%s" % (k, tag), make_variant(st, kind, axi, S, freq))
            if err:
                bad = "run failed on a well-formed problem: " + err
                break
            sols[tag] = sol
        if bad:
            ctx.fail(bad, kind=kind, axi=axi, frequency=freq, excitations=[S1, S2]); continue
        done += 1
        e0 = sols["s1"][2]
        if any(sols[t][2] != e0 for t in sols):
            ctx.fail("the mesh of identical geometry differs between runs", kind=kind, axi=axi); continue
        f1, f2, f3 = (field(sols[t][1], kind, freq) for t in ("s1", "s2", "s3"))
        vmax = max([abs(x) for x in f3] + [abs(a * x) for x in f1] + [abs(b * x) for x in f2] + [1e-300])
        worst = max(abs(z - (a * x + b * y)) for x, y, z in zip(f1, f2, f3))
        if worst > 3e-6 * vmax:
            ctx.fail("superposition fails: solution for %g*S1+%g*S2 differs from the combination of the two solutions by %.3g (field scale %.3g)"
                     % (a, b, worst, vmax), kind=kind, axi=axi, frequency=freq, S1=S1, S2=S2, a=a, b=b)
        fz = field(sols["zero"][1], kind, freq)
        import math
        if any((x != x) or math.isinf(abs(x)) for x in fz):
            ctx.fail("zero excitation gives non-finite potentials", kind=kind, axi=axi, frequency=freq)
        elif max(abs(x) for x in fz) > 1e-12 * max(vmax, 1e-300) and max(abs(x) for x in fz) != 0.0:
            ctx.fail("zero excitation does not give the zero field (max |V| = %.3g)" % max(abs(x) for x in fz), kind=kind, axi=axi, frequency=freq)
        # reciprocity: response on terminal 2 to unit excitation of terminal 1 and vice versa
        r1, r2 = sols["e1"][0], sols["e2"][0]
        idx = 2 if kind == "fem" else 1          # flux linkage / charge (heat flow)
        if kind == "fem" and freq:
            # mutual impedance (see reciprocal_when_converged)
            m21 = complex(r1["q2"][2], r1["q2"][3]) if len(r1["q2"]) >= 6 else r1["q2"][idx]
            m12 = complex(r2["q1"][2], r2["q1"][3]) if len(r2["q1"]) >= 6 else r2["q1"][idx]
        else:
            m21, m12 = r1["q2"][idx], r2["q1"][idx]
        sc = max(abs(m21), abs(m12), 1e-300)
        if kind == "fem" and axi:
            # FEMM's axisymmetric magnetics formulation lumps the current load with the element's mean
            # radius while the flux linkage is integrated with nodal radii: mutual inductances are
            # symmetric to mesh accuracy only.  Require convergence under refinement.
            asym = abs(m21 - m12) / sc
            f1s, e1s = solve(ctx, "c%d_e1f" % k, make_variant(st, kind, axi, {"V1": scale["V1"]}, freq, refine=2.0))
            f2s, e2s = solve(ctx, "c%d_e2f" % k, make_variant(st, kind, axi, {"V2": scale["V1"]}, freq, refine=2.0))
            if e1s or e2s:
                ctx.fail("run failed on a well-formed problem: %s" % (e1s or e2s), kind=kind, axi=axi)
            else:
                a21, a12 = f1s[0]["q2"][idx], f2s[0]["q1"][idx]
                asym2 = abs(a21 - a12) / max(abs(a21), abs(a12), 1e-300)
                if asym > 2e-2 or asym2 > 0.75 * asym + 1e-6:
                    ctx.fail("axisymmetric mutual inductance is not symmetric to mesh accuracy: asymmetry %.3g on the mesh, %.3g on the refined mesh"
                             % (asym, asym2), kind=kind, axi=axi)
        elif abs(m21 - m12) > 2e-5 * sc and not reciprocal_when_converged(ctx, k, st, kind, axi, freq, scale, idx):
            ctx.fail("reciprocity fails: response of terminal 2 to terminal 1 is %r but of 1 to 2 is %r" % (m21, m12), kind=kind, axi=axi, frequency=freq)
        if len(samples) < 3:
            samples.append(dict(kind=kind, axi=axi, frequency=freq, S1=S1, S2=S2, a=a, b=b, nodes=len(f1), mutual=[str(m21), str(m12)]))
    # harmonic at vanishing frequency equals static: planar and axisymmetric, plain and in-plane laminated materials
    # (LamType 0, several fill factors, with and without a lamination thickness)
    # (on-edge laminations, LamType 1 / 2, are refused by the AC solvers; permanent magnets have no AC contribution: both left out)
    lamkinds = [("plain", {}), ("lam0", dict(lamtype=0)), ("lam0", dict(lamtype=0))]
    hplan = [(axi, lk) for axi in (False, True) for lk in lamkinds]
    # targeted probe of the recorded defect C05-2 (known_findings.json): in-plane lamination with fill < 1 and d_lam = 0
    hplan += [(axi, ("C05-2 harmonic solver ignores the lamination fill factor", dict(lamtype=0, probe=True))) for axi in (False, True)]
    if not ctx.quick():
        hplan = hplan * 3
    nh = 0
    for hk, (axi, (lname, lam)) in enumerate(hplan):
        st = rng.randint(0, 10 ** 9)
        S = dict(Vl=1e-3, qv=1.0, V1=5.0, V2=rng.choice([0.0, -3.0]))
        if lam.get("probe"):
            S["lam"] = {m: dict(lamtype=0, lamfill=0.5, d_lam=0.0) for m in ("m1", "m2")}
        elif lam:
            fill = rng.choice([0.5, 0.7, 0.9, 0.98])
            which = rng.choice(["m1", "m2", "both"])
            # fill < 1 with d_lam = 0 is the recorded defect C05-2 (probed separately below): the random cases keep d_lam > 0
            one = dict(lam, lamfill=fill, d_lam=rng.choice([0.2, 0.35, 0.5]))
            S["lam"] = {m: one for m in (("m1", "m2") if which == "both" else (which,))}
        s0, e0 = solve(ctx, "h%d_static" % hk, make_variant(st, "fem", axi, S, 0.0))
        flow = vanishing_frequency(make_variant(st, "fem", axi, S, 1.0)) * (1e-4 if hk % 2 else 1.0)
        s1, e1 = solve(ctx, "h%d_lowfreq" % hk, make_variant(st, "fem", axi, S, flow))
        feats["omega0-" + ("axi-" if axi else "planar-") + lname] = feats.get("omega0-" + ("axi-" if axi else "planar-") + lname, 0) + 1
        if e0 or e1:
            ctx.fail("run failed: %s" % (e0 or e1), axi=axi, lamination=S.get("lam"))
            continue
        nh += 1
        a0 = [n[2] for n in s0[1]]
        a1 = [complex(n[2], n[3]) if len(n) > 3 else n[2] for n in s1[1]]
        vm = max(abs(x) for x in a0) or 1e-300
        w = max(abs(x - y) for x, y in zip(a0, a1))
        if w > 3e-6 * vm:
            # the solvers stop at a relative residual of Precision: a deviation counts only if it survives Precision 1e-12
            pa, pb = make_variant(st, "fem", axi, S, 0.0), make_variant(st, "fem", axi, S, flow)
            pa["precision"] = pb["precision"] = 1e-12
            t0, f0 = solve(ctx, "h%d_static_p" % hk, pa)
            t1, f1 = solve(ctx, "h%d_lowfreq_p" % hk, pb)
            if not (f0 or f1):
                a0 = [n[2] for n in t0[1]]
                a1 = [complex(n[2], n[3]) if len(n) > 3 else n[2] for n in t1[1]]
                vm = max(abs(x) for x in a0) or 1e-300
                w = max(abs(x - y) for x, y in zip(a0, a1))
                if w <= 3e-6 * vm:
                    ctx.res.cov["omega0_deviations_gone_with_precision_1e-12"] = ctx.res.cov.get("omega0_deviations_gone_with_precision_1e-12", 0) + 1
        if w > 3e-6 * vm:
            ctx.fail("time-harmonic solve at vanishing frequency differs from the static one by %.3g (scale %.3g; %s, %s)"
                     % (w, vm, "axisymmetric" if axi else "planar", lname), axi=axi, lamination=S.get("lam"), S={k: v for k, v in S.items() if k != "lam"}, seed_state=st)
    cov = ctx.res.cov
    cov["evaluations"] = 6 * len(plan) + 2 * len(hplan)
    cov["distinct_nontrivial"] = 6 * done + nh
    cov["rule"] = ("per case: one geometry (two inner conductors / coils, two materials), excitation sets S1, S2 drawn at random over "
                   "boundary value, volume source, surface source / magnet, two terminal excitations; runs S1, S2, a*S1+b*S2, zero, "
                   "unit excitation of each terminal through the real femmcli; nodal fields compared on the identical mesh")
    cov["input_distribution"] = feats
    cov["samples"] = samples
    from props import ext as extmod
    return extmod.run(ctx, EXTENSIONS)

