"""XNL (temporary id; serves C19's last clause and C05) — the nonlinear (B-H curve) branch of the planar
magnetostatic solver FSolver::Static2D: the loop  do { assemble; PCGSolve; exit test / relaxation }
while(LinearFlag==false).
Model: coq/theories/AsmMNL.v (nl_pass = one pass's system from the previous iterate and the per-element
permeabilities, nl_update = permeability update + tangent term Mn, nl_control = exit test and relaxation,
nl_iterate solve fuel); it reuses AsmM.v, Sparse.v and BH.v.  Theorems: Properties_C19_nl.v / Properties_C05_nl.v (proofs in
AsmMNLProofs.v, AsmMNLDeriv.v).
Correspondence: c05_gen problems with B-H tables put on the iron (and sometimes the magnet) blocks
(straight lines, knees, saturating tails, steel-like, few / many points; LamType 0 with fill < 1; LamType 1, 2)
-> real fmesher -> harness h_fsolver_nl (real LoadProblemFile incl. GetSlopes, LoadMesh, Cuthill,
Static2D) dumps PER PASS the element permeabilities, the assembled matrix and right-hand side before the
solve, the iterate before and after the solve, Relax; the float reading of the model is given each pass's
solved vector (the linear solve is C09's subject) and must reproduce every pass's system, permeabilities,
control variables (Iter, res, Relax, LinearFlag) and relaxed iterate bit for bit.
Property oracles on what the REAL fsolver binary writes: (1) an independent numpy assembly of the nonlinear
residual K(nu(|B|)) A - f with nu from an independent construction / evaluation of the B-H spline (scipy
natural spline, cubic Hermite) must vanish at the free nodes to the iteration tolerance; (2) paired runs
straight-line table vs linear material of that permeability (solution and stored energy equal); (3) every
generated problem must leave the loop within MAXPASS passes (the C++ loop has no cap)."""
import os, math, json, copy, re
import numpy as np
import vlib, femgen
from props import c05, c05_gen, c19

LEVEL = "proof"
COQ_MODULES = ["AsmMNL"]
ASSUMPTIONS = [
    "theorems are about the real-number reading of AsmMNL.v; rounding is not bounded (the float reading is compared with "
    "the C++ bit for bit, pass by pass, on the generated problems)",
    "termination of the Newton loop of Static2D is NOT proved (the C++ loop has no iteration cap: it runs until "
    "res < 100*Precision or the iterate is exactly zero); the model's loop is fuelled and the check reports every generated "
    "problem that does not leave the loop within %d passes",
    "the linear solve (CBigLinProb::PCGSolve) is abstract in the model (C09's subject): theorems hold for every solver "
    "function, the correspondence feeds each pass's solved vector (obtained from the real PCGSolve) to the model",
    "the B-H table is the one CMSolverMaterialProp::GetSlopes left (Bdata, Hdata, slope dumped by the harness); GetSlopes "
    "itself, GetH / GetBHProps and their consistency are C19's main subject (BH.v)",
    "not modelled / not generated: air-gap elements, previous-solution runs (incremental / frozen permeability, hence v12 = 0), "
    "polar boundary coordinates, axisymmetric and harmonic nonlinear problems",
    "reduction to the linear case is proved for LamType 0 (any fill factor); for laminations on edge (LamType 1, 2) with "
    "fill < 1 it is REFUTED (second and later passes use mu*fill where the linear material uses mu*fill + (1-fill)), see "
    "findings/XNL-1.md; the residual oracle follows the code there",
    "libm values (cos/sin of the magnetisation direction, cos(phi*DEG)) are inputs of the model; Triangle, the file readers "
    "and Cuthill-McKee are not modelled (the model starts from the solver's in-memory data dumped by the harness)",
]
MAXPASS = 60
ASSUMPTIONS[1] = ASSUMPTIONS[1] % MAXPASS
HEADER = ("From Coq Require Import ZArith List Floats. Import ListNotations. "
          "From XF Require Import Arith Sparse AsmE AsmM BH AsmMNL.")
MU0 = c19.MUO
HARNESS = "h_fsolver_nl"

ANCHORS = [
    ("fsolver/static2d.cpp", "while(LinearFlag==false);"),
    ("fsolver/static2d.cpp", "if(Iter > 0) { L.Wipe(); }"),
    ("fsolver/static2d.cpp", "if (blockproplist[k].BHpoints != 0) { if (bIncremental == MS_LEGACY_FALSE) { LinearFlag = false; }"),
    ("fsolver/static2d.cpp", "if ((blockproplist[k].LamType==0) && (meshele[i].mu1==meshele[i].mu2) &&(blockproplist[k].BHpoints>0))"),
    ("fsolver/static2d.cpp", "B1+=L.V[n[j]]*q[j]; B2+=L.V[n[j]]*p[j];"),
    ("fsolver/static2d.cpp", "B = c*sqrt(B1*B1+B2*B2)/(0.02*a);"),
    ("fsolver/static2d.cpp", "blockproplist[k].GetBHProps(B,mu,dv); mu = 1./(muo*mu); meshele[i].mu1 = mu; meshele[i].mu2 = mu;"),
    ("fsolver/static2d.cpp", "v[j]+=(Mx[j][w]+My[j][w])*L.V[n[w]];"),
    ("fsolver/static2d.cpp", "K = -200.*c*c*c*dv/a;"),
    ("fsolver/static2d.cpp", "Mn[j][w] = K*v[j]*v[w];"),
    ("fsolver/static2d.cpp", "B2+=L.V[n[j]]*p[j]/t;"),
    ("fsolver/static2d.cpp", "meshele[i].mu1 = mu*t; meshele[i].mu2 = mu/(t+mu*(1.-t));"),
    ("fsolver/static2d.cpp", "v[j]+=(My[j][w]/t+Mx[j][w])*L.V[n[w]]; u[j]+=(My[j][w]/t + t*Mx[j][w])*L.V[n[w]];"),
    ("fsolver/static2d.cpp", "K = -100.*c*c*c*dv/(a);"),
    ("fsolver/static2d.cpp", "Mn[j][w] = K*(v[j]*u[w]+v[w]*u[j]);"),
    ("fsolver/static2d.cpp", "B1+=(L.V[n[j]]*q[j])/t;"),
    ("fsolver/static2d.cpp", "meshele[i].mu2 = mu*t; meshele[i].mu1 = mu/(t+mu*(1.-t));"),
    ("fsolver/static2d.cpp", "v[j]+=(Mx[j][w]/t + My[j][w])*L.V[n[w]]; u[j]+=(Mx[j][w]/t + t*My[j][w])*L.V[n[w]];"),
    ("fsolver/static2d.cpp", "Me[j][k]+= (Mx[j][k]/Re(El->mu2) + My[j][k]/Re(El->mu1) + Mxy[j][k] * Re(El->v12) + Mn[j][k]); be[j]+=Mn[j][k]*L.V[n[k]];"),
    ("fsolver/static2d.cpp", "V_old[j]=L.V[j];"),
    ("fsolver/static2d.cpp", "if (L.PCGSolve(Iter)==false)"),
    ("fsolver/static2d.cpp", "x+=(L.V[j]-V_old[j])*(L.V[j]-V_old[j]); y+=(L.V[j]*L.V[j]);"),
    ("fsolver/static2d.cpp", "if (y==0) { LinearFlag = true; } else { lastres = res; res = sqrt(x/y); }"),
    ("fsolver/static2d.cpp", "if(Iter>5) { if ((res>lastres) && (Relax>0.125)) { Relax/=2.; } else { Relax+= 0.1 * (1. - Relax); }"),
    ("fsolver/static2d.cpp", "L.V[j] = Relax*L.V[j]+(1.0-Relax)*V_old[j];"),
    ("fsolver/static2d.cpp", "if((res<100.*Precision) && (Iter>0)) { LinearFlag = true; } Iter++;"),
    ("fsolver/fsolver.cpp", "Relax=1.;"),
    ("libfemm/CMaterialProp.cpp", "mu_x = Bdata[1] / (muo*abs(Hdata[1])); mu_y = mu_x;"),
    ("libfemm/CMaterialProp.cpp", "v=h/b; dv=0.5*(dh/(b*b) - h/(b*b*b));"),
    ("libfemm/spars.cpp", "b[i]=0.; e=M[i]; do { e->x=0; e=e->next; } while(e!=NULL);"),
    ("libfemm/femmconstants.h", "#define muo 1.2566370614359173e-6"),
]


def squeeze(t):
    """whitespace and // comments removed"""
    return "".join(re.sub(r"//[^\n]*", "", t).split())


def regen(ctx):
    """no generated Coq text: AsmMNL.v is a transcription; check that the statements it transcribes are still there"""
    cache = {}
    for f, snip in ANCHORS:
        if f not in cache:
            cache[f] = squeeze(open(os.path.join(ctx.snap.src, f), errors="replace").read())
        if squeeze(snip) not in cache[f]:
            raise vlib.TranslateError("%s no longer contains `%s`: the model AsmMNL.v transcribes it" % (f, snip))


# ------------------------------------------------------------------------- generator ----
TABLE_KINDS = ["line", "knee", "sat-tail", "steel", "few", "random", "knee", "uneven", "sat-tail", "steel", "random"]


def gen_nl_problem(rng, k, size_nodes=25, force=None):
    """a static c05_gen problem whose iron blocks (and, now and then, the magnet) carry B-H tables"""
    force = dict(force or {})
    stratum = k % 8
    f5 = dict(main_iron=True, pbc=False, dosmartmesh=0)
    if stratum in (1, 5):
        f5["boxes"] = ["coil", "magnet"] if stratum == 1 else ["jblock", "iron"]
    elif stratum == 2:
        f5["boxes"] = ["coil", "coil"]; f5["coil_mode"] = "series"
    elif stratum == 6:
        f5["boxes"] = ["jblock"]; f5["pbc"] = True
    else:
        f5["boxes"] = [rng.choice(["jblock", "coil"])] + ([rng.choice(["iron", "magnet", "jblock"])] if rng.random() < 0.5 else [])
    f5.update(force.get("c05", {}))
    p = c05_gen.gen_problem(rng, harmonic=False, size_nodes=size_nodes, force=f5)
    feats = p["features"]
    kinds = force.get("kinds")
    nl = 0
    for b in p["blockprops"]:
        nm = b["name"]
        isiron = nm.startswith("iron")
        ismag = nm.startswith("mag")
        if not (isiron or (ismag and rng.random() < 0.5)):
            continue
        if isiron and nl > 0 and rng.random() < 0.25 and not force.get("all_nl"):
            continue                                  # a linear iron next to a nonlinear one
        kind = (kinds[nl % len(kinds)] if kinds else rng.choice(TABLE_KINDS))
        t = c19.gen_table(vlib.Rng(rng.randint(0, 1 << 30)), kind, nmax=(3 if kind == "few" else rng.choice([6, 12, 25])))
        B, H = list(t["B"]), list(t["H"])
        if ismag:
            b["lamtype"], b["lamfill"] = 0, 1.0
        else:
            lt = force.get("lamtype", b.get("lamtype", 0))
            fill = force.get("lamfill", b.get("lamfill", 1.0))
            b["lamtype"], b["lamfill"] = lt, fill
        b["bh"] = [(float(x), float(y)) for x, y in zip(B, H)]
        b["bh_kind"] = kind
        feats.append("bh:%s:%dpt%s" % (kind, len(B), ":magnet" if ismag else ""))
        feats.append("nl:lam%d%s" % (b["lamtype"], ":fill" if b["lamfill"] != 1.0 else ""))
        nl += 1
    p["nl_blocks"] = nl
    return p


def scale_tables(p, d, rng):
    """scale every table (B and H axes alike: same permeabilities, knees elsewhere) so that the flux densities of the
    first (initial-slope) pass reach into the curved part of the table"""
    Bel = element_B_dump(d, d["passes"][0]["VSOL"])
    for bi, b in enumerate(p["blockprops"]):
        if not b.get("bh"):
            continue
        els = [i for i, e in enumerate(d["elems"]) if e[6] == bi]
        bm = max([Bel[i] for i in els] + [0.0])
        if not (bm > 0 and math.isfinite(bm)):
            continue
        top = b["bh"][-1][0]
        s = bm * rng.choice([0.1, 0.3, 0.8, 1.5, 4.0]) / top
        b["bh"] = [(x * s, y * s) for (x, y) in b["bh"]]
        b["bh_scale"] = s


def element_B_dump(d, V):
    """|B| per element (T) from a potential vector in solver units (V = A/c, lengths in cm)"""
    c = math.pi * 4e-5
    out = []
    for e in d["elems"]:
        n = e[0:3]
        x = [d["nodes"][i][0] for i in n]; y = [d["nodes"][i][1] for i in n]
        pp = [y[1] - y[2], y[2] - y[0], y[0] - y[1]]
        qq = [x[2] - x[1], x[0] - x[2], x[1] - x[0]]
        a = (pp[0] * qq[1] - pp[1] * qq[0]) / 2
        B1 = sum(V[n[j]] * qq[j] for j in range(3)); B2 = sum(V[n[j]] * pp[j] for j in range(3))
        out.append(c * math.hypot(B1, B2) / (0.02 * a))
    return out


# ------------------------------------------------------------------------------ dump ----
def parse_dump(path):
    d = dict(nodes=[], elems=[], blocks=[], lines=[], points=[], circs=[], labels=[], pbcs=[], fail=None,
             circres=[], wlabels=[], bh={}, passes=[], noterm=None)
    cur = None
    for line in open(path):
        t = line.split()
        if not t:
            continue
        k = t[0]
        fl = lambda a, b: [float(x) for x in t[a:b]]
        if k == "FAIL":
            d["fail"] = t[1]
        elif k == "PROB":
            d.update(freq=float(t[1]), prec=float(t[2]), unit=int(t[3]), coords=int(t[4]), axi=int(t[5]), bw=int(t[6]),
                     nn=int(t[7]), ne=int(t[8]), nc=int(t[9]), ncorig=int(t[10]), nl=int(t[11]), nage=int(t[12]), acsolver=int(t[13]))
        elif k == "NODE":
            d["nodes"].append((float(t[1]), float(t[2]), int(t[3])))
        elif k == "ELEM":
            d["elems"].append(tuple(int(x) for x in t[1:9]) + tuple(fl(9, 12)))
        elif k == "BLOCK":
            v = fl(1, 11) + [int(t[11]), float(t[12]), int(t[13])]
            d["blocks"].append(dict(mu_x=v[0], mu_y=v[1], H_c=v[2], Jre=v[3], Jim=v[4], Cduct=v[5], Lam_d=v[6], Theta_hn=v[7],
                                    Theta_hx=v[8], Theta_hy=v[9], LamType=v[10], LamFill=v[11], BHpoints=v[12]))
        elif k == "MUO":
            d["muo"] = float(t[1])
        elif k == "BH":
            n = int(t[2])
            v = fl(5, 5 + 5 * n)
            d["bh"][int(t[1])] = dict(n=n, nB=int(t[3]), nS=int(t[4]), B=v[0::5], H=list(zip(v[1::5], v[2::5])), S=list(zip(v[3::5], v[4::5])))
        elif k == "PREV":
            d["prev"] = (int(t[1]), int(t[2]))
        elif k == "LINE":
            v = fl(2, 15)
            d["lines"].append(dict(fmt=int(t[1]), A0=v[0], A1=v[1], A2=v[2], phi=v[3], c0=(v[4], v[5]), c1=(v[6], v[7]),
                                   Mu=v[8], Sig=v[9], cosphi=v[10], expphi=(v[11], v[12])))
        elif k == "POINT":
            d["points"].append(tuple(fl(1, 5)))
        elif k == "CIRC":
            d["circs"].append(dict(type=int(t[1]), amps=(float(t[2]), float(t[3])), dvolts=(float(t[4]), float(t[5])), orig=int(t[6])))
        elif k == "LABEL":
            d["labels"].append(dict(blk=int(t[1]), circ=int(t[2]), magdir=float(t[3]), turns=int(t[4]), wound=int(t[5]),
                                    proxmu=(float(t[6]), float(t[7])), fctn=int(t[8])))
        elif k == "CIRCRES":
            d["circres"].append((int(t[1]),) + tuple(fl(2, 6)))
        elif k == "WLABEL":
            d["wlabels"].append((int(t[1]),) + tuple(fl(2, len(t))))
        elif k == "PBC":
            d["pbcs"].append((int(t[1]), int(t[2]), int(t[3])))
        elif k == "RELAX0":
            d["relax0"] = float(t[1])
        elif k == "PASS":
            cur = dict(k=int(t[1]), relax_before=float(t[2]), emu=[], rows={}, post=None)
            d["passes"].append(cur)
        elif k == "EMU":
            cur["emu"].append(tuple(fl(2, 8)))
        elif k == "ROW":
            cur["rows"][int(t[1])] = t[3:]
        elif k in ("B", "VOLD"):
            cur[k] = fl(1, len(t))
        elif k == "VSOL":
            cur["solve_ok"] = int(t[1]); cur["VSOL"] = fl(2, len(t))
        elif k == "RES":
            cur["x"], cur["y"], cur["res"] = fl(1, 4)
        elif k == "POST":
            d["passes"][int(t[1])]["post"] = float(t[2])
            cur_post = d["passes"][int(t[1])]
        elif k == "VPOST":
            cur_post["VPOST"] = fl(1, len(t))
        elif k == "NOTERM":
            d["noterm"] = int(t[1])
        elif k == "DONE":
            d["done"] = (int(t[1]), int(t[2]), int(t[3]))
        elif k == "SOLVED":
            d["solved"] = int(t[1]); d["captured"] = int(t[2])
        elif k in ("VFINAL", "BFINAL"):
            d[k] = fl(1, len(t))
    d["harmonic"] = False
    return d


# ------------------------------------------------------------------- Coq expressions ----
def coq_mats(d):
    f = vlib.fhexs
    out = []
    for bi, b in enumerate(d["blocks"]):
        t = d["bh"].get(bi)
        if not t or t["n"] == 0:
            out.append("mkMat [] [] [] %s %s" % (f(b["mu_x"]), f(d["muo"])))
        else:
            out.append("mkMat [%s] [%s] [%s] %s %s" % ("; ".join(f(x) for x in t["B"]),
                                                       "; ".join("(%s, %s)" % (f(h[0]), f(h[1])) for h in t["H"]),
                                                       "; ".join("(%s, %s)" % (f(s[0]), f(s[1])) for s in t["S"]),
                                                       f(b["mu_x"]), f(d["muo"])))
    return "[%s]" % "; ".join(out)


def to_coq(d, npass):
    f = vlib.fhexs
    Vs = "[%s]" % "; ".join("[%s]" % "; ".join(f(v) for v in ps["VSOL"]) for ps in d["passes"][:npass])
    return "nl_run FA %s %s %d %s %s" % (c05.coq_problem(d), coq_mats(d), d["bw"], f(d["prec"]), Vs)


def impl_pass(d, ps, last):
    """what the implementation did in one pass, in the layout of AsmMNL.nl_trace"""
    sysv = []
    for i in range(d["nn"]):
        t = ps["rows"][i]
        sysv.append(float(len(t) // 2))
        sysv += [float(x) for x in t]
    sysv += ps["B"]
    mus = []
    for m in ps["emu"]:
        mus += [m[0], m[2]]
    vpost = ps.get("VPOST", ps["VSOL"])
    relax = ps["post"] if ps["post"] is not None else ps["relax_before"]
    return sysv, mus, relax, vpost


def compare(d, model, npass):
    """(message or None, values compared, bit-identical)"""
    trace, circ = model
    tot = nb = 0
    bad = None

    def cmp(name, a, b):
        nonlocal tot, nb, bad
        if len(a) != len(b):
            bad = bad or "%s: different structure (%d vs %d numbers)" % (name, len(a), len(b))
            return
        for idx, (x, y) in enumerate(zip(a, b)):
            tot += 1
            if vlib.ulp_diff(x, float(y)) == 0:
                nb += 1
            elif not vlib.close(x, float(y), 64, 1e-300):
                bad = bad or "%s differs at flat index %d: implementation %r, model %r" % (name, idx, x, float(y))
    side = []
    for (case, jre, jim, dvre, dvim) in d["circres"]:
        side += [float(case), jre, dvre]
    cmp("circuit results", side, circ)
    if len(trace) != npass:
        return "model produced %d passes for %d solved vectors" % (len(trace), npass), tot, nb
    total = len(d["passes"])
    for k, (ps, tr) in enumerate(zip(d["passes"][:npass], trace)):
        sysv, mus, relax, vpost = impl_pass(d, ps, k == total - 1)
        msys, mmus, mctl, mV = tr
        cmp("pass %d: assembled system (matrix rows + right-hand side)" % k, sysv, msys)
        cmp("pass %d: element permeabilities" % k, mus, mmus)
        cmp("pass %d: iterate after relaxation" % k, vpost, mV)
        # control variables after the pass: Iter, res, Relax, LinearFlag
        it, res, rl, lf = [float(x) for x in mctl]
        exited = (k == total - 1) and d["noterm"] is None
        nonlin = any(ps2["post"] is not None for ps2 in d["passes"])
        ires = ps["res"] if (nonlin and ps["y"] != 0) else (0.0 if k == 0 or not nonlin else d["passes"][k - 1]["res"])
        cmp("pass %d: control variables (Iter, res recomputed by the harness, Relax, LinearFlag)" % k,
            [float(k + 1), ires, relax, 1.0 if exited else 0.0], [it, res, rl, lf])
    return bad, tot, nb


# ---------------------------------------------------- independent nonlinear residual ----
def ref_curve(b):
    """independent construction of the material curve of a block property dict (file quantities): returns
    H(B) as a python function (cubic Hermite on the reference table, affine beyond) or None"""
    t = dict(B=[x for x, _ in b["bh"]], H=[y for _, y in b["bh"]], lamtype=b.get("lamtype", 0), lamfill=b.get("lamfill", 1.0))
    ref = c19.ref_getslopes(t)
    if ref is None:
        return None
    B, H, S, _ = ref
    B = np.array(B); H = np.array(H); S = np.array(S)

    def Hof(x):
        x = abs(x)
        if x > B[-1]:
            return H[-1] + S[-1] * (x - B[-1])
        i = int(np.searchsorted(B, x, side="right")) - 1
        i = min(max(i, 0), len(B) - 2)
        l = B[i + 1] - B[i]; z = (x - B[i]) / l
        return ((1 - 3 * z * z + 2 * z ** 3) * H[i] + z * (1 - 2 * z + z * z) * l * S[i]
                + z * z * (3 - 2 * z) * H[i + 1] + z * z * (z - 1) * l * S[i + 1])
    return Hof, float(S[0])


def nl_oracle(p, ans, prec):
    """the potentials the real fsolver wrote satisfy K(nu(|B|)) A = f at the free nodes: c05's SI assembly with the block
    permeabilities replaced, element by element, by the secant permeability of the independently built curve"""
    um = femgen.UNIT_M[p["units"]]
    XY = np.array([(n[0], n[1]) for n in ans["nodes"]]) * um
    A = np.array([n[2] for n in ans["nodes"]], dtype=float)
    curves = {}
    for bi, b in enumerate(p["blockprops"]):
        if b.get("bh"):
            curves[bi] = ref_curve(b)
            if curves[bi] is None:
                return None
    # per element secant permeability -> a problem copy with one block property per nonlinear element
    q = copy.deepcopy(p)
    q["labels"] = [dict(l) for l in p["labels"]]
    elems = []
    extra_labels = []
    for e in ans["elems"]:
        n = list(e[0:3]); lbl = e[3]
        bi = p["labels"][lbl]["block"] - 1
        if bi not in curves:
            elems.append(e); continue
        b = p["blockprops"][bi]
        P = XY[n]
        gx = np.array([P[1, 1] - P[2, 1], P[2, 1] - P[0, 1], P[0, 1] - P[1, 1]])
        gy = np.array([P[2, 0] - P[1, 0], P[0, 0] - P[2, 0], P[1, 0] - P[0, 0]])
        da = gx[0] * gy[1] - gx[1] * gy[0]
        Bx = float((A[n] * gy).sum() / da); By = float(-(A[n] * gx).sum() / da)
        lt, fill = b.get("lamtype", 0), b.get("lamfill", 1.0)
        Hof, s0 = curves[bi]
        if lt == 0:
            Bm = math.hypot(Bx, By)          # the mixed curve is a curve of the average flux density
        elif lt == 1:
            Bm = math.hypot(Bx, By / fill)   # laminations parallel to x: B_x continuous through the stack? (code: B2/t)
        else:
            Bm = math.hypot(Bx / fill, By)
        nu = (Hof(Bm) / Bm) if Bm > 0 else s0
        mu = 1.0 / (MU0 * nu)
        nb = dict(b); nb.pop("bh", None)
        if lt == 0:
            # ref_getslopes already mixed the curve with the fill factor: mu is the effective permeability
            nb.update(mu_x=mu, mu_y=mu, lamtype=0, lamfill=1.0)
        elif lt == 1:
            # follows the code (findings/XNL-1): parallel direction mu*fill, series direction mu/(fill+mu(1-fill))
            nb.update(mu_x=mu * fill, mu_y=mu / (fill + mu * (1 - fill)), lamtype=0, lamfill=1.0)
        else:
            nb.update(mu_x=mu / (fill + mu * (1 - fill)), mu_y=mu * fill, lamtype=0, lamfill=1.0)
        q["blockprops"].append(nb)
        lab = dict(p["labels"][lbl]); lab["block"] = len(q["blockprops"])
        q["labels"].append(lab)
        elems.append(tuple(e[0:3]) + (len(q["labels"]) - 1,) + tuple(e[4:]))
    ans2 = dict(ans); ans2["elems"] = elems
    ans2["labels"] = list(ans["labels"]) + [ans["labels"][e[3]] for e in ans["elems"]
                                            if (p["labels"][e[3]]["block"] - 1) in curves]
    S = c05.si_system(q, ans2)
    if "error" in S:
        return S["error"], "mesh"
    K, f, presc, mag = S["K"], S["f"], S["presc"], S["mag"]
    if not np.all(np.isfinite(A)):
        return "non-finite potentials in the solution", "nonfinite"
    r = K.dot(S["A"]) - f
    tied = set()
    for (i, j, t) in ans["pbcs"]:
        tied.add(i); tied.add(j)
    free = [i for i in range(len(A)) if i not in presc and i not in tied]
    tot = max(float(np.linalg.norm(mag)), 1e-300)
    if free:
        rel = float(np.linalg.norm(r[free])) / tot
        # the loop stops when the last Newton step is below 100*Precision relative to the iterate
        if rel > 3e3 * prec:
            worst = max(free, key=lambda i: abs(r[i]) / max(mag[i], 1e-300))
            return ("free-node residual of the NONLINEAR equations curl(nu(|B|) curl A) = J + curl Hc is %.3g (relative); "
                    "worst node %d" % (rel, worst)), "nl-residual"
    return None


# ------------------------------------------------------------------------ run cases ----
def run_case(ctx, name, p, solver=True):
    exe = vlib.build_harness(ctx.snap, HARNESS, libs=("fsolver", "femm"))
    f = os.path.join(ctx.work, "%s.fem" % name)
    c05_gen.write(p, f)
    rc, out, err = vlib.sh([ctx.snap.tool("fmesher"), f], timeout=120)
    if rc != 0:
        return None, None, "fmesher failed (rc=%d) on a well-formed problem: %s" % (rc, (out + err)[-300:])
    dump = f[:-4] + ".dump"
    if os.path.exists(dump):
        os.remove(dump)
    rc, out, err = vlib.sh([exe, f[:-4], dump, str(MAXPASS)], timeout=300)
    if not os.path.exists(dump):
        return None, None, "harness crashed (rc=%d): %s" % (rc, err[-300:])
    d = parse_dump(dump)
    d["rc"] = rc
    if not solver:
        return d, None, None
    if d["noterm"]:
        return d, None, None
    rc2, out, err = vlib.sh([ctx.snap.tool("fsolver"), f[:-4]], timeout=300)
    ansf = f[:-4] + ".ans"
    d["newton_printed"] = out.count("Newton Iteration")
    if rc2 != 0 or not os.path.exists(ansf):
        return d, None, "fsolver failed (rc=%d) on a well-formed problem: %s" % (rc2, (out + err)[-300:])
    try:
        ans = c05.parse_ans(ansf, False)
    except Exception as e:
        return d, None, "the solution file written by fsolver cannot be parsed: %r" % (e,)
    if d["fail"] or rc != 0 or not d.get("solved"):
        return d, ans, "solver pipeline failed inside the harness: %s rc=%d solved=%s" % (d["fail"], rc, d.get("solved"))
    return d, ans, None


def harness_self_check(d):
    """the nested PCGSolve of the harness predicted the vector the solver's own call produced (checked wherever no
    relaxation intervened), and the passes the binary printed are the passes the harness saw"""
    for k, ps in enumerate(d["passes"]):
        if ps.get("VPOST") is not None and k <= 5 and ps["VPOST"] != ps["VSOL"]:
            return "pass %d: L.V after the solver's own PCGSolve differs from the harness's replay of that solve" % k
        if k + 1 < len(d["passes"]) and ps.get("VPOST") is not None and d["passes"][k + 1]["VOLD"] != ps["VPOST"]:
            return "pass %d: the next pass does not start from the iterate this pass left" % k
    if d.get("newton_printed") is not None and any(ps["post"] is not None for ps in d["passes"]):
        if d["newton_printed"] != len(d["passes"]):
            return "fsolver printed %d Newton iterations, the harness saw %d passes" % (d["newton_printed"], len(d["passes"]))
    return None


def gen_scaled(ctx, rng, k, name, size):
    """generate, pre-run (first pass only matters), scale the tables into the range of the flux densities, return the problem"""
    p = gen_nl_problem(rng, k, size_nodes=size)
    if p["nl_blocks"] and k % 8 != 7:
        d, _, msg = run_case(ctx, name + "pre", p, solver=False)
        if d is not None and d["passes"] and not d["fail"]:
            scale_tables(p, d, rng)
    return p


def correspond(ctx):
    rng = ctx.rng
    count = 24 if ctx.quick() else 80
    passcap = 30 if ctx.quick() else 60
    limit = 70 if ctx.quick() else 260
    dis, exprs, cases, feats = [], [], [], {}
    npasses, sizes = [], []
    noterm = 0
    replayed = []
    if ctx.replay and isinstance(ctx.replay.get("replay"), dict) and isinstance(ctx.replay["replay"].get("problem"), dict):
        replayed.append(ctx.replay["replay"]["problem"])
    for k in range(-len(replayed), count):
        size = rng.choice([14, 20, 26]) if ctx.quick() else rng.choice([25, 50, 120])
        p = replayed[k + len(replayed)] if k < 0 else gen_scaled(ctx, rng, k, "n%d" % k, size)
        p.setdefault("features", []); p.setdefault("nl_blocks", sum(1 for b in p["blockprops"] if b.get("bh")))
        for ft in p["features"]:
            feats[ft] = feats.get(ft, 0) + 1
        d, ans, msg = run_case(ctx, ("n%d" % k) if k >= 0 else ("r%d" % -k), p)
        if msg:
            ctx.fail("fsolver (nonlinear): " + msg, problem=p, signature="pipeline")
            continue
        if d["noterm"]:
            noterm += 1
            ctx.fail("fsolver (nonlinear): the Newton loop of Static2D did not exit within %d passes (no cap in the code); "
                     "last relative changes %s" % (MAXPASS, [ps["res"] for ps in d["passes"][-4:]]), problem=p, signature="no-termination")
        else:
            msg = c05.consistent(d, ans, p) or harness_self_check(d)
            if msg:
                ctx.fail("fsolver (nonlinear): " + msg, problem=p, signature="harness-vs-binary")
                continue
            r = nl_oracle(p, ans, d["prec"])
            if r:
                ctx.fail("fsolver (nonlinear): " + r[0], problem=p, signature=r[1])
            last = d["passes"][-1]
            if any(ps["post"] is not None for ps in d["passes"]) and last["y"] != 0 and not (last["res"] < 100 * d["prec"]):
                ctx.fail("fsolver (nonlinear): the loop exited although the last relative change %r is not below 100*Precision" % last["res"],
                         problem=p, signature="exit-test")
        npasses.append(len(d["passes"]))
        sizes.append(d["nn"])
        if d["nn"] <= limit and d["passes"]:
            n = min(len(d["passes"]), passcap)
            exprs.append(to_coq(d, n))
            cases.append((p, d, n))
    model = vlib.coq_eval(HEADER, exprs, shard=2, timeout=2400) if exprs else []
    nb = tot = 0
    for (p, d, n), m in zip(cases, model):
        bad, t, b = compare(d, m, n)
        tot += t; nb += b
        if bad:
            dis.append(dict(what="fsolver correspondence (Static2D, nonlinear loop): %s" % bad, problem=p))
    pairs = solver_pairs(ctx)
    cov = ctx.res.cov
    cov["evaluations"] = count + len(replayed) + pairs["runs"]
    cov["distinct_nontrivial"] = len(set(json.dumps(c[0], sort_keys=True) for c in cases if c[0].get("nl_blocks")))
    cov["rule"] = ("seeded static planar c05_gen problems (rectangle, interface, boxes: coils in circuits, magnets, source current, "
                   "mixed / prescribed / periodic boundaries, all length units) whose iron blocks (sometimes the magnet too) carry "
                   "seeded monotone B-H tables of c19.gen_table (straight lines, knees, saturating tails, steel-like, 2-3 points, "
                   "uneven, up to 25 points; LamType 0 with and without fill factor, LamType 1 and 2), scaled after a pre-run so that "
                   "the first pass's flux densities reach 0.25 .. 10 times the table's range; real fmesher, real FSolver inside the "
                   "harness (per pass dump) and real fsolver binary; the model is evaluated on the first %d passes; non-trivial = at "
                   "least one nonlinear block, meshed, solved and small enough for vm_compute; plus paired runs straight-line table "
                   "vs linear material" % passcap)
    cov["input_distribution"] = feats
    cov["samples"] = [dict(features=c[0]["features"], nodes=c[1]["nn"], elements=c[1]["ne"], passes=len(c[1]["passes"])) for c in cases[:3]]
    cov["values_compared"] = tot
    cov["bit_identical"] = nb
    cov["bit_identical_fraction"] = (nb / tot) if tot else None
    cov["newton_passes"] = npasses
    cov["passes_compared"] = sum(c[2] for c in cases)
    cov["mesh_sizes"] = sizes
    cov["not_terminated_within_%d_passes" % MAXPASS] = noterm
    cov["solver_pairs"] = pairs
    cov["oracle"] = ("numpy SI Galerkin residual with secant permeabilities from an independent spline construction, on the .ans "
                     "written by the real fsolver; paired straight-line-table / linear-material runs")
    return dis


# ------------------------------------------------------ paired runs (reduction to linear) ----
def solver_pairs(ctx):
    """a c05_gen problem with a straight-line table on its iron (LamType 0, with and without fill factor) against the same
    problem with the linear material of that permeability: same potentials, same stored energy, few Newton passes"""
    rng = vlib.Rng(ctx.seed + 4711)
    npairs = 3 if ctx.quick() else 10
    st = dict(runs=0, pairs=[], max_rel_dA=0.0, max_rel_dW=0.0)
    for k in range(npairs + 1):
        mu = rng.choice([50.0, 1000.0, 4000.0, float(rng.randint(2, 20000))])
        lamfill = rng.choice([1.0, 1.0, 0.9, 0.5])
        force = dict(kinds=["line"], lamtype=0, lamfill=lamfill, all_nl=True)
        probe = k == npairs
        if probe:
            # the recorded finding XNL-1: laminations on edge with fill < 1 (the Newton passes after the first drop the air
            # term 1 - fill of the permeability along the sheets); probed on every run, listed in known_findings.json
            mu, lamfill = 2.0, 0.5
            force = dict(kinds=["line"], lamtype=1, lamfill=lamfill, all_nl=True)
        p = gen_nl_problem(vlib.Rng(ctx.seed + 100 + k), k, size_nodes=30, force=force)
        if probe:
            # the fixed problem of findings/XNL-1-replay.py (source-driven field in centimetres, iron as main region)
            p = c05_gen.gen_problem(vlib.Rng(7), harmonic=False, size_nodes=40,
                                    force=dict(main_iron=True, pbc=False, dosmartmesh=0, boxes=["jblock"], units="centimeters",
                                               iron=dict(mu_x=mu, mu_y=mu, lamtype=1, lamfill=lamfill)))
            for b in p["blockprops"]:
                if b["name"].startswith("iron"):
                    b.update(mu_x=mu, mu_y=mu, lamtype=1, lamfill=lamfill, bh=[(0.0, 0.0), (1.0, 1.0)])
        lin = copy.deepcopy(p)
        for b, bl in zip(p["blockprops"], lin["blockprops"]):
            if b.get("bh"):
                n = rng.randint(2, 12)
                Bk = c19.uneven_knots(rng, n, rng.choice([0.5, 2.0, 4.0]), rng.choice([1.0, 20.0]))
                kk = 1.0 / (mu * MU0)
                b["bh"] = [(x, kk * x) for x in Bk]
                bl.pop("bh"); bl.update(mu_x=mu, mu_y=mu)
        replay = dict(problem=p, linear_problem=lin, mu=mu)
        res = []
        for nm, q in (("lin", lin), ("tab", p)):
            f = os.path.join(ctx.work, "pair%d%s.fem" % (k, nm))
            c05_gen.write(q, f)
            rc, out, err = vlib.sh([ctx.snap.tool("fmesher"), f], timeout=120)
            rc2, out, err = vlib.sh([ctx.snap.tool("fsolver"), f[:-4]], timeout=300) if rc == 0 else (1, "", "")
            st["runs"] += 1
            if rc != 0 or rc2 != 0 or not os.path.exists(f[:-4] + ".ans"):
                ctx.fail("paired run (%s): fmesher / fsolver failed or did not terminate (rc=%d/%d)" % (nm, rc, rc2), signature="pair-pipeline", **replay)
                res = None
                break
            res.append((c05.parse_ans(f[:-4] + ".ans", False), out.count("Newton Iteration")))
        if not res:
            continue
        (a1, _), (a2, its) = res
        A1 = np.array([n[2] for n in a1["nodes"]]); A2 = np.array([n[2] for n in a2["nodes"]])
        if A1.shape != A2.shape or [n[:2] for n in a1["nodes"]] != [n[:2] for n in a2["nodes"]]:
            ctx.fail("paired run: the two problems were meshed differently", signature="pair-mesh", **replay)
            continue
        amax = max(float(np.abs(A1).max()), 1e-300)
        dA = float(np.abs(A1 - A2).max() / amax)
        st["max_rel_dA"] = max(st["max_rel_dA"], dA)
        if probe:
            st["xnl1_probe_rel_dA"] = dA
            if not dA <= 1e-5:
                ctx.fail("XNL-1 nonlinear laminations on edge drop the air term: a straight-line B-H table of relative permeability 2 "
                         "on a block laminated parallel to x (LamType 1) with fill 0.5 and the linear material of that permeability "
                         "give different solutions (max |dA|/max|A| = %.3g): FSolver::Static2D stores mu*fill where the first pass "
                         "and the linear material use mu*fill + (1 - fill)" % dA, signature="XNL-1", **replay)
            continue
        if not dA <= 1e-5:
            ctx.fail("straight-line B-H table and linear material of the same permeability give different solutions "
                     "(max |dA|/max|A| = %.3g, LamFill %g)" % (dA, lamfill), signature="pair-solution", **replay)
            continue
        # stored energy 1/2 A.f-type comparison: 1/2 sum_e area * nu |B|^2 over all elements with the linear law on both
        # solutions (the table IS the line), in the iron
        W = []
        for a in (a1, a2):
            um = femgen.UNIT_M[p["units"]]
            XY = np.array([(n[0], n[1]) for n in a["nodes"]]) * um
            Av = np.array([n[2] for n in a["nodes"]])
            w = 0.0
            for e in a["elems"]:
                n = list(e[0:3])
                b = lin["blockprops"][lin["labels"][e[3]]["block"] - 1]
                if not b["name"].startswith("iron"):
                    continue
                P = XY[n]
                gx = np.array([P[1, 1] - P[2, 1], P[2, 1] - P[0, 1], P[0, 1] - P[1, 1]])
                gy = np.array([P[2, 0] - P[1, 0], P[0, 0] - P[2, 0], P[1, 0] - P[0, 0]])
                da = gx[0] * gy[1] - gx[1] * gy[0]
                Bx = (Av[n] * gy).sum() / da; By = -(Av[n] * gx).sum() / da
                mux, muy = c05.eff_mu(b, 0)
                w += abs(da) / 2 * (Bx * Bx / (2 * MU0 * mux) + By * By / (2 * MU0 * muy))
            W.append(w)
        dW = abs(W[0] - W[1]) / max(abs(W[0]), 1e-300)
        st["max_rel_dW"] = max(st["max_rel_dW"], dW)
        if not dW <= 1e-5:
            ctx.fail("stored energy in the iron differs between the straight-line table (%r) and the linear material (%r)" % (W[1], W[0]),
                     signature="pair-energy", **replay)
        if its > 25:
            ctx.fail("Newton iteration needed %d passes on a straight-line table" % its, signature="pair-passes", **replay)
        st["pairs"].append(dict(mu=mu, lamfill=lamfill, nodes=len(A1), newton=its, rel_dA=dA, rel_dW=dW))
    return st


def search(ctx, broken):
    found = []
    rng = vlib.Rng(ctx.seed + 9)
    for k in range(24):
        p = gen_scaled(ctx, rng, k, "s%d" % k, 20)
        d, ans, msg = run_case(ctx, "s%d" % k, p)
        if msg:
            found.append(dict(what="fsolver (nonlinear): " + msg, problem=p, signature="pipeline")); break
        if d["noterm"]:
            found.append(dict(what="fsolver (nonlinear): no exit within %d passes" % MAXPASS, problem=p, signature="no-termination")); break
        r = nl_oracle(p, ans, d["prec"])
        if r:
            found.append(dict(what="fsolver (nonlinear): " + r[0], problem=p, signature=r[1])); break
    return found
