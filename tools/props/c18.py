"""C18 — requested mesh sizes, segment spacings and minimum angle are honoured.
Model: coq/theories/Discretize.v (fmesher's subdivision of drawn lines and arcs into the PSLG
given to Triangle) with theorems in DiscretizeProofs.v / Properties_C18.v; its float reading
must reproduce the .poly written by `fmesher --write-poly` exactly.  The produced meshes are
checked against the requested sizes with exact rational arithmetic (element area vs. the label's
mesh size, mesh edge length vs. the line's spacing, number of chords per arc, minimum angle)."""
import os, json, math
from fractions import Fraction
import vlib, femgen, meshlib, geomgen
from props import c01

# everything else fmesher hands to Triangle on the non-periodic path (markers, holes, regions, area constraints, switches) and the
# files it writes from Triangle's answer: PolyWrite.v, theorems in Properties_C02_poly.v (C02_ / C18_ / C01_ statements), harness
# h_polywrite.cpp (props/xpoly.py)
EXTENSIONS = ["xpoly"]
EXTRA_PROPERTY_FILES = ["C02_poly"]
LEVEL = "proof"
COQ_MODULES = ["Discretize"]
ASSUMPTIONS = [
    "Triangle's refinement is not modelled: size/angle bounds are validated on every produced mesh (exact rational arithmetic), not proved",
    "sin/cos of the arc angles and the integer results of ceil() enter the model as inputs computed with the same libm; ceil results are re-validated inside the model",
]
HEADER = "From Coq Require Import ZArith List Floats. Import ListNotations. From XF Require Import Arith Discretize."


def ceil_parts(x):
    return int(math.ceil(x))


def model_inputs(p):
    f = vlib.fhexs
    pts = [(q["x"], q["y"]) for q in p["points"]]
    lines = []
    for s in p["segments"]:
        ms = s.get("maxside", -1)
        (x0, y0), (x1, y1) = pts[s["n0"]], pts[s["n1"]]
        L = cabs(x0 - x1, y0 - y1)
        parts = 1 if ms == -1 else ceil_parts(L / ms)
        lines.append((s["n0"], s["n1"], float(ms), parts))
    arcs = []
    for a in p["arcs"]:
        al, ms = float(a["angle"]), float(a.get("maxseg", 10))
        parts = ceil_parts(al / ms)
        tta = al * math.pi / 180.0
        step = al * math.pi / (float(parts) * 180.0)
        arcs.append((a["n0"], a["n1"], al, ms, parts, math.sin(tta / 2.0), math.cos(step), math.sin(step)))
    nodes = "; ".join("(%s, %s)" % (f(x), f(y)) for (x, y) in pts)
    ls = "; ".join("mkDLine %d %d %s %d" % (a, b, f(m), n) for (a, b, m, n) in lines)
    ars = "; ".join("mkDArc %d %d %s %s %d %s %s %s" % (a, b, f(al), f(ms), n, f(sh), f(c), f(s)) for (a, b, al, ms, n, sh, c, s) in arcs)
    smart = "true" if p.get("dosmartmesh", 1) else "false"
    return ("match discretize FA %s [%s] [%s] [%s] with Some st => st | None => ([], []) end" % (smart, nodes, ls, ars)), lines, arcs


def cabs(re, im):
    if re == 0 and im == 0:
        return 0.0
    if abs(re) > abs(im):
        return abs(re) * math.sqrt(1.0 + (im / re) * (im / re))
    return abs(im) * math.sqrt(1.0 + (re / im) * (re / im))


def boundary_vertices(d):
    if "_bverts" not in d:
        cnt = {}
        for t in d["T"]:
            for a, b in ((t[0], t[1]), (t[1], t[2]), (t[2], t[0])):
                k = (min(a, b), max(a, b))
                cnt[k] = cnt.get(k, 0) + 1
        d["_bverts"] = set(v for e, c in cnt.items() if c == 1 for v in e)
    return d["_bverts"]


def mesh_size_oracle(p, d, lines, arcs):
    """exact checks on the produced mesh"""
    X = [(Fraction(x), Fraction(y)) for (x, y) in d["X"]]
    poly = d["poly"]
    # element areas against the region's area constraint actually handed to Triangle and the label's mesh size
    labels = [l for l in p["labels"]]
    PI_HI = Fraction(3141592653589794, 10 ** 15)      # > pi : sound direction for "area <= pi d^2 / 4"
    deferred = None
    for ei, (t, a) in enumerate(zip(d["T"], d["A"])):
        lab = labels[int(a) - 1] if 1 <= int(a) <= len(labels) else None
        if lab is None:
            continue
        dmax = lab.get("maxarea", -1)
        if dmax and dmax > 0:
            (xa, ya), (xb, yb), (xc, yc) = X[t[0]], X[t[1]], X[t[2]]
            area = ((xb - xa) * (yc - ya) - (xc - xa) * (yb - ya)) / 2
            if area > PI_HI * Fraction(dmax) ** 2 / 4 * (1 + Fraction(1, 10 ** 9)):
                msg = "element %d of block label %d has area %.6g > pi d^2/4 = %.6g (mesh size d=%g)" % (
                    ei, int(a) - 1, float(area), math.pi * dmax * dmax / 4, dmax)
                if p["features"][0].startswith("periodic") and any(v in boundary_vertices(d) for v in t):
                    # the final Triangle pass of DoPeriodicBCTriangulation runs with -Y: see known_findings.json
                    deferred = deferred or (msg + " [periodic-path:-Y:oversize-element-on-exterior-boundary]")
                    continue
                return msg
    # mesh edges on a line with a spacing
    P = poly["points"]
    pm = meshlib.map_points(d)
    for (n0, n1, ms, parts) in lines:
        if ms <= 0:
            continue
        a, b = pm[n0], pm[n1]
        if a < 0 or b < 0:
            continue
        ax, ay = X[a]; bx, by = X[b]
        L2 = (bx - ax) ** 2 + (by - ay) ** 2
        for (u, v, m) in d["E"]:
            ux, uy = X[u]; vx, vy = X[v]
            # both ends within rounding of the line and inside its box
            def on(px, py):
                cr = (bx - ax) * (py - ay) - (by - ay) * (px - ax)
                t = (px - ax) * (bx - ax) + (py - ay) * (by - ay)
                return cr * cr * (1 << 80) <= L2 * L2 and 0 <= t <= L2
            if on(ux, uy) and on(vx, vy):
                e2 = (vx - ux) ** 2 + (vy - uy) ** 2
                if e2 > Fraction(ms) ** 2 * (1 + Fraction(1, 10 ** 9)):
                    return "mesh edge (%d,%d) on a line with spacing %g has length %.6g" % (u, v, ms, math.sqrt(float(e2)))
    # minimum angle (geometries without acute input angles only)
    if p.get("no_acute_angles"):
        amin = p.get("minangle", 30.0)
        bound = math.radians(min(amin, 33.8)) - 1e-7
        for ei, t in enumerate(d["T"]):
            pts = [d["X"][k] for k in t]
            for k in range(3):
                (x0, y0), (x1, y1), (x2, y2) = pts[k], pts[(k + 1) % 3], pts[(k + 2) % 3]
                ang = abs(math.atan2((x1 - x0) * (y2 - y0) - (y1 - y0) * (x2 - x0), (x1 - x0) * (x2 - x0) + (y1 - y0) * (y2 - y0)))
                if ang < bound:
                    return "element %d has an angle of %.4f deg < minimum angle %.4g deg" % (ei, math.degrees(ang), amin)
    return deferred


def correspond(ctx):
    rng = ctx.rng
    count = 16 if ctx.quick() else 100
    exprs, cases, feats = [], [], {}
    nper = 0
    for k in range(count):
        p = geomgen.gen_any(rng, k + 1, quick=True)
        if k % 4 == 3:
            p = geomgen.fam_rounded(rng, ["fee", "feh", "fem"][k % 3], True)
        if k % 4 == 1:
            # long lines with a very short chamfer / step that carries its own (finer) spacing
            p = geomgen.fam_chamfer(rng, ["fee", "feh", "fem"][(k // 4) % 3], True)
        if k >= count - 4:
            # (anti)periodic partner arcs asking for different segment angles, finer one listed first / second
            j = k - (count - 4)
            p = geomgen.fam_periodic_arcs(rng, ["fee", "feh", "fem"][k % 3], True, order=["left-first", "right-first"][j % 2],
                                          segs=[(5.0, 15.0), (15.0, 5.0)][j // 2])
        p = geomgen.with_meshed_side(p, k)
        p["no_acute_angles"] = p["features"][0] in ("circle-in-square", "annulus", "stadium", "rect-box", "rect-family")
        for ft in p.get("features", []):
            feats[ft] = feats.get(ft, 0) + 1
        d, msg = c01.mesh_problem(ctx, 200 + k, p)
        if msg:
            ctx.fail(msg, problem=p); continue
        e, lines, arcs = model_inputs(p)
        msg = c01.arc_oracle(p, d) or mesh_size_oracle(p, d, lines, arcs)
        if msg:
            ctx.fail("mesh does not honour the request: " + msg, problem=p)
        if p["features"][0].startswith("periodic"):
            # the interleaved subdivision of (anti)periodic partners is C07's model (Pbc.v); here the
            # requested sizes are checked on the result
            nper += 1
            continue
        exprs.append(e); cases.append((p, d, lines, arcs))
    res = vlib.coq_eval(HEADER, exprs, shard=20)
    dis = []
    nb = tot = 0
    for (p, d, lines, arcs), v in zip(cases, res):
        nodes, segs = v
        if not nodes:
            dis.append(dict(what="model rejected the ceil() values computed by the harness", problem=p)); continue
        poly = d["poly"]
        bad = None
        if len(nodes) != len(poly["points"]):
            bad = "PSLG has %d points, model %d" % (len(poly["points"]), len(nodes))
        else:
            for i, ((x, y), (mx, my)) in enumerate(zip(poly["points"], nodes)):
                for a, b in ((x, mx), (y, my)):
                    tot += 1
                    if vlib.ulp_diff(a, float(b)) == 0:
                        nb += 1
                    elif not vlib.close(a, float(b), 4, 1e-300):
                        bad = "PSLG point %d: implementation %r, model %r" % (i, (x, y), (mx, my)); break
                if bad:
                    break
        if not bad:
            ms = [(int(a), int(b)) for (a, b, c) in segs]
            ps = [(u, v) for (u, v, m) in poly["segs"]]
            if ms != ps:
                bad = "PSLG segments differ: first difference at %r" % (next(((i, x, y) for i, (x, y) in enumerate(zip(ps, ms)) if x != y), (len(ps), len(ms))),)
        if bad:
            dis.append(dict(what="Discretize correspondence: " + bad, problem=p))
        # number of chords per arc: exactly ceil(a/m) PSLG segments carry the arc's cnt
        for ai, a in enumerate(arcs):
            cnt = len(lines) + ai
            n = sum(1 for s in segs if int(s[2]) == cnt)
            if n != a[4]:
                ctx.fail("arc %d of span %g with max segment angle %g is replaced by %d chords instead of %d" % (ai, a[2], a[3], n, a[4]), problem=p)
    cov = ctx.res.cov
    cov["evaluations"] = count
    cov["periodic_problems_oracle_only"] = nper
    cov["distinct_nontrivial"] = len(set(json.dumps(c[0], sort_keys=True, default=str) for c in cases))
    cov["rule"] = ("generated geometries with line spacings, arc segment angles, label mesh sizes, minimum angles 1-33 deg, smart "
                   "mesh on/off; PSLG of the real fmesher (--write-poly) vs. the float reading of Discretize.v; exact-rational "
                   "size / spacing / angle checks on the meshes")
    cov["input_distribution"] = feats
    cov["samples"] = [dict(features=c[0].get("features"), lines=len(c[2]), arcs=len(c[3])) for c in cases[:4]]
    cov["values_compared"] = tot
    cov["bit_identical"] = nb
    from props import ext as extmod
    return list(dis) + extmod.run(ctx, EXTENSIONS)
