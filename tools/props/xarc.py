"""XARC — the arc-segment extension of C16 (run by ./check C16 through props/ext.py; ./check XARC runs it alone).
Model: coq/theories/DrawingArc.v (extends Drawing.v); theorems: Properties_C16_arc.v (proofs in
DrawingArcProofs.v).
Correspondence: op sequences rich in arcs through harness/h_drawing_arc.cpp (the real
femm::FemmProblem driven as the Lua commands drive it; the harness also records every libm value
the real code obtained) and through the binary64 reading of the model (vm_compute, libm values =
the recorded ones), compared after every op: points, lines, arcs (end points, ArcLength,
MaxSideLength, boundary name, other properties, group, selection), block labels.
Property oracle: c16_oracle.py (exact rational, understands arcs) on the implementation's own dumps.
ASan replay of the same generators."""
import os, math, cmath, json
import vlib
from props import c16_oracle as orc
from props import c16

LEVEL = "proof"
COQ_MODULES = ["Drawing", "DrawingArc"]
ASSUMPTIONS = [
    "the combinatorial theorems hold for every instantiation of the geometric oracles (records Geo and GeoArc); the tie of "
    "the oracles to the C++ formulas is the binary64 correspondence run here; rounding error between the binary64 and the "
    "real reading is not bounded; that arcs meet lines and arcs only at points is a metric statement about the oracles "
    "(checked on the implementation by the exact-rational oracle only)",
    "libm values (sin, tan, atan2) are inputs of the binary64 reading: the harness records every value the real code "
    "obtained, the model looks them up (an argument the real code never used reads as nan and shows up as a disagreement)",
    "the recursive splits of addSegment and addArcSegment run on fuel in the model (termination of the C++ recursion is not "
    "proved); the correspondence reports any case that exhausts the fuel",
    "the copy loops are modelled with the semantics of iterating over the list as it was when the loop started",
    "properties of arcs: BoundaryMarkerName is modelled on its own (createRadius hands it to the new arc), Hidden / "
    "BoundaryMarker / InConductor / InConductorName as one opaque code; the harness assigns them the way h_drawing does "
    "for lines (luaSetArcsegmentProperty with consistent name and index)",
    "the model carries the switch fx of Drawing.v for deleteSelectedNodes (lines and arcs); the check runs the F1 probe on "
    "the implementation first and evaluates the variant the working tree exhibits",
    "the model is hand-written; its tie to FemmProblem.cpp is the op-sequence correspondence run here",
]
HEADER = ("From Coq Require Import ZArith List Floats. Import ListNotations. "
          "From XF Require Import Arith Drawing DrawingArc. Local Open Scope float_scope.")

KNOWN = {c16.SIG_F2: "C16-F2", c16.SIG_F3: "C16-F3", c16.SIG_F4: "C16-F4", c16.SIG_F6: "C16-F6"}
SIG_A2 = "C16-F2-arc-analogue-addnode-double-split-duplicates-arc"
# C16-A1 (fixed in /repo 0d96bcd): addArcSegment recursed without bound when a third point lay within dmin = 1e-5 * arc
# length of an END point of the proposed arc; the process died with SIGSEGV.  A crash or a fuel exhaustion of the model on
# such an input is a violation like any other; the replay inputs stay in the generator as regression probes
# (PROBE_A1, probes_near_end).
FX = {"value": True}
HARNESS = "h_drawing_arc"


# ------------------------------------------------------------------------ rendering ----
def to_text(cid, ops):
    return c16.to_text(cid, ops)


def bst1(items):
    """sorted [(key, value)] -> Coq term of type tbl1"""
    if not items:
        return "T1leaf"
    m = len(items) // 2
    k, v = items[m]
    return "(T1node %s %s %s %s)" % (bst1(items[:m]), vlib.fhex(k), vlib.fhex(v), bst1(items[m + 1:]))


def bst2(items):
    if not items:
        return "T2leaf"
    m = len(items) // 2
    (k1, k2), v = items[m]
    return "(T2node %s %s %s %s %s)" % (bst2(items[:m]), vlib.fhex(k1), vlib.fhex(k2), vlib.fhex(v), bst2(items[m + 1:]))


def fkey(x):
    """the order of DrawingArc.fcmp: by value, -0 before +0"""
    return (x, math.copysign(1.0, x))


def tables(libm):
    s = sorted((kv for key, kv in libm.items() if key[0] == "s" and kv[0] == kv[0]), key=lambda kv: fkey(kv[0]))
    t = sorted((kv for key, kv in libm.items() if key[0] == "t" and kv[0] == kv[0]), key=lambda kv: fkey(kv[0]))
    a = sorted((kv for key, kv in libm.items() if key[0] == "a" and kv[0][0] == kv[0][0] and kv[0][1] == kv[0][1]),
               key=lambda kv: (fkey(kv[0][0]), fkey(kv[0][1])))
    return "(libm_of_tables %s %s %s)" % (bst1(s), bst1(t), bst2(a))


def to_coq(ops, zs, libm):
    f = vlib.fhex
    out = []
    for i, o in enumerate(ops):
        k = o[0]
        a = o[1:]
        if k == "addarc":
            out.append("AAddArc %s %s %s %s %s %s" % tuple(f(v) for v in a))
        elif k == "selectarc":
            out.append("ASelectArc %s %s" % (f(a[0]), f(a[1])))
        elif k == "setarcprop":
            out.append("ASetArcProp %d %d %s" % (a[0], a[1], f(a[2])))
        elif k == "deleteselectedarcs":
            out.append("ADeleteSelectedArcs")
        elif k == "createradius":
            out.append("ACreateRadius %s %s %s" % (f(a[0]), f(a[1]), f(a[2])))
        else:
            # the ops of Drawing.v, rendered by c16.to_coq's table
            sub = c16.to_coq([o], [zs[i]])
            body = sub[sub.index("[") + 1:sub.rindex("] empty")]
            out.append("ABase (%s)" % body)
    return "map dumpA (traceA (geoArcA FA %s) %s FUEL [%s] emptyA)" % (
        tables(libm), "true" if FX["value"] else "false", "; ".join(out))


# ------------------------------------------------------------------- implementation ----
def parse_out(out):
    """as c16.parse_out, plus the libm records: res[cid]['libm'] = {('s', hex x): (x, v), ('a', hex y, hex x): ((y, x), v)}"""
    res, cur, st = {}, None, None
    for line in out.split("\n"):
        if not line:
            continue
        c = line[0]
        if line.startswith("case "):
            cur = dict(states=[], zs=[], halted=False, notes=[], complete=False, libm={})
            res[int(line.split()[1])] = cur
        elif cur is None:
            continue
        elif line.startswith("op "):
            t = line.split()
            zs, note = [], []
            k = 3
            while k < len(t):
                if t[k] == "z" and k + 2 < len(t):
                    zs.append((float(t[k + 1]), float(t[k + 2])))
                    k += 3
                else:
                    note.append(t[k])
                    k += 1
            cur["zs"].append(zs)
            cur["notes"].append(" ".join(note))
            st = dict(nodes=[], segs=[], arcs=[], labels=[], done=False)
            cur["states"].append(st)
        elif line.startswith("m "):
            t = line.split()
            # keyed by the printed bits (-0.0 and 0.0 are different arguments)
            if t[1] == "a":
                cur["libm"][("a", t[2], t[3])] = ((float.fromhex(t[2]), float.fromhex(t[3])), float.fromhex(t[4]))
            else:
                cur["libm"][(t[1], t[2])] = (float.fromhex(t[2]), float.fromhex(t[3]))
        elif line == "end":
            cur["complete"] = True
            cur = None
        elif line == "halted":
            cur["halted"] = True
        elif st is None:
            continue
        elif c == "n":
            t = line.split(None, 5)
            st["nodes"].append((float(t[1]), float(t[2]), int(t[3]), int(t[4]), t[5]))
        elif c == "s":
            t = line.split(None, 5)
            st["segs"].append((int(t[1]), int(t[2]), int(t[3]), int(t[4]), t[5]))
        elif c == "a":
            t = line.split(None, 7)
            st["arcs"].append((int(t[1]), int(t[2]), int(t[3]), int(t[4]), float(t[5]), float(t[6]), t[7]))
        elif c == "l":
            t = line.split(None, 6)
            st["labels"].append((float(t[1]), float(t[2]), int(t[3]), int(t[4]), float(t[5]), t[6]))
        elif line == ".":
            st["done"] = True
    return res


def ensure_exe(exe):
    if os.path.exists(exe):
        return exe
    flavour = "san" if "/harness-san/" in exe else "plain"
    return vlib.build_harness(vlib.snapshot(flavour), HARNESS)


def run_impl(exe, cases, timeout=900):
    results, crashes = {}, {}
    todo = list(cases)
    env = {"ASAN_OPTIONS": "detect_leaks=0:abort_on_error=0", "UBSAN_OPTIONS": "print_stacktrace=1"}
    while todo:
        txt = "".join(to_text(cid, ops) for cid, ops in todo)
        exe = ensure_exe(exe)
        rc, out, err = vlib.sh([exe], inp=txt, timeout=timeout, env=env)
        got = parse_out(out)
        results.update(got)
        last_complete = -1
        for k, (cid, ops) in enumerate(todo):
            if cid in got and got[cid]["complete"]:
                last_complete = k
        if last_complete == len(todo) - 1:
            break
        k = last_complete + 1
        cid, ops = todo[k]
        g = got.get(cid, dict(states=[]))
        n_done = len([s for s in g["states"] if s["done"]])
        crashes[cid] = dict(rc=rc, op_index=n_done, stderr=err[-2500:])
        todo = todo[k + 1:]
    return results, crashes


def arcprop_str(bdry, k):
    return "%s|%d|%s|%d|%d" % ("sp%d" % bdry if bdry else "<None>", k % 2, "sc%d" % k if k else "<None>", k - 1, k - 1)


def same_float(u, v, st):
    st["values"] += 1
    if vlib.ulp_diff(float(u), float(v)) == 0:
        st["bit_identical"] += 1
        return True
    return False


def compare_state(impl, model, stats):
    """impl: parsed dump; model: Coq dumpA ((nodes, segs, labs, oof, dsplit), arcs, asplit).  Returns a message or None."""
    mn, ms, ml, oof, dsplit, ma, asplit = model      # Coq prints left-nested pairs flat
    if oof:
        return "the model ran out of fuel in a recursive split"
    if len(impl["nodes"]) != len(mn) or len(impl["segs"]) != len(ms) or len(impl["labels"]) != len(ml) or \
       len(impl["arcs"]) != len(ma):
        return ("list lengths differ: implementation %d nodes / %d lines / %d arcs / %d labels, model %d / %d / %d / %d"
                % (len(impl["nodes"]), len(impl["segs"]), len(impl["arcs"]), len(impl["labels"]), len(mn), len(ms), len(ma), len(ml)))
    for i, (a, b) in enumerate(zip(impl["nodes"], mn)):
        if (a[2], a[3], a[4]) != (int(bool(b[2])), b[3], c16.nodeprop_str(b[4])):
            return "node %d flags/group/properties: implementation %r, model %r" % (i, a[2:], b[2:])
        for u, v in ((a[0], b[0]), (a[1], b[1])):
            if not same_float(u, v, stats):
                return "node %d coordinate: implementation %r, model %r" % (i, u, v)
    for i, (a, b) in enumerate(zip(impl["segs"], ms)):
        if (a[0], a[1], a[2], a[3], a[4]) != (b[0], b[1], int(bool(b[2])), b[3], c16.segprop_str(b[4])):
            return "line %d: implementation %r, model %r" % (i, a, b)
    for i, (a, b) in enumerate(zip(impl["arcs"], ma)):
        if (a[0], a[1], a[2], a[3], a[6]) != (b[0], b[1], int(bool(b[2])), b[3], arcprop_str(b[6], b[7])):
            return "arc %d ends/flags/group/properties: implementation %r, model %r" % (i, a, b)
        for u, v, w in ((a[4], b[4], "ArcLength"), (a[5], b[5], "MaxSideLength")):
            if not same_float(u, v, stats):
                return "arc %d %s: implementation %r, model %r" % (i, w, u, v)
    for i, (a, b) in enumerate(zip(impl["labels"], ml)):
        if (a[2], a[3], a[5]) != (int(bool(b[2])), b[3], c16.labelprop_str(b[5])):
            return "label %d flags/group/properties: implementation %r, model %r" % (i, a, b)
        for u, v in ((a[0], b[0]), (a[1], b[1]), (a[4], b[4])):
            if not same_float(u, v, stats):
                return "label %d value: implementation %r, model %r" % (i, u, v)
    return None


# ------------------------------------------------------------------------ generators ----
def arc_point(a, b, ang, frac):
    """the point at fraction frac of the arc from a to b spanning ang degrees (as getCircle places it)"""
    a0, a1 = complex(*a), complex(*b)
    d = abs(a1 - a0)
    if d == 0:
        return a
    t = (a1 - a0) / d
    tta = math.radians(ang)
    R = d / (2 * math.sin(tta / 2))
    c = a0 + (d / 2 + 1j * math.sqrt(max(R * R - d * d / 4, 0.0))) * t
    m = c + (a0 - c) * cmath.exp(1j * tta * frac)
    return (m.real, m.imag)


ANGLES = [30.0, 45.0, 60.0, 90.0, 120.0, 150.0, 180.0]


def rc(rng):
    return c16.rcoord(rng, 0.7)


def gen_arc_seq(rng, length):
    """general sequences: build-up with many arcs, then edits of every kind"""
    ops, pts, arcs = [], [], []

    def pick():
        if pts and rng.random() < 0.85:
            return rng.choice(pts)
        return (rc(rng), rc(rng))
    for i in range(length):
        build = i < length * 0.5
        k = rng.random()
        if (build and k < 0.35) or (not build and k < 0.08):
            p = (rc(rng), rc(rng))
            pts.append(p)
            ops.append(("addnode",) + p)
        elif (build and k < 0.55) or (not build and k < 0.14):
            ops.append(("addsegment",) + pick() + pick())
        elif (build and k < 0.90) or (not build and k < 0.26):
            a, b = pick(), pick()
            ang = rng.choice(ANGLES) if rng.random() < 0.85 else rng.uniform(5, 175)
            ops.append(("addarc",) + a + b + (ang, float(rng.choice([1, 5, 10]))))
            arcs.append((a, b, ang))
        elif build and k < 0.94:
            ops.append(("addlabel", c16.rcoord(rng, 0.3), c16.rcoord(rng, 0.3)))
        elif arcs and k < (0.97 if build else 0.34):
            a, b, ang = rng.choice(arcs)
            p = arc_point(a, b, ang, rng.choice([0.5, 0.25, 0.3, 0.75]))
            if rng.random() < 0.5:
                pts.append(p)
                ops.append(("addnode",) + p)          # a node on an arc
            else:
                ops.append(("selectarc",) + p)
        else:
            r = rng.random()
            m = rng.choice([3, 3, 4, 4, 0, 1, 2])
            if r < 0.08:
                ops.append(("selectnode",) + pick())
            elif r < 0.14:
                ops.append(("selectsegment", rc(rng), rc(rng)))
            elif r < 0.24:
                ops.append(("selectarc", rc(rng), rc(rng)))
            elif r < 0.28:
                ops.append(("selectgroup", rng.choice([0, 1, 2])))
            elif r < 0.32:
                ops.append(("setgroup", rng.choice([1, 2])))
            elif r < 0.34:
                ops.append(("clearselected",))
            elif r < 0.40:
                ops.append(("setarcprop", rng.choice([0, 1, 2, 3]), rng.choice([0, 1, 2]), float(rng.choice([1, 2.5, 10]))))
            elif r < 0.43:
                ops.append((rng.choice(["setnodeprop", "setsegprop", "setlabelprop"]), rng.choice([0, 1, 2, 3]), rng.choice([0, 1, 2])))
            elif r < 0.50:
                ops.append(("deleteselected",))
            elif r < 0.54:
                ops.append(("deleteselectednodes",))
            elif r < 0.58:
                ops.append(("deleteselectedarcs",))
            elif r < 0.60:
                ops.append(("deleteselectedsegments",))
            elif r < 0.67:
                ops.append(("movetranslate", rng.choice([1.0, -1.0, 0.5, 2.0, rng.uniform(-1, 1)]),
                            rng.choice([1.0, -1.0, 0.0, rng.uniform(-1, 1)]), m))
            elif r < 0.72:
                ops.append(("moverotate", rc(rng), rc(rng), rng.choice([90.0, 180.0, -90.0, 45.0, rng.uniform(-180, 180)]), m))
            elif r < 0.76:
                ops.append(("scale", rc(rng), rc(rng), rng.choice([2.0, 0.5, -1.0, rng.uniform(0.2, 3)]), m))
            elif r < 0.84:
                ops.append(("copytranslate", rng.choice([1.0, -1.0, 0.5, 3.0, rng.uniform(-1, 1)]),
                            rng.choice([1.0, 0.0, -1.0, 3.0, rng.uniform(-1, 1)]), rng.choice([1, 1, 2]), m))
            elif r < 0.88:
                ops.append(("copyrotate", rc(rng), rc(rng), rng.choice([90.0, 180.0, 45.0, 120.0, rng.uniform(-180, 180)]),
                            rng.choice([1, 2, 3]), m))
            elif r < 0.93:
                ops.append(("mirror", rc(rng), rc(rng), rc(rng), rc(rng), m))
            else:
                ops.append(("createradius",) + pick() + (rng.choice([0.1, 0.25, 0.5, 0.05]),))
    return ops


def gen_cross(rng):
    """arcs crossing lines and arcs, nodes on arcs, arcs between the same points with different angles, reversed
    duplicates, near duplicates (angle difference around the 1e-2 threshold of addArcSegment)"""
    ops = []
    n = rng.randint(3, 6)
    pts = []
    while len(pts) < n:
        p = (float(rng.randint(0, 3)), float(rng.randint(0, 3)))
        if p not in pts:
            pts.append(p)
    for p in pts:
        ops.append(("addnode",) + p)
    arcs = []
    for _ in range(rng.randint(2, 5)):
        k = rng.random()
        if arcs and k < 0.3:
            a, b, ang = rng.choice(arcs)
            q = rng.random()
            if q < 0.35:
                a, b = b, a                                   # reversed duplicate
            elif q < 0.6:
                ang = ang + rng.choice([30.0, -15.0, 0.0, 1.0, -1.0])
            else:
                ang = rng.choice(ANGLES)
        else:
            a, b = rng.sample(pts, 2)
            ang = rng.choice(ANGLES) if rng.random() < 0.8 else rng.uniform(5, 179)
        ang = min(ang, 180.0)
        if ang <= 0:
            ang = 10.0
        ops.append(("addarc",) + a + b + (ang, float(rng.choice([1, 5, 10]))))
        arcs.append((a, b, ang))
        if rng.random() < 0.4:
            a, b = rng.sample(pts, 2)
            ops.append(("addsegment",) + a + b)
    for _ in range(rng.randint(0, 3)):
        a, b, ang = rng.choice(arcs)
        ops.append(("addnode",) + arc_point(a, b, ang, rng.choice([0.5, 0.25, 0.125, 0.75, 1e-3])))
    for _ in range(rng.randint(0, 2)):
        a, b = rng.sample(pts, 2)
        ops.append(("addsegment",) + a + b)
    tail = rng.random()
    if tail < 0.3:
        a, b, ang = rng.choice(arcs)
        ops.append(("selectarc",) + arc_point(a, b, ang, 0.5))
        ops.append(rng.choice([("deleteselectedarcs",), ("deleteselected",), ("setarcprop", 2, 1, 2.5)]))
    elif tail < 0.5:
        ops.append(("selectnode",) + rng.choice(pts))
        ops.append(rng.choice([("deleteselectednodes",), ("deleteselected",)]))
    elif tail < 0.7:
        ops.append(("selectgroup", 0))
        ops.append(rng.choice([("movetranslate", 0.5, 0.25, 4), ("moverotate", 1.0, 1.0, 30.0, 4), ("scale", 0.0, 0.0, 2.0, 4),
                               ("copytranslate", 5.0, 0.0, 2, 4), ("mirror", -1.0, 0.0, -1.0, 1.0, 4),
                               ("copyrotate", 1.5, 1.5, 90.0, 1, 4), ("copytranslate", 0.5, 0.0, 1, 4)]))
    return ops


def gen_tangent(rng):
    """a line that touches an arc's circle (the early-return branch `l/R < 1e-5` of getLineArcIntersection): half / quarter
    circles with exactly representable centre, radius and touching point; the line is longer or shorter than the arc's
    chord and the touching point lies nearer or farther from the line's first end than the chord length, before / beyond
    the line's ends, inside / outside the arc's span; horizontal and vertical tangents, either drawing order (line first:
    addArcSegment's loop; arc first: addSegment's loop), then possibly a copy that lands a second line on the tangent"""
    R = float(rng.choice([1, 2, 4, 0.5]))
    cx, cy = float(rng.randint(-2, 2)), float(rng.randint(-2, 2))
    kind = rng.choice(["top180", "top90", "right180", "off-span"])
    if kind == "top180":
        a, b, ang, tp, dirv = (cx + R, cy), (cx - R, cy), 180.0, (cx, cy + R), (1.0, 0.0)
    elif kind == "top90":
        h = R * 0.7071067811865476
        a, b, ang, tp, dirv = (cx + h, cy + h), (cx - h, cy + h), 90.0, (cx, cy + R), (1.0, 0.0)
    elif kind == "right180":
        a, b, ang, tp, dirv = (cx, cy - R), (cx, cy + R), 180.0, (cx + R, cy), (0.0, 1.0)
    else:                                            # the touching point of the circle is outside the arc's span
        a, b, ang, tp, dirv = (cx + R, cy), (cx - R, cy), 180.0, (cx, cy - R), (1.0, 0.0)
    chord = math.hypot(a[0] - b[0], a[1] - b[1])
    # distances from the touching point to the line's ends, in units of the chord: covers R' < chord < len, chord < R' < len,
    # len < R' < chord (touching point beyond the end), len < chord, and the touching point right at an end
    u = rng.choice([0.25, 0.75, 1.5, 3.0, 6.0, 0.0, -0.5])
    w = rng.choice([0.25, 0.75, 1.5, 3.0, 6.0, -0.25])
    p0 = (tp[0] - dirv[0] * u * chord, tp[1] - dirv[1] * u * chord)
    p1 = (tp[0] + dirv[0] * w * chord, tp[1] + dirv[1] * w * chord)
    if rng.random() < 0.5:
        p0, p1 = p1, p0
    if p0 == p1:
        p1 = (p1[0] + dirv[0] * chord, p1[1] + dirv[1] * chord)
    ops = [("addnode",) + a, ("addnode",) + b, ("addnode",) + p0, ("addnode",) + p1]
    arc = ("addarc",) + a + b + (ang, float(rng.choice([1, 5, 10])))
    seg = ("addsegment",) + p0 + p1
    q = rng.random()
    if q < 0.4:
        ops += [arc, seg]
    elif q < 0.8:
        ops += [seg, arc]
    else:
        # the line is drawn away from the arc and copied onto the tangent
        n = rng.choice([1, 2, 3])
        off = (-dirv[1] * R, dirv[0] * R) if kind != "off-span" else (dirv[1] * R, -dirv[0] * R)
        q0 = (p0[0] + n * off[0], p0[1] + n * off[1])
        q1 = (p1[0] + n * off[0], p1[1] + n * off[1])
        ops = [("addnode",) + a, ("addnode",) + b, arc, ("addnode",) + q0, ("addnode",) + q1, ("addsegment",) + q0 + q1,
               ("selectsegment", (q0[0] + q1[0]) / 2, (q0[1] + q1[1]) / 2), ("copytranslate", -off[0], -off[1], n + rng.choice([0, 1]), 1)]
    return ops


def gen_near_dup(rng):
    """addArcSegment's duplicate test: a second arc between the same points whose angle differs by about the 1e-2 threshold
    (rejected below it, accepted above it), in either direction; then a selection / deletion"""
    a = (float(rng.randint(0, 2)), float(rng.randint(0, 2)))
    b = a
    while b == a:
        b = (float(rng.randint(0, 3)), float(rng.randint(0, 3)))
    ang = float(rng.choice([30, 60, 90, 120, 150]))
    ops = [("addnode",) + a, ("addnode",) + b]
    if rng.random() < 0.5:
        ops.append(("addnode", 5.0, 5.0))
    ops.append(("addarc",) + a + b + (ang, 5.0))
    for _ in range(rng.randint(1, 3)):
        d = rng.choice([0.005, -0.005, 0.0099, -0.0099, 0.0101, -0.0101, 0.02, 0.0, 0.5])
        if rng.random() < 0.25:
            ops.append(("addarc",) + b + a + (ang + d, 1.0))
        else:
            ops.append(("addarc",) + a + b + (ang + d, 1.0))
    if rng.random() < 0.5:
        ops.append(("selectarc",) + arc_point(a, b, ang, 0.5))
        ops.append(rng.choice([("deleteselectedarcs",), ("setarcprop", 1, 2, 2.5), ("deleteselected",)]))
    return ops


def gen_near_arc(rng):
    """a point close to where an arc is about to be drawn (3e-6, 3e-5 or 8e-5 arc lengths off the circle, in its middle
    part): addArcSegment's own tolerance dmin = 1e-5 * arc length decides whether the arc is broken there; the same for a
    line (dmin = 1e-5 * length)"""
    a = (float(rng.randint(0, 2)), float(rng.randint(0, 2)))
    b = a
    while b == a:
        b = (float(rng.randint(0, 3)), float(rng.randint(0, 3)))
    ang = float(rng.choice([30, 60, 90, 120, 180]))
    ops = [("addnode",) + a, ("addnode",) + b]
    tta = math.radians(ang)
    d = math.hypot(b[0] - a[0], b[1] - a[1])
    L = d / (2 * math.sin(tta / 2)) * tta
    for _ in range(rng.randint(1, 2)):
        p = arc_point(a, b, ang, rng.choice([0.5, 0.3, 0.7, 0.4]))
        m = arc_point(a, b, ang, 0.5)
        # radial direction ~ away from the chord's mid point for the points used here
        cx, cy = (a[0] + b[0]) / 2, (a[1] + b[1]) / 2
        ux, uy = p[0] - cx, p[1] - cy
        n = math.hypot(ux, uy) or 1.0
        off = rng.choice([3e-6, -3e-6, 3e-5, -3e-5, 8e-5, 2e-4]) * L
        ops.append(("addnode", p[0] + off * ux / n, p[1] + off * uy / n))
    if rng.random() < 0.3:
        q = ((a[0] + b[0]) / 2 + rng.choice([3e-6, 3e-5, 8e-5]) * d, (a[1] + b[1]) / 2)
        ops.append(("addnode",) + q)
        ops.append(("addsegment",) + a + b)
    ops.append(("addarc",) + a + b + (ang, 5.0))
    if rng.random() < 0.4:
        ops.append(("addarc",) + b + a + (ang, 5.0))
    return ops


# regression probe of C16-A1, minimal: a point 5e-6 from the end of a 90 degree arc of chord 1 (dmin = 1.1e-5)
PROBE_A1 = [("addnode", 0.0, 0.0), ("addnode", 1.0, 0.0), ("addnode", 1.0, 5e-6), ("addarc", 0.0, 0.0, 1.0, 0.0, 90.0, 5.0)]


def near_end_case(a, b, ang, which, factor, direction, both_ways=False, far=None):
    """a point at factor * dmin (dmin = 1e-5 * arc length) from end point `which` of the arc a -> b of ang degrees that is
    about to be drawn, in the given direction (radians)"""
    tta = math.radians(ang)
    d = math.hypot(b[0] - a[0], b[1] - a[1])
    dmin = d / (2 * math.sin(tta / 2)) * tta * 1e-5
    e = a if which == 0 else b
    ops = [("addnode",) + a, ("addnode",) + b]
    if far is not None:
        ops.append(("addnode",) + far)
    ops.append(("addnode", e[0] + factor * dmin * math.cos(direction), e[1] + factor * dmin * math.sin(direction)))
    ops.append(("addarc",) + a + b + (ang, 5.0))
    if both_ways:
        ops.append(("addarc",) + b + a + (ang, 5.0))
    return ops


def probes_near_end():
    """points at 0.3, 0.9, 1.1 and 3 times dmin from each end point of a prospective arc, in four directions"""
    out = []
    for which in (0, 1):
        for factor in (0.3, 0.9, 1.1, 3.0):
            for k in range(4):
                out.append(near_end_case((0.0, 0.0), (1.0, 0.0), 90.0, which, factor, math.pi / 4 + k * math.pi / 2))
    return out


def gen_near_end(rng):
    a = (float(rng.randint(0, 2)), float(rng.randint(0, 2)))
    b = a
    while b == a:
        b = (float(rng.randint(0, 3)), float(rng.randint(0, 3)))
    far = (5.0, 5.0) if rng.random() < 0.2 else None
    ops = near_end_case(a, b, float(rng.choice([30, 60, 90, 120, 180])), rng.choice([0, 1]), rng.choice([0.3, 0.9, 1.1, 3.0]),
                        rng.uniform(0, 2 * math.pi), both_ways=rng.random() < 0.4, far=far)
    if rng.random() < 0.4:
        # a second point near the other end, before the arc is drawn
        e = b if ops[-1][0] == "addarc" and rng.random() < 0.5 else a
        ops.insert(3 if far is None else 4, ("addnode", e[0] + 1.5e-5, e[1] - 1.0e-5))
    if rng.random() < 0.3:
        ops.append(("selectgroup", 0))
        ops.append(rng.choice([("movetranslate", 0.5, 0.25, 4), ("copytranslate", 4.0, 0.0, 1, 4), ("mirror", -1.0, 0.0, -1.0, 1.0, 4)]))
    return ops


def gen_arc_props_copy(rng):
    """arcs with properties and groups, selected again (arc mode or by group), then copied / mirrored / moved; sometimes the
    copies overlap the originals"""
    ops = []
    arcs = []
    x = 0.0
    for _ in range(rng.randint(1, 3)):
        a = (x, float(rng.choice([0, 1])))
        b = (x + float(rng.choice([1, 2])), float(rng.choice([0, 1, 2])))
        ang = float(rng.choice([30, 60, 90, 120, 180]))
        ops += [("addnode",) + a, ("addnode",) + b, ("addarc",) + a + b + (ang, float(rng.choice([1, 5, 10])))]
        arcs.append((a, b, ang))
        x += rng.choice([4.0, 4.0, 1.0])
    g = rng.choice([1, 2, 3])
    for (a, b, ang) in arcs[:rng.randint(1, len(arcs))]:
        ops.append(("selectarc",) + arc_point(a, b, ang, 0.5))
    ops.append(("setarcprop", rng.choice([1, 2, 3]), g, float(rng.choice([1, 2.5]))))
    ops.append(("clearselected",))
    if rng.random() < 0.5:
        ops.append(("selectgroup", g))
        mode = rng.choice([4, 4, 3])
    else:
        mode = 3
        for (a, b, ang) in arcs:
            ops.append(("selectarc",) + arc_point(a, b, ang, 0.5))
    which = rng.choice(["mirror", "mirror", "copytranslate", "copytranslate", "copyrotate", "movetranslate", "moverotate", "scale"])
    if which == "mirror":
        ax = rng.choice([(-3.0, -1.0, -3.0, 2.0), (0.0, -4.0, 1.0, -4.0), (-3.0, 0.0, -5.0, 2.0), (0.5, 0.0, 0.5, 1.0)])
        ops.append(("mirror",) + ax + (mode,))
    elif which == "copytranslate":
        ops.append(("copytranslate", rng.choice([0.0, 0.5]), rng.choice([10.0, -7.5, 0.25]), rng.randint(1, 3), mode))
    elif which == "copyrotate":
        ops.append(("copyrotate", rng.choice([-20.0, 0.5]), rng.choice([-20.0, 0.5]), rng.choice([25.0, 40.0, 90.0]), rng.randint(1, 3), mode))
    elif which == "movetranslate":
        ops.append(("movetranslate", rng.choice([3.0, -2.5]), rng.choice([10.0, 0.5]), mode))
    elif which == "moverotate":
        ops.append(("moverotate", -20.0, -20.0, rng.choice([25.0, 90.0]), mode))
    else:
        ops.append(("scale", -10.0, -10.0, rng.choice([0.5, 2.0]), mode))
    return ops


def gen_radius(rng):
    """corners of two lines, a line and an arc, two arcs; then createradius on the corner (and on unsuitable points)"""
    ops = []
    kind = rng.choice(["ll", "ll", "la", "la", "aa", "aa", "mixed"])
    c = (float(rng.choice([0, 1, 2])), float(rng.choice([0, 1, 2])))
    dirs = [(2.0, 0.0), (0.0, 2.0), (-2.0, 0.0), (0.0, -2.0), (2.0, 2.0), (-2.0, 1.0), (1.0, -2.0), (1.5, 0.5)]
    d1, d2 = rng.sample(dirs, 2)
    p1 = (c[0] + d1[0], c[1] + d1[1])
    p2 = (c[0] + d2[0], c[1] + d2[1])
    ops += [("addnode",) + c, ("addnode",) + p1, ("addnode",) + p2]

    def arc(a, b):
        if rng.random() < 0.5:
            a, b = b, a
        return ("addarc",) + a + b + (float(rng.choice([30, 60, 90, 120])), float(rng.choice([1, 5])))
    if kind == "ll":
        ops += [("addsegment",) + c + p1, ("addsegment",) + c + p2]
    elif kind == "la":
        first = [("addsegment",) + c + p1, arc(c, p2)]
        rng.shuffle(first)
        ops += first
    elif kind == "aa":
        ops += [arc(c, p1), arc(c, p2)]
    else:
        ops += [("addsegment",) + c + p1, arc(c, p2), ("addsegment",) + p1 + p2]
    if rng.random() < 0.5:
        # properties and groups on the two entities: the new arc inherits group and boundary name of one of them
        ops.append(("selectsegment", c[0] + d1[0] / 2, c[1] + d1[1] / 2))
        ops.append(("setsegprop", rng.choice([1, 2, 3]), rng.choice([1, 2])))
        ops.append(("clearselected",))
        ops.append(("selectarc", c[0] + d2[0] / 2, c[1] + d2[1] / 2))
        ops.append(("setarcprop", rng.choice([1, 2, 3]), rng.choice([1, 2, 3]), 2.5))
        if rng.random() < 0.7:
            ops.append(("clearselected",))
    r = rng.choice([0.1, 0.25, 0.5, 0.05, 1.0, 3.0, -0.25, 0.0])
    ops.append(("createradius",) + c + (r,))
    if rng.random() < 0.4:
        ops.append(("createradius",) + p1 + (0.1,))
    if rng.random() < 0.3:
        ops.append(("createradius",) + c + (0.1,))
    return ops


PROBE_F1_ARC = [("addnode", 0.0, 0.0), ("addnode", 1.0, 0.0), ("addarc", 0.0, 0.0, 1.0, 0.0, 90.0, 5.0),
                ("selectarc", 0.5, -0.2), ("selectnode", 0.0, 0.0), ("deleteselectednodes",)]
# two arcs that start at the same point, 90 and 90.02 degrees, and a point within the tolerance of both: the arc
# analogue of C16-F2 (both arcs are split, the two first halves are "the same arc" by addArcSegment's own test)
PROBE_A2 = [("addnode", 0.0, 0.0), ("addnode", 1.0, 0.0), ("addarc", 0.0, 0.0, 1.0, 0.0, 90.0, 5.0),
            ("addarc", 0.0, 0.0, 1.0, 0.0, 90.02, 5.0)]


def probe_a2_ops():
    p = arc_point((0.0, 0.0), (1.0, 0.0), 90.01, 1e-3)
    return PROBE_A2 + [("addnode",) + p]


# ----------------------------------------------------------------------- the check ----
def new_stats():
    return dict(cases=0, evaluations=0, kinds={}, crashes=0, oracle_failures=0, distinct=set(), bit_identical=0,
                values=0, states_compared=0, dsplit_flag=0, asplit_flag=0, signatures={}, known={}, radius={}, arcs_seen=0,
                libm_values=0)


def classify(msg, ops, k, pre, post):
    sig = c16.classify(msg, ops, k, pre, post)
    if sig:
        return sig
    if "is duplicated" in msg and pre is not None and len(post["nodes"]) > len(pre["nodes"]):
        return SIG_A2
    return None


def report_crash(ctx, stats, ops, c, sanitized):
    k = c["op_index"]
    opname = ops[k][0] if k < len(ops) else "?"
    sig = c16.SIG_D4 if opname in c16.COPY_OPS else "C16-crash-" + opname
    rep = "sanitizer report" if sanitized and ("Sanitizer" in c["stderr"] or "runtime error" in c["stderr"]) \
        else "abnormal termination (rc=%d)" % c["rc"]
    head = [l for l in c["stderr"].split("\n") if "ERROR" in l or "runtime error" in l or "SUMMARY" in l][:3]
    c16.report(ctx, stats, "%s of the real FemmProblem in op %d (%s) of the sequence%s"
               % (rep, k, opname, ": " + " / ".join(head) if head else ""),
               ops=[list(o) for o in ops[:k + 1]], signature=sig, flavour="san" if sanitized else "plain",
               stderr=c["stderr"][-1500:])
    stats["crashes"] += 1


def check_cases(ctx, exe, cases, stats, sanitized=False, with_model=True):
    impl, crashes = run_impl(exe, cases)
    dis = []
    exprs, idx = [], []
    for cid, ops in cases:
        stats["cases"] += 1
        for o in ops:
            stats["kinds"][o[0]] = stats["kinds"].get(o[0], 0) + 1
        got = impl.get(cid)
        if cid in crashes:
            report_crash(ctx, stats, ops, crashes[cid], sanitized)
        if got is None:
            continue
        states = [s for s in got["states"] if s["done"]]
        stats["libm_values"] += len(got["libm"])
        pre = dict(nodes=[], segs=[], arcs=[], labels=[])
        bad_at = None
        for k, st in enumerate(states):
            stats["evaluations"] += 1
            if st != pre:
                stats["distinct"].add(hash((repr(pre), ops[k])))
            if st["arcs"]:
                stats["arcs_seen"] += 1
            if ops[k][0] == "createradius":
                note = got["notes"][k] if k < len(got["notes"]) else "?"
                stats["radius"][note] = stats["radius"].get(note, 0) + 1
            msg = orc.check_step(pre, ops[k], st)
            if msg and bad_at is None:
                sig = classify(msg, ops, k, pre, st)
                if sig in KNOWN or sig == SIG_A2:
                    # recorded behaviours of the unchanged code (known_findings.json, C16): the model reproduces them
                    stats["known"][sig] = stats["known"].get(sig, 0) + 1
                else:
                    c16.report(ctx, stats, "after op %d (%s): %s" % (k, ops[k][0], msg), ops=[list(o) for o in ops[:k + 1]],
                               signature=sig or ("C16-oracle-" + ops[k][0]), flavour="san" if sanitized else "plain")
                    stats["oracle_failures"] += 1
                bad_at = k       # the oracle's later messages about this sequence would repeat the same thing
            pre = st
        if with_model and states:
            exprs.append(to_coq(ops[:len(states)], got["zs"][:len(states)], got["libm"]))
            idx.append((cid, ops, states))
    if exprs:
        model = vlib.coq_eval(HEADER, exprs, shard=40 if ctx.quick() else 100, timeout=2400)
        for (cid, ops, states), m in zip(idx, model):
            if len(m) != len(states):
                dis.append(dict(what="model produced %d states for %d ops" % (len(m), len(states)), ops=[list(o) for o in ops]))
                continue
            for k, (a, b) in enumerate(zip(states, m)):
                msg = compare_state(a, b, stats)
                stats["states_compared"] += 1
                if b[4]:
                    stats["dsplit_flag"] += 1
                if b[6]:
                    stats["asplit_flag"] += 1
                if msg:
                    dis.append(dict(what="drawing correspondence after op %d (%s): %s" % (k, ops[k][0], msg),
                                    ops=[list(o) for o in ops[:k + 1]]))
                    break
    return dis


def detect_fx(exe):
    impl, crashes = run_impl(exe, [(0, c16.PROBE_F1), (1, PROBE_F1_ARC)])
    a, b = impl.get(0), impl.get(1)
    if not a or not b or len(a["states"]) != len(c16.PROBE_F1) or len(b["states"]) != len(PROBE_F1_ARC):
        return True
    fa = len(a["states"][-1]["segs"]) == 0
    fb = len(b["states"][-1]["arcs"]) == 0
    return fa and fb


def gen_all(rng, quick):
    cases = [c16.PROBE_F1, PROBE_F1_ARC, c16.PROBE_F2, c16.PROBE_F4, c16.PROBE_F6, probe_a2_ops(), PROBE_A1]
    cases += probes_near_end()
    cases += [gen_near_end(rng) for _ in range(16 if quick else 400)]
    n = 60 if quick else 1500
    for k in range(n):
        cases.append(gen_arc_seq(rng, rng.randint(8, 24)))
    cases += [gen_cross(rng) for _ in range(50 if quick else 1200)]
    cases += [gen_near_dup(rng) for _ in range(16 if quick else 300)]
    cases += [gen_tangent(rng) for _ in range(30 if quick else 600)]
    cases += [gen_near_arc(rng) for _ in range(20 if quick else 300)]
    cases += [gen_arc_props_copy(rng) for _ in range(24 if quick else 500)]
    cases += [c16.gen_arc_copy(rng) for _ in range(8 if quick else 150)]
    cases += [gen_radius(rng) for _ in range(50 if quick else 1200)]
    # arc-free sequences: the extended model must reproduce what Drawing.v reproduces
    cases += [c16.gen_seq(rng, rng.randint(6, 18)) for _ in range(10 if quick else 200)]
    return cases


def correspond(ctx):
    rng = ctx.rng
    exe = vlib.build_harness(ctx.snap, HARNESS)
    stats = new_stats()
    FX["value"] = detect_fx(exe)
    ctx.res.cov["arc_model_variant"] = ("fx=true: deleteSelectedNodes selects the lines and arcs at a deleted point (repaired code)"
                                    if FX["value"] else "fx=false: deleteSelectedNodes toggles them (code before C16-F1-fix)")
    cases = list(enumerate(gen_all(rng, ctx.quick())))
    dis = check_cases(ctx, exe, cases, stats)
    sanitizer_replay(ctx, stats)
    if dis and ctx.failing_inputs:
        for d in dis[:3]:
            ctx.fail("model and implementation disagree (the oracle found no property violation in this sequence): "
                     + d["what"], ops=d.get("ops"), signature="C16-arc-correspondence")
    cov = ctx.res.cov            # keys of this extension are prefixed arc_ (ext.run keeps them apart from C16's own)
    cov["evaluations"] = stats["evaluations"]
    cov["distinct_nontrivial"] = len(stats["distinct"])
    cov["rule"] = ("seeded op sequences rich in arcs (arcs crossing lines and arcs, nodes added on arcs, arcs between the same "
                   "points with different angles, reversed and near duplicates, copies / mirrors / rotations / scalings of "
                   "selections containing arcs, createRadius on line-line, line-arc and arc-arc corners, deletes) executed by the "
                   "real FemmProblem exactly as the Lua commands call it; one evaluation = one op whose resulting drawing was "
                   "checked by the exact-rational oracle and compared value by value with the binary64 reading of the Coq model; "
                   "non-trivial = the op changed the drawing, distinct = distinct (drawing before, op) pairs")
    cov["input_distribution"] = dict(op_kinds=stats["kinds"], sequences=stats["cases"], states_with_arcs=stats["arcs_seen"],
                                     createradius_outcomes=stats["radius"])
    cov["samples"] = [to_text(cid, ops).split("\n")[:14] for cid, ops in cases[8:10]]
    cov["arc_states_compared_with_model"] = stats["states_compared"]
    cov["arc_values_compared"] = stats["values"]
    cov["arc_bit_identical"] = stats["bit_identical"]
    cov["arc_libm_values_taken_from_the_implementation"] = stats["libm_values"]
    cov["arc_harness_crashes"] = stats["crashes"]
    cov["arc_oracle_failures"] = stats["oracle_failures"]
    cov["arc_known_behaviours_reproduced"] = stats["known"]
    cov["arc_double_split_flag_seen"] = dict(lines=stats["dsplit_flag"], arcs=stats["asplit_flag"])
    cov["arc_failures_by_signature"] = stats["signatures"]
    cov["arc_sanitizer_replay"] = stats.get("san", {})
    return dis


def sanitizer_replay(ctx, stats):
    try:
        snap_san = vlib.snapshot("san")
        exe = vlib.build_harness(snap_san, HARNESS)
    except vlib.BuildError as e:
        ctx.res.notes.append("sanitizer flavour could not be built: %s" % str(e)[-300:])
        return
    rng = vlib.Rng(ctx.seed + 116)
    quick = ctx.quick()
    cases = [gen_arc_seq(rng, rng.randint(8, 22)) for _ in range(20 if quick else 300)]
    cases += [gen_cross(rng) for _ in range(15 if quick else 300)]
    cases += [gen_arc_props_copy(rng) for _ in range(10 if quick else 200)]
    cases += [gen_radius(rng) for _ in range(15 if quick else 300)]
    cases += [PROBE_A1] + [gen_near_end(rng) for _ in range(10 if quick else 200)]
    st = new_stats()
    check_cases(ctx, exe, list(enumerate(cases)), st, sanitized=True, with_model=False)
    stats["san"] = dict(sequences=st["cases"], ops_checked=st["evaluations"], reports=st["crashes"],
                        failures_by_signature=st["signatures"], known_behaviours=st["known"])
    stats["evaluations"] += st["evaluations"]
    for k, v in st["kinds"].items():
        stats["kinds"][k] = stats["kinds"].get(k, 0) + v


def search(ctx, broken):
    """A proof or the correspondence broke: look for a sequence on which the PROPERTY fails on the real code."""
    exe = vlib.build_harness(ctx.snap, HARNESS)
    rng = vlib.Rng(ctx.seed + 1)
    cases = []
    for b in broken:
        c = b.get("case") or {}
        if c.get("ops"):
            cases.append([tuple(o) for o in c["ops"]])
    cases += [gen_arc_seq(rng, rng.randint(8, 30)) for _ in range(800)]
    cases += [gen_cross(rng) for _ in range(600)]
    cases += [gen_radius(rng) for _ in range(600)]
    cases += [gen_arc_props_copy(rng) for _ in range(300)]
    sub = c16._Collect(ctx)
    check_cases(sub, exe, list(enumerate(cases)), new_stats(), with_model=False)
    return sub.failing_inputs[:3]
