"""Extension modules of a property check.
A property module (cNN.py) may list extension modules (built separately, each with its own Coq model,
harness and generator): their COQ_MODULES are compiled, their correspond(ctx) is run after the main one,
their coverage is kept under coverage["extensions"][name] and their evaluation counts are added to the
main ones; disagreements they return are disagreements of the property's check; violations they report
through ctx.fail are violations of the property."""
import importlib
import vlib

COV_KEYS = ("evaluations", "distinct_nontrivial", "rule", "samples", "input_distribution")


def run(ctx, names):
    """run the extension modules `names` (module names under props/); returns their disagreements"""
    main = dict(ctx.res.cov)
    dis = []
    exts = {}
    for nm in names:
        mod = importlib.import_module("props." + nm)
        mods = getattr(mod, "COQ_MODULES", [])
        if mods:
            rc, out = vlib.coq_make(["theories/%s.vo" % m for m in mods])
            if rc != 0:
                dis.append(dict(what="extension %s: model files no longer compile" % nm, log=out[-1500:]))
                continue
        if hasattr(mod, "regen"):
            # anchors / source variants / generated constants of the extension (idempotent; the host may have called it already)
            try:
                mod.regen(ctx)
            except vlib.TranslateError as e:
                dis.append(dict(what="extension %s: %s" % (nm, e), extension=nm))
                continue
        for k in COV_KEYS:
            ctx.res.cov.pop(k, None)
        before = set(ctx.res.cov.keys())
        saved = dict(ctx.res.cov)
        try:
            d = mod.correspond(ctx) or []
        except vlib.CoqEvalError as e:
            d = [dict(what="extension %s: model evaluation failed: %s" % (nm, str(e)[-1200:]))]
        for x in d:
            x.setdefault("extension", nm)
        dis += d
        cov = {k: ctx.res.cov.pop(k) for k in list(ctx.res.cov.keys()) if k in COV_KEYS or k not in before}
        # keys the extension shares with the main check (values_compared, bit_identical, ...): the extension's value goes
        # to its own record, the main one is restored
        for k in before:
            if k in COV_KEYS or k == "extensions":
                continue
            if k in saved and ctx.res.cov.get(k) is not saved[k] and ctx.res.cov.get(k) != saved[k]:
                cov[k] = ctx.res.cov.get(k)
                ctx.res.cov[k] = saved[k]
        exts[nm] = cov
        for a in getattr(mod, "ASSUMPTIONS", []):
            if a not in ctx.res.assumptions:
                ctx.res.assumptions.append("[%s] %s" % (nm, a))
    # restore the main coverage and add the extensions' counts
    for k in COV_KEYS:
        if k in main:
            ctx.res.cov[k] = main[k]
    for nm, cov in exts.items():
        for k in ("evaluations", "distinct_nontrivial"):
            if isinstance(cov.get(k), int):
                ctx.res.cov[k] = ctx.res.cov.get(k, 0) + cov[k]
    allext = dict(main.get("extensions", {}))
    allext.update(exts)
    ctx.res.cov["extensions"] = allext
    return dis


def search(ctx, names, broken):
    found = []
    for nm in names:
        mod = importlib.import_module("props." + nm)
        if hasattr(mod, "search"):
            found += mod.search(ctx, broken) or []
    return found
