"""C17 — a model built by Lua commands equals the same model read from a file, end to end.

Translator: tools/translate_lua.py regenerates coq/theories/gen/LuaTable.v (every addFunction registration
            of femmcli/Lua{Base,Magnetics,Electrostatics,Heatflow}Commands.cpp) on every run.
Theorems:   Properties_C17.v — both spellings of every command share a handler, names registered once, every
            command the generator uses is registered with a real handler (vm_compute over the regenerated
            table); build (script_of p) = Some p for every well-formed problem, from any previous state;
            newdocument / open replace the current document.
Tie (this file, decides most of the property): for generated problems p of the three physics
   route F (file):   A = femgen.write(p); fmesher A; esolver|hsolver|fsolver A; femmcli: open(A), xi_loadsolution(),
                     queries
   route L (Lua):    one script builds p from scratch with the documented commands (both spellings alternating; every
                     other problem with detours: a property field first wrong then corrected by xi_modify*, a junk
                     property added and deleted again, groups changed and restored by xi_setgroup),
                     xi_saveas(B0), xi_saveas(B), [xi_createmesh()], xi_analyze(), xi_loadsolution(), the same queries;
                     then newdocument (all five forms) and a SECOND (and third, after an open()) problem in the same script
   required: meaning(A) = meaning(B0) (independent reader tools/femfile.py), B = B0 byte for byte after the
   analysis, mesh files byte-identical, [Solution] parts identical, all queried values equal to 1e-12, the select
   commands return the entity they were aimed at, return values in the documented order and units.
Model tie:  for the same problems the Coq term P is evaluated by vm_compute (c17_model.py): wf P = true,
   build (script_of P) = P, and render_script P is, command for command (names, property names, coordinates, groups,
   sizes, flags), the Lua script the check ran (up to the spelling of the names and the selection points of
   segments/arcs, which the model abstracts)."""
import os, re, json, math, shutil, copy
import vlib, femgen, geomgen, femmrun, femfile
import translate_lua
from props import c17_gen as G
from props import c17_model as M

LEVEL = "proof"
COQ_MODULES = ["LuaCmds"]
ASSUMPTIONS = [
    "the theorems are about a command-semantics MODEL (opaque property payloads, integer coordinates, 'too close' = "
    "'equal', no automatic splitting of segments at intersections, segment/arc selection by nearest handle); that the "
    "real handlers follow it is observed by the run-time tie only (partial by design, DESIGN.md C17)",
    "the documentation taken as the specification is the \\lua{...} signature above each handler and README-LUA.txt; "
    "where xfemm documents nothing (return values of mo_getpointvalues) the order of the FEMM 4.2 manual is used and "
    "checked through internal consistency (D = eo*eps*E, F = k*G, H = B/(mu*muo), energy densities, material values)",
    "not expressible through the Lua command set of xfemm and therefore excluded from the generated problems: "
    "[DoSmartMesh] (the smartmesh command is commented out), the file comment, inner/outer angle of an air-gap boundary; "
    "the visualisation-only 8th column of magnetics arc segments ('meshed side length') is written as 1 by the Lua "
    "route and is not compared",
    "mesh files of the Lua route are captured through hard links created before the script runs (the mesher and the "
    "solver unlink them after use); static problems only (frequency 0)",
    "the file route is the framework's own writer (tools/femgen.py) and reader (tools/femfile.py), both trusted",
    "xi_modify* field numbers are those of the FEMM 4.2 manual (= the handlers' own switch); hi_modifyconductorprop, whose handler "
    "numbers its fields (1 type, 2 Tc, 3 qc) unlike ei_modifyconductorprop and the manual (1 Tc, 2 qc, 3 type), is not used",
    "generated drawings are planar straight-line graphs (no node on a foreign segment, no crossing segments), so the automatic "
    "splitting of FemmProblem::addSegment/addNode never fires; problems without any fixed potential are given one (the solvers "
    "iterate for ever on them)",
]
TABLE = []
SOLVER = {"fem": "fsolver", "fee": "esolver", "feh": "hsolver"}
ANS = {"fem": ".ans", "fee": ".res", "feh": ".anh"}
EXT = {"fem": ".fem", "fee": ".fee", "feh": ".feh"}
EO = 8.85418781762e-12
MUO = 4e-7 * math.pi


def regen(ctx):
    changed, rows = translate_lua.regen(ctx.snap.src)
    TABLE[:] = rows


# ----------------------------------------------------------------------------------------------
# table checks on the Python side (concrete replays for what the theorems state)
# ----------------------------------------------------------------------------------------------
REQUIRED_BASE = ["probdef", "addmaterial", "addboundprop", "addpointprop", "addnode", "addsegment", "addarc", "addblocklabel",
                 "selectnode", "selectsegment", "selectarcsegment", "selectlabel", "setnodeprop", "setsegmentprop", "setblockprop",
                 "clearselected", "saveas", "analyze", "loadsolution", "createmesh"]


def table_findings(rows):
    out = []
    names = {}
    for n, h, f in rows:
        if n in names and names[n] != h:
            out.append(dict(what="Lua command %s is registered twice with different handlers (%s, %s)" % (n, names[n], h),
                            signature="registered-twice:" + n))
        names[n] = h
    groups = {}
    for n, h, f in rows:
        groups.setdefault(G.canon(n), []).append((n, h))
    for k, v in sorted(groups.items()):
        hs = sorted(set(h for _, h in v))
        if len(hs) > 1:
            out.append(dict(what="the spellings %s of one Lua command are registered to different handlers: %s" %
                            (", ".join(n for n, _ in v), ", ".join("%s -> %s" % (n, h) for n, h in v)),
                            signature="spellings-differ:" + k, names=[n for n, _ in v], handlers=hs))
    for pre in ("mi_", "ei_", "hi_"):
        for b in REQUIRED_BASE + (["setarcsegmentprop"] if pre != "hi_" else []):
            h = names.get(pre + b)
            if h is None or h.endswith("luaNOP"):
                out.append(dict(what="builder command %s%s is %s" % (pre, b, "not registered" if h is None else "registered as a no-op"),
                                signature="builder-missing:" + pre + b))
    return out


# ----------------------------------------------------------------------------------------------
# running the two routes
# ----------------------------------------------------------------------------------------------
def solution_part(path):
    data = open(path, "rb").read()
    i = data.find(b"[Solution]")
    return data[i:] if i >= 0 else None


def mesh_counts(base):
    try:
        nn = int(open(base + ".node").readline().split()[0])
        ne = int(open(base + ".ele").readline().split()[0])
        return nn, ne
    except Exception:
        return None, None


def read_mesh_unused(base):
    nodes = [l.split() for l in open(base + ".node").read().split("\n")[1:] if l.strip()]
    eles = [l.split() for l in open(base + ".ele").read().split("\n")[1:] if l.strip()]
    return [(float(t[1]), float(t[2])) for t in nodes], [(int(t[1]), int(t[2]), int(t[3]), int(t[4])) for t in eles]


def file_route(ctx, p, wd, queries):
    """stand-alone mesher, solver, then femmcli with only open + loadsolution + queries"""
    kind = p["kind"]
    os.makedirs(wd, exist_ok=True)
    A = os.path.join(wd, "a" + EXT[kind])
    femgen.write(p, A)
    rc, out, err = vlib.sh([ctx.snap.tool("fmesher"), A], timeout=180, cwd=wd)
    base = A[:-4]
    if rc != 0 or not os.path.exists(base + ".ele"):
        return None, "fmesher failed on the generated file (rc=%d): %s" % (rc, (out + err)[-300:])
    for e in (".node", ".ele", ".edge", ".pbc"):
        if os.path.exists(base + e):
            shutil.copy(base + e, os.path.join(wd, "mesh" + e))
    rc, out, err = vlib.sh([ctx.snap.tool(SOLVER[kind]), base], timeout=300, cwd=wd)
    if rc != 0 or not os.path.exists(base + ANS[kind]):
        return None, "%s failed on the generated file (rc=%d): %s" % (SOLVER[kind], rc, (out + err)[-300:])
    res, err = femmrun.run_file(ctx, kind, A, queries, timeout=300, analyze=False)
    if err:
        return None, "post-processing of the stand-alone solution failed: " + err
    return dict(A=A, base=base, mesh=os.path.join(wd, "mesh"), res=res), None


def lua_route(ctx, probs, wd, sp, plan):
    """ONE script: for each problem build, save, (mesh,) analyse, load the solution, query; then the next problem."""
    os.makedirs(wd, exist_ok=True)
    L = list(G.PRELUDE)
    info = []
    for k, p in enumerate(probs):
        kind = p["kind"]
        tag = "p%d" % k
        pi, po = G.PRE[kind]
        B0 = os.path.join(wd, "%s_saved%s" % (tag, EXT[kind]))
        B = os.path.join(wd, "%s%s" % (tag, EXT[kind]))
        base = B[:-4]
        # the mesher/solver unlink the mesh files: keep them through a second name
        for e in (".node", ".ele", ".edge", ".pbc"):
            keep = base + "_keep" + e
            open(keep, "w").close()
            if os.path.exists(base + e):
                os.remove(base + e)
            os.link(keep, base + e)
        vary = vlib.Rng(plan["vary_seed"][k]) if plan.get("vary_seed") and plan["vary_seed"][k] is not None else None
        cmds, expect = G.build_commands(p, sp, tag, newdoc_form=plan["newdoc"] + k, vary=vary)
        L.append("-- problem %d: %s" % (k, " ".join(str(f) for f in p.get("features", []))))
        if k == 2:
            L.append('open("%s")' % info[0]["B0"])          # a document read from a file is replaced as well
            sp.count["open"] = sp.count.get("open", 0) + 1
        L += cmds
        L.append('%s("%s")' % (sp(pi + "_saveas"), B0))
        L.append('%s("%s")' % (sp(pi + "_saveas"), B))
        L.append('out("%s_iinfo", %s())' % (tag, sp(pi + "_getprobleminfo")))
        if plan["createmesh"][k]:
            L.append('out("%s_cm", %s())' % (tag, sp(pi + "_createmesh")))
            # the analysis writes the mesh again: keep that one under a second name (execute() is Lua's own)
            for e in (".node", ".ele", ".edge", ".pbc"):
                open(base + "_keep2" + e, "w").close()
                L.append('execute("ln -f %s %s")' % (base + "_keep2" + e, base + e))
        L.append("%s(1)" % sp(pi + "_analyze"))
        L.append("%s()" % sp(pi + "_loadsolution"))
        q = G.standard_queries(p)
        L += G.query_lines(kind, [t[:3] for t in q], sp, tag)
        L += G.group_lines(kind, q, sp, tag)
        L += G.extra_lines(kind, sp, tag, plan["node_ids"], plan["elem_ids"])
        if k + 1 < len(probs):
            # leave dirt behind: selected entities, a selected block, a contour
            lab = p["labels"][0]
            L.append("%s(%s, %s)" % (sp(pi + "_selectnode"), G.lnum(p["points"][0]["x"]), G.lnum(p["points"][0]["y"])))
            L.append("%s(%s, %s)" % (sp(pi + "_selectlabel"), G.lnum(lab["x"]), G.lnum(lab["y"])))
            L.append("%s(%s, %s)" % (sp(po + "_selectblock"), G.lnum(lab["x"]), G.lnum(lab["y"])))
            L.append("%s(%s, %s)" % (sp(po + "_addcontour"), G.lnum(lab["x"]), G.lnum(lab["y"])))
        info.append(dict(tag=tag, B0=B0, B=B, base=base, expect=expect, queries=q, cmds=cmds))
    L.append('print("R done")')
    lua = os.path.join(wd, "script.lua")
    open(lua, "w").write("\n".join(L) + "\n")
    rc, out, err = vlib.sh([ctx.snap.tool("femmcli"), "--lua-script=" + lua], timeout=240, cwd=wd)
    res = femmrun.parse_output(out)
    msg = None
    if rc != 0 or not res.get("done"):
        lines = [l.strip() for l in (out + "\n" + err).split("\n") if l.strip() and not l.startswith("R ")]
        errs = [l for l in lines if "error" in l.lower() or "rror:" in l] or lines[-3:]
        where = [l for l in lines if "at line" in l]
        msg = "femmcli failed on the generated script (rc=%d): %s" % (rc, " | ".join(errs[:3] + where[:1])[-400:])
    return dict(script=L, res=res, info=info, lua=lua), msg


def relclose(a, b, tol=1e-12):
    if isinstance(a, float) and isinstance(b, float):
        if a == b or (a != a and b != b):
            return True
        return abs(a - b) <= tol * max(abs(a), abs(b))
    return a == b


def close_list(a, b, tol=1e-12):
    if a is None or b is None or len(a) != len(b):
        return False
    sc = max([abs(x) for x in a if isinstance(x, float)] + [0.0])
    for x, y in zip(a, b):
        if isinstance(x, float) and isinstance(y, float):
            if not (relclose(x, y, tol) or abs(x - y) <= tol * sc * 1e-3):
                return False
        elif x != y:
            return False
    return True


ALLOWED_DIFF = ("entity:arcs:meshedside",)


def compare_files(p, A, B0):
    """meaning of the file written directly vs. the file saved by the Lua route"""
    kind = p["kind"]
    try:
        mA = femfile.meaning(femfile.read(A, kind))
        mB = femfile.meaning(femfile.read(B0, kind))
    except Exception as e:
        return [("unreadable", repr(e))]
    diffs = [d for d in femfile.compare(mA, mB) if d[0] not in ALLOWED_DIFF]
    return diffs


def label_of_point(p, x, y):
    for l in p.get("labels", []):
        if l["x"] == x and l["y"] == y:
            return l
    return None


def doc_checks(p, q, vals):
    """return order / units of xo_getpointvalues at a block label, from the documentation: list of messages"""
    kind = p["kind"]
    out = []
    lab = label_of_point(p, q[1], q[2])
    mat = p["blockprops"][lab["block"] - 1] if lab and 0 < lab.get("block", 1) <= len(p["blockprops"]) else None
    if lab and lab.get("external", 0) & 1 and kind != "fem":
        mat = None       # in an axisymmetric exterior region the material values are those of the Kelvin-transformed space

    def near(a, b, tol=1e-9, floor=0.0):
        return abs(a - b) <= tol * max(abs(a), abs(b)) + floor
    if kind == "fee":
        if len(vals) != 8:
            return ["eo_getpointvalues returned %d values, documented: 8 (V, Dx, Dy, Ex, Ey, ex, ey, nrg)" % len(vals)]
        V, Dx, Dy, Ex, Ey, ex, ey, nrg = vals
        sc = max(abs(Dx), abs(Dy), 1e-300)
        if not (near(Dx, EO * ex * Ex, 1e-9, 1e-12 * sc) and near(Dy, EO * ey * Ey, 1e-9, 1e-12 * sc)):
            out.append("D = eo*eps*E does not hold for the values returned as (Dx,Dy,Ex,Ey,ex,ey) = %r" % (vals[1:7],))
        if not near(nrg, (Dx * Ex + Dy * Ey) / 2, 1e-9, 1e-300):
            out.append("nrg = (D.E)/2 does not hold: nrg=%r, (Dx*Ex+Dy*Ey)/2=%r" % (nrg, (Dx * Ex + Dy * Ey) / 2))
        if mat and not (near(ex, mat.get("ex", 1)) and near(ey, mat.get("ey", 1))):
            out.append("values 6,7 (ex, ey) = (%r, %r) are not the permittivities (%r, %r) of the block's material" % (ex, ey, mat.get("ex", 1), mat.get("ey", 1)))
    elif kind == "feh":
        if len(vals) != 7:
            return ["ho_getpointvalues returned %d values, documented: 7 (T, Fx, Fy, Gx, Gy, kx, ky)" % len(vals)]
        T, Fx, Fy, Gx, Gy, kx, ky = vals
        sc = max(abs(Fx), abs(Fy), 1e-300)
        if not (near(Fx, kx * Gx, 1e-9, 1e-12 * sc) and near(Fy, ky * Gy, 1e-9, 1e-12 * sc)):
            out.append("F = k*G does not hold for the values returned as (Fx,Fy,Gx,Gy,kx,ky) = %r" % (vals[1:7],))
        if mat and not mat.get("tk") and not (near(kx, mat.get("kx", 1)) and near(ky, mat.get("ky", 1))):
            out.append("values 6,7 (kx, ky) = (%r, %r) are not the conductivities (%r, %r) of the block's material" % (kx, ky, mat.get("kx", 1), mat.get("ky", 1)))
    else:
        if len(vals) != 14:
            return ["mo_getpointvalues returned %d values, documented: 14 (A, B1, B2, Sig, E, H1, H2, Je, Js, Mu1, Mu2, Pe, Ph, ff)" % len(vals)]
        A, B1, B2, Sig, E, H1, H2, Je, Js, Mu1, Mu2, Pe, Ph, ff = vals
        # (in an axisymmetric exterior region the permeability and energy density are those of the Kelvin-transformed space)
        linear = mat is not None and not mat.get("bh") and not mat.get("H_c") and not mat.get("lamtype") and not lab.get("external")
        if linear:
            sc = max(abs(H1), abs(H2), 1e-300)
            if not (near(H1, B1 / (Mu1 * MUO), 1e-9, 1e-12 * sc) and near(H2, B2 / (Mu2 * MUO), 1e-9, 1e-12 * sc)):
                out.append("H = B/(mu*muo) does not hold for the values returned as (B1,B2,H1,H2,Mu1,Mu2) = %r" % ([B1, B2, H1, H2, Mu1, Mu2],))
            if not near(E, (B1 * H1 + B2 * H2) / 2, 1e-9, 1e-300):
                out.append("E = (B.H)/2 does not hold: E=%r, (B1*H1+B2*H2)/2=%r" % (E, (B1 * H1 + B2 * H2) / 2))
            if mat.get("lamfill", 1) == 1 and not (near(Mu1, mat.get("mu_x", 1)) and near(Mu2, mat.get("mu_y", 1))):
                out.append("values 10,11 (Mu1, Mu2) = (%r, %r) are not the permeabilities (%r, %r) of the block's material" % (Mu1, Mu2, mat.get("mu_x", 1), mat.get("mu_y", 1)))
        if mat is not None and not near(Sig, mat.get("sigma", 0), 1e-9, 1e-300) and not mat.get("lamtype"):
            out.append("value 4 (Sig) = %r is not the conductivity %r MS/m of the block's material" % (Sig, mat.get("sigma", 0)))
    return out


class Findings:
    """one report per signature (the smallest replay wins)"""

    def __init__(self):
        self.by_sig = {}

    def add(self, sig, what, **replay):
        size = len(json.dumps(replay, default=str))
        if sig not in self.by_sig or size < self.by_sig[sig][0]:
            self.by_sig[sig] = (size, what, replay)

    def flush(self, ctx):
        for sig in sorted(self.by_sig):
            size, what, replay = self.by_sig[sig]
            ctx.fail(what, signature=sig, **replay)


def slim(p):
    q = {k: v for k, v in p.items() if k not in ("regs", "outer", "probe", "lab")}
    return q


def check_pair(ctx, k, probs, sp, plan, F, stats):
    wd = os.path.join(ctx.work, "pair%d" % k)
    lr, lmsg = lua_route(ctx, probs, os.path.join(wd, "lua"), sp, plan)
    script_head = lr["script"][len(G.PRELUDE):]
    replay_script = script_head if len(script_head) <= 700 else script_head[:700] + ["-- ... %d more lines" % (len(script_head) - 700)]
    if lmsg:
        m = re.search(r"attempt to call global `?([a-z_]+)'", lmsg)
        if m and not sp.registered(m.group(1)):
            F.add("C17-1 hi_setarcsegmentprop is not registered" if G.canon(m.group(1)) == "hisetarcsegmentprop" else "command-not-registered:" + m.group(1),
                  "the documented Lua command %s is not registered by femmcli: %s" % (m.group(1), lmsg[-200:]),
                  problems=[slim(p) for p in probs], script=replay_script)
        else:
            F.add("script-failed:" + probs[0]["kind"], "Lua route: " + lmsg, problems=[slim(p) for p in probs], script=replay_script)
        return
    res = lr["res"]
    for idx, (p, inf) in enumerate(zip(probs, lr["info"])):
        kind = p["kind"]
        tag = inf["tag"]
        rp = dict(problem=slim(p), script=replay_script, position_in_script=idx, createmesh_before_analyze=bool(plan["createmesh"][idx]),
                  vary_seed=plan["vary_seed"][idx] if plan.get("vary_seed") else None)
        stats["problems"] += 1
        stats["_model"].append((p, inf["cmds"]))
        if len(p["points"]) >= 4 and p["blockprops"] and p["labels"]:
            stats["_distinct"].add(json.dumps(slim(p), sort_keys=True, default=str))
        # 0. the select commands returned the entities they were aimed at
        for t, want in inf["expect"].items():
            got = res.get(t)
            if got != want:
                what = {"sn": "selectnode", "ss": "selectsegment", "sa": "selectarcsegment", "sh": "selectlabel", "sl": "selectlabel"}[t.split("_")[1][:2]]
                F.add("select-returns:%s:%s" % (kind, what), "%s_%s aimed at %r returned %r (documented: the coordinates of the selected entity)" %
                      (G.PRE[kind][0], what, want, got), **rp)
                break
        # 1. file written directly vs. file saved by the Lua route
        fr, fmsg = file_route(ctx, p, os.path.join(wd, "file%d" % idx), [t[:3] for t in inf["queries"]])
        A = os.path.join(wd, "file%d" % idx, "a" + EXT[kind])
        if not os.path.exists(inf["B0"]):
            F.add("saveas-wrote-nothing:" + kind, "%s_saveas did not write %s" % (G.PRE[kind][0], inf["B0"]), **rp)
            continue
        diffs = compare_files(p, A, inf["B0"])
        for sig, det in diffs:
            F.add("file-differs:%s:%s" % (kind, sig), "the problem built by Lua commands and saved differs from the same problem written as a file: %s (%s)" % (sig, det),
                  detail=det, **rp)
        stats["files_compared"] += 1
        # the analysis saves the problem again before meshing: same description (the visualisation-only 'meshed side
        # length' of magnetics arcs is updated by a preceding xi_createmesh)
        d2 = compare_files(p, inf["B0"], inf["B"])
        if d2 or (not plan["createmesh"][idx] and open(inf["B0"], "rb").read() != open(inf["B"], "rb").read()):
            F.add("analyze-rewrites-file:" + kind, "%s_analyze rewrote the problem file with a different content than %s_saveas wrote: %s" %
                  (G.PRE[kind][0], G.PRE[kind][0], d2[0] if d2 else first_diff(inf["B0"], inf["B"])), **rp)
        if fmsg:
            F.add("file-route-failed:" + kind, "file route: " + fmsg, **rp)
            continue
        # 2. mesh files: of xi_createmesh (when used) and of xi_analyze
        same_mesh, edge_order = True, False
        meshes = [("analyze", inf["base"] + ("_keep2" if plan["createmesh"][idx] else "_keep"))]
        if plan["createmesh"][idx]:
            meshes.insert(0, ("createmesh", inf["base"] + "_keep"))
        for which, mb in meshes:
            if plan["createmesh"][idx] and which == "analyze" and os.path.getsize(mb + ".node") == 0:
                stats["second_mesh_not_captured"] = stats.get("second_mesh_not_captured", 0) + 1
                continue
            for e in (".node", ".ele", ".edge", ".pbc"):
                a = fr["mesh"] + e
                b = mb + e
                if not os.path.exists(a):
                    continue
                da, db = open(a, "rb").read(), open(b, "rb").read()
                if da == db:
                    continue
                same_mesh = False
                if e == ".edge" and same_edge_set(da, db):
                    edge_order = True
                    F.add("C17-3 order of the .edge file depends on the heap layout",
                          "the .edge file written during %s_%s lists the same edges in another order than the one fmesher writes for the same "
                          "problem (%s): Triangle's writeedges lets the triangle with the lower ADDRESS emit a shared edge, so with more than one "
                          "pool block (> 4092 triangles) the order depends on where malloc placed the blocks (a second meshing in one process); "
                          "the solvers' Cuthill renumbering takes its neighbour order from this file, so node numbering and round-off follow" %
                          (G.PRE[kind][0], which, first_diff(a, b)), **rp)
                else:
                    F.add("mesh-differs:%s:%s" % (kind, e), "the mesh file %s written during %s_%s differs from the one fmesher writes for the same problem read from a file (%s)" %
                          (e, G.PRE[kind][0], which, first_diff(a, b)), **rp)
                break
        stats["meshes_compared"] += 1
        # 3. solution
        sa, sb = solution_part(fr["base"] + ANS[kind]), None
        if os.path.exists(inf["base"] + ANS[kind]):
            sb = solution_part(inf["base"] + ANS[kind])
        if sb is None:
            F.add("no-solution:" + kind, "%s_analyze left no solution file" % G.PRE[kind][0], **rp)
            continue
        if sa != sb:
            stats["solutions_not_bytewise"] += 1
            bad = None
            try:
                na, ea = femmrun.read_solution(kind, fr["base"])
                nb, eb = femmrun.read_solution(kind, inf["base"])
                if edge_order:
                    # same mesh, other numbering: compare as sets of (x, y) -> value, to solver precision
                    da_ = {(x[0], x[1]): x[2] for x in na}
                    vmax = max(abs(x[2]) for x in na) or 1e-300
                    for x in nb:
                        v = da_.get((x[0], x[1]))
                        if v is None or abs(v - x[2]) > 1e-5 * vmax:
                            bad = "node at (%r, %r): %r (file route) vs %r (Lua route)" % (x[0], x[1], v, x[2])
                            break
                elif ea != eb or len(na) != len(nb):
                    bad = "meshes in the solution files differ (%d/%d nodes, %d/%d elements)" % (len(na), len(nb), len(ea), len(eb))
                else:
                    for i, (x, y) in enumerate(zip(na, nb)):
                        if any(vlib.ulp_diff(u, v) > 10 for u, v in zip(x, y)):
                            bad = "node %d: %r (file route) vs %r (Lua route)" % (i, x, y)
                            break
            except Exception as e:
                bad = "solution unreadable: %r" % (e,)
            if bad:
                F.add("solution-differs:" + kind, "the solution computed by %s_analyze differs from the stand-alone solver's on the same problem: %s" % (G.PRE[kind][0], bad), **rp)
        stats["solutions_compared"] += 1
        # 4. queried values
        for qi, q in enumerate(inf["queries"]):
            a = fr["res"].get("q%d" % qi)
            b = res.get("%s_q%d" % (tag, qi))
            stats["queries"] += 1
            if a is None or b is None or not close_list(a, b, 1e-5 if edge_order else 1e-12):
                F.add("query-differs:%s:%s" % (kind, q[0]), "query %r: %r from the stand-alone route, %r from the script that built the problem (problem %d of the script)" %
                      (q[:1] + q[2:] if q[0] in ("block", "line") else q, a, b, idx), query=list(map(str, q)), **rp)
                break
        for qi, q in enumerate(inf["queries"]):
            if q[0] == "block" and len(q) > 3 and q[3] == "group":
                a = res.get("%s_q%d" % (tag, qi))
                b = res.get("%s_gb%d" % (tag, q[4]))
                if a is None or b is None or not close_list(a, b, 1e-12):
                    F.add("groupselectblock:" + kind, "%s_groupselectblock(%d) then %s_blockintegral(%d) gives %r; selecting the blocks of the labels of group %d one by one gives %r" %
                          (G.PRE[kind][1], q[4], G.PRE[kind][1], q[2], b, q[4], a), **rp)
        # 5. documented order / units of returned values
        nn, ne = mesh_counts(fr["mesh"])
        for qi, q in enumerate(inf["queries"]):
            b = res.get("%s_q%d" % (tag, qi))
            if b is None:
                continue
            if q[0] == "nodes" and nn is not None and b != [float(nn), float(ne)]:
                F.add("numnodes:" + kind, "xo_numnodes/xo_numelements returned %r, the mesh has %d nodes and %d elements" % (b, nn, ne), **rp)
            if q[0] == "point" and b and any(isinstance(x, float) and x != x for x in b):
                stats["nan_results"] = stats.get("nan_results", 0) + 1
                stats.setdefault("nan_problems", {})[" ".join(str(f) for f in p.get("features", []))] = q[1:]
                continue
            if q[0] == "point" and b and label_of_point(p, q[1], q[2]):
                stats["doc_checks"] += 1
                for m in doc_checks(p, q, b):
                    F.add("getpointvalues-order:" + kind, "%s_getpointvalues(%r, %r): %s" % (G.PRE[kind][1], q[1], q[2], m), values=b, **rp)
            if q[0] == "cond" and b:
                c = [c for c in p["circuits"] if c["name"] == q[1]][0]
                if kind == "fem":
                    used = any(l.get("circuit", 0) and p["circuits"][l["circuit"] - 1]["name"] == q[1] for l in p["labels"])
                    if len(b) != 3:
                        F.add("circuitprops:fem", "mo_getcircuitproperties returned %d values, documented: 3 (current, voltage drop, flux linkage)" % len(b), values=b, **rp)
                    elif used and isinstance(b[0], float) and not relclose(b[0], float(c.get("amps_re", 0)), 1e-9):
                        F.add("circuitprops:fem", "mo_getcircuitproperties(%r): first value %r is not the circuit's current %r" % (q[1], b[0], c.get("amps_re", 0)), values=b, **rp)
                else:
                    if len(b) != 2:
                        F.add("conductorprops:" + kind, "xo_getconductorproperties returned %d values, documented: 2 (voltage|temperature, charge|flux)" % len(b), values=b, **rp)
                    elif c.get("type", 1) == 1 and any(x.get("cond", 0) and p["circuits"][x["cond"] - 1]["name"] == q[1]
                                                       for x in p["points"] + p["segments"] + p["arcs"]):
                        if not relclose(b[0], float(c.get("V", 0)), 1e-6) and abs(b[0] - c.get("V", 0)) > 1e-9:
                            F.add("conductorprops:" + kind, "xo_getconductorproperties(%r): first value %r is not the prescribed %r" % (q[1], b[0], c.get("V", 0)), values=b, **rp)
        # problem info: (type, [frequency,] depth in metres, length unit in metres)
        um = femgen.UNIT_M[p.get("units", "millimeters")]
        want = [1.0 if p.get("problemtype") == "axisymmetric" else 0.0] + ([float(p.get("frequency", 0))] if kind == "fem" else []) + \
               [p.get("depth", 1) * um, um]
        for which in ("iinfo", "xinfo"):
            b = res.get("%s_%s" % (tag, which))
            fn = (G.PRE[kind][0] if which == "iinfo" else G.PRE[kind][1]) + "_getprobleminfo"
            if b is None or len(b) != len(want):
                F.add("probleminfo-count:" + kind, "%s returned %r, documented: %d values" % (fn, b, len(want)), **rp)
                continue
            if not (b[0] == want[0] and relclose(b[-1], want[-1], 1e-12) and (kind != "fem" or b[1] == want[1])):
                F.add("probleminfo-order:" + kind, "%s returned %r, documented (problem type, [frequency,] depth in m, length unit in m) = %r" % (fn, b, want), **rp)
            elif not relclose(b[-2], want[-2], 1e-12):
                F.add("C17-2 getprobleminfo returns the depth in the length unit of the drawing, documented: in meters", "%s returned the depth as %r for a problem of depth %r %s; documented: 'depth assumed for planar problems in meters' = %r" %
                      (fn, b[-2], p.get("depth", 1), p.get("units"), want[-2]), values=b, **rp)
        # mesh nodes / elements as numbered in the solution the post-processor loaded, in the length unit of the problem
        try:
            snodes, seles = femmrun.read_solution(kind, inf["base"])
        except Exception:
            snodes, seles = [], []
        for n in plan["node_ids"]:
            b = res.get("%s_xnode%d" % (tag, n))
            if b is None or n > len(snodes):
                continue
            x, y = snodes[n - 1][0], snodes[n - 1][1]
            if len(b) != 2 or not (abs(b[0] - x) <= 1e-9 * max(abs(x), 1e-3) and abs(b[1] - y) <= 1e-9 * max(abs(y), 1e-3)):
                F.add("getnode:" + kind, "%s_getnode(%d) returned %r, mesh node %d is at (%r, %r) in the problem's length unit" % (G.PRE[kind][1], n, b, n, x, y), **rp)
        for n in plan["elem_ids"]:
            b = res.get("%s_xelem%d" % (tag, n))
            if b is None or n > len(seles) or not snodes:
                continue
            e = seles[n - 1]
            P = [snodes[e[0]], snodes[e[1]], snodes[e[2]]]
            cx, cy = sum(t[0] for t in P) / 3, sum(t[1] for t in P) / 3
            area = abs((P[1][0] - P[0][0]) * (P[2][1] - P[0][1]) - (P[2][0] - P[0][0]) * (P[1][1] - P[0][1])) / 2
            grp = p["labels"][e[3]].get("group", 0) if 0 <= e[3] < len(p["labels"]) else None
            ok = len(b) == 7 and [b[0], b[1], b[2]] == [e[0] + 1.0, e[1] + 1.0, e[2] + 1.0] and \
                abs(b[3] - cx) <= 1e-9 * max(abs(cx), 1e-3) and abs(b[4] - cy) <= 1e-9 * max(abs(cy), 1e-3) and \
                abs(abs(b[5]) - area) <= 1e-8 * area and (grp is None or b[6] == float(grp))
            if not ok:
                F.add("getelement:" + kind, "%s_getelement(%d) returned %r; documented (node 1, node 2, node 3, x centroid, y centroid, area, group): element %d has "
                      "nodes %r (1-based), centroid (%r, %r), area %r in the problem's length unit, group %r" %
                      (G.PRE[kind][1], n, b, n, [e[0] + 1, e[1] + 1, e[2] + 1], cx, cy, area, grp), **rp)
        if plan["createmesh"][idx]:
            b = res.get("%s_cm" % tag)
            if nn is not None and b != [float(nn)]:
                F.add("createmesh-return:" + kind, "%s_createmesh returned %r, the mesh has %d nodes" % (G.PRE[kind][0], b, nn), **rp)
        if same_mesh and sa == sb:
            stats["identical"] += 1


def same_edge_set(da, db):
    def edges(d):
        out = []
        for l in d.decode("latin-1").split("\n")[1:]:
            t = l.split()
            if len(t) >= 4:
                out.append((min(int(t[1]), int(t[2])), max(int(t[1]), int(t[2])), int(t[3])))
        return sorted(out)
    try:
        return da.split(b"\n")[0] == db.split(b"\n")[0] and edges(da) == edges(db)
    except Exception:
        return False


def first_diff(a, b):
    ta = open(a, "rb").read().decode("latin-1").split("\n")
    tb = open(b, "rb").read().decode("latin-1").split("\n")
    for i, (x, y) in enumerate(zip(ta, tb)):
        if x != y:
            return "line %d: %r vs %r" % (i + 1, x[:70], y[:70])
    return "%d vs %d lines" % (len(ta), len(tb))


# ----------------------------------------------------------------------------------------------
KINDS = ["fee", "fem", "feh"]


def gen_problem(rng, kind, fam, slot, quick, sp, stats):
    """one problem of the plan: physics `kind`, generator family `fam` (0..3)"""
    for attempt in range(6):
        if fam == 0:
            if kind == "fem":
                p = G.gen_mag_problem(rng, size_nodes=rng.choice([40, 70]) if quick else rng.choice([70, 200, 500]))
            else:
                p = femgen.gen_scalar_problem(rng, kind, size_nodes=rng.choice([30, 60]) if quick else rng.choice([60, 200, 600]))
        elif fam == 1:
            p = geomgen.FAMS[1 + (slot // 12 + attempt) % 4](rng, kind, quick)      # circle / nested polygons / annulus / stadium
        elif fam == 2:
            if kind == "fem":
                p = G.gen_mag_problem(rng, axi=True, size_nodes=50 if quick else 200, outer=(slot % 2 == 1))
            else:
                p = femgen.gen_scalar_problem(rng, kind, axi=True, size_nodes=40 if quick else 300)
                if slot % 2 == 0:
                    p = G.add_outer_space(p, rng)
        else:
            p = geomgen.FAMS[rng.randrange(5)](rng, kind, quick)
        p = G.normalise(p)
        if G.heat_arc_props(p) and not sp.registered("hi_setarcsegmentprop"):
            stats["heat_arc_problems_skipped"] += 1
            if attempt > 2:
                fam = 0
            continue
        return p
    return G.normalise(femgen.gen_scalar_problem(rng, kind))


def model_correspondence(ctx, cases, sp):
    """the script the check ran for p is, command for command, the model's script_of P; wf P and build (script_of P) = P
    evaluated by vm_compute for the very problems of this run"""
    mstats = dict(evaluated=0, commands_compared=0, skipped_heat_arcs=0, not_representable=0)
    exprs, keep = [], []
    for p, cmds in cases:
        if p["kind"] == "feh" and p.get("arcs") and not sp.registered("hi_setarcsegmentprop"):
            mstats["skipped_heat_arcs"] += 1
            continue
        try:
            e, S = M.exprs_for(p)
        except M.NotRepresentable:
            mstats["not_representable"] += 1
            continue
        exprs += e
        keep.append((p, cmds, S))
    if not exprs:
        return [], mstats
    vals = vlib.coq_eval(M.HEADER, exprs, shard=150, name="c17")
    dis = []
    for (p, cmds, S), v in zip(keep, vals):
        mstats["evaluated"] += 1
        wf, built, enc, rendered = v
        if wf is not True:
            dis.append(dict(what="a generated problem is not well-formed in the sense of LuaCmds.wf (generator and model disagree on the hypotheses)",
                            problem=slim(p), signature="model:not-wf"))
            continue
        if built != [enc]:
            dis.append(dict(what="vm_compute: build (script_of P) differs from P for a generated problem", problem=slim(p), signature="model:build"))
            continue
        exp = M.expected(cmds, S)
        mstats["commands_compared"] += len(exp)
        msg = M.compare([(r[0], r[1], r[2]) for r in rendered], exp)
        if msg:
            dis.append(dict(what="the script run by the check is not the model's script_of P: " + msg, problem=slim(p), signature="model:script_of"))
    return dis, mstats


HEAT_ARC_REPLAY = ['newdocument(2)', 'hi_probdef("millimeters", "planar", 1e-8, 1, 30)', 'hi_addboundprop("T0", 0, 300, 0, 0, 0, 0)',
                   'hi_addnode(-1, 0)', 'hi_addnode(1, 0)', 'hi_addarc(-1, 0, 1, 0, 180, 10)', 'hi_addarc(1, 0, -1, 0, 180, 10)',
                   'hi_selectarcsegment(0, -1)', 'hi_setarcsegmentprop(10, "T0", 0, 0, "<None>")', 'print("R done")']


def heat_arc_probe(ctx, F):
    """FEMM documents hi_setarcsegmentprop(maxsegdeg, "propname", hide, group, "inconductor"); without it the arcs of a heat
    flow problem cannot be given a boundary condition or conductor by commands."""
    wd = os.path.join(ctx.work, "heatarc")
    os.makedirs(wd, exist_ok=True)
    lua = os.path.join(wd, "s.lua")
    open(lua, "w").write("\n".join(HEAT_ARC_REPLAY) + "\n")
    rc, out, err = vlib.sh([ctx.snap.tool("femmcli"), "--lua-script=" + lua], timeout=60, cwd=wd)
    if rc != 0 or "R done" not in out:
        tail = [l for l in (out + "\n" + err).split("\n") if l.strip()]
        F.add("C17-1 hi_setarcsegmentprop is not registered",
              "heat flow: the documented command hi_setarcsegmentprop (both spellings) is not registered by femmcli; arcs of a heat-flow "
              "problem cannot be given a boundary condition, conductor, group or hide flag from Lua, so a problem with a curved "
              "boundary cannot be built by commands: " + " | ".join(tail[-2:])[-240:],
              script=HEAT_ARC_REPLAY, replay="femmcli --lua-script on `script`: error instead of 'R done'")
        return False
    return True


WIRED_REPLAY = ['newdocument(0)', 'mi_addmaterial("wire", 1, 1, 0, 0, 58, 0, 0, 1, 3, 0, 0, 5, 0.5)',
                'mi_modifymaterial("wire", 12, 7)', 'mi_modifymaterial("wire", 13, 0.25)', 'mi_saveas("wired.fem")', 'print("R done")']


def wired_probe(ctx, F):
    """mi_modifymaterial("BlockName", propnum, value): propnum 12 = number of strands, 13 = wire diameter (FEMM 4.2)"""
    wd = os.path.join(ctx.work, "wired")
    os.makedirs(wd, exist_ok=True)
    lua = os.path.join(wd, "s.lua")
    open(lua, "w").write("\n".join(WIRED_REPLAY) + "\n")
    rc, out, err = vlib.sh([ctx.snap.tool("femmcli"), "--lua-script=" + lua], timeout=60, cwd=wd)
    try:
        m = femfile.meaning(femfile.read(os.path.join(wd, "wired.fem"), "fem"))
        b = m["block"][0]
        got = (b["<nstrands>"], b["<wired>"])
    except Exception as e:
        got = repr(e)
    if got != (7, 0.25):
        F.add("C17-4 mi_modifymaterial propnum 13 (WireD) reads a fourth argument",
              "mi_modifymaterial(\"wire\", 12, 7) and mi_modifymaterial(\"wire\", 13, 0.25) left (NStrands, WireD) = %r in the saved file, expected (7, 0.25): "
              "case 13 of luaModifyMaterialProperty reads lua_todouble(L,4), an argument the command does not have" % (got,),
              script=WIRED_REPLAY, replay="femmcli --lua-script on `script`, then read <WireD> of wired.fem")
        return False
    return True


def correspond(ctx):
    if not TABLE:
        try:
            regen(ctx)
        except vlib.TranslateError:
            return []
    rng = ctx.rng
    F = Findings()
    try:
        os.utime(ctx.snap.root)          # other checks running concurrently evict the least recently used snapshots
    except OSError:
        pass
    for t in table_findings(TABLE):
        F.add(t["signature"], t["what"], **{k: v for k, v in t.items() if k not in ("what", "signature")})
    sp = G.Speller(TABLE)
    stats = dict(problems=0, files_compared=0, meshes_compared=0, solutions_compared=0, solutions_not_bytewise=0, queries=0,
                 doc_checks=0, identical=0, heat_arc_problems_skipped=0, _distinct=set(), _model=[])
    heat_arc_ok = heat_arc_probe(ctx, F)
    wired_probe(ctx, F)
    if ctx.replay and ctx.replay.get("replay", {}).get("problem"):
        pr = ctx.replay["replay"]
        probs = [G.normalise(pr["problem"])]
        plan = dict(newdoc=0, createmesh=[bool(pr.get("createmesh_before_analyze"))], node_ids=[1, 2], elem_ids=[1], vary_seed=[pr.get("vary_seed")])
        check_pair(ctx, 0, probs, sp, plan, F, stats)
        npairs = 1
        feats, samples = {}, []
    else:
        npairs = 60 if ctx.quick() else 300
        feats, samples = {}, []
        slot = 0
        for k in range(npairs):
            n = 2 if k % 4 != 3 else 3
            probs = []
            for j in range(n):
                kind, fam = KINDS[slot % 3], (slot // 3) % 4
                if k % 3 == 1 and j == 1:
                    kind = probs[0]["kind"]          # the same physics twice in a row: same property names, other values
                probs.append(gen_problem(rng, kind, fam, slot, ctx.quick(), sp, stats))
                slot += 1
            plan = dict(newdoc=k, createmesh=[(k + j) % 3 == 0 for j in range(n)], node_ids=[1, 2, 7], elem_ids=[1, 5],
                        # every other problem takes the detours through xi_modify*, xi_delete*, xi_setgroup
                        vary_seed=[(ctx.seed % 100000) * 1000 + k * 10 + j if (k + j) % 2 == 0 else None for j in range(n)])
            for p in probs:
                for ft in [p["kind"], p.get("problemtype", "planar"), p.get("units")] + [str(f) for f in p.get("features", [])[:6]]:
                    feats[ft] = feats.get(ft, 0) + 1
                if "bc-added" in p.get("features", []):
                    feats["bc-added"] = feats.get("bc-added", 0) + 1
                for key, name in (("arcs", "has-arcs"), ("holes", "has-holes")):
                    if p.get(key):
                        feats[name] = feats.get(name, 0) + 1
            check_pair(ctx, k, probs, sp, plan, F, stats)
            if k == 0:
                try:
                    sl = open(os.path.join(ctx.work, "pair0", "lua", "script.lua")).read().split("\n")[len(G.PRELUDE):]
                    samples.append(dict(script_lines=len(sl), script_head=[l[:160] for l in sl[:45]]))
                except OSError:
                    pass
            if len(samples) < 4:
                samples.append(dict(script_problems=[dict(kind=p["kind"], features=p.get("features"), points=len(p["points"]), segments=len(p["segments"]),
                                                          arcs=len(p["arcs"]), labels=len(p["labels"]), holes=len(p["holes"])) for p in probs]))
            shutil.rmtree(os.path.join(ctx.work, "pair%d" % k), ignore_errors=True)
    F.flush(ctx)
    dis, mstats = model_correspondence(ctx, stats.pop("_model"), sp)
    plain, other = sp.usage()
    cov = ctx.res.cov
    distinct = len(stats.pop("_distinct"))
    cov["evaluations"] = stats["problems"] + 2
    cov["distinct_nontrivial"] = distinct
    cov["rule"] = ("every generated problem (three physics; rectangles with interfaces, inner boxes, holes, conductors, point properties; "
                   "circles/annuli/stadiums with arcs; magnetics cells with wound coil, parallel bars, magnet, iron with arcs or B-H curve, "
                   "point currents; planar and axisymmetric; all six length units) is built twice: written as a file and built by a Lua "
                   "script; %d scripts of 2-3 problems each; compared: saved file by meaning, file after analysis byte for byte, mesh files "
                   "byte for byte, [Solution] parts, all queries to 1e-12, return order/units against the documentation; a problem is "
                   "counted as distinct non-trivial when its full description differs from all others and it has >= 4 nodes, >= 1 material and >= 1 block label" % npairs)
    cov["input_distribution"] = dict(features=feats, counters=stats, model_correspondence=mstats,
                                     commands_used=dict(distinct_names=len(sp.count), plain_spelling=sum(plain.values()), other_spelling=sum(other.values()),
                                                        distinct_plain=len(plain), distinct_other=len(other)),
                                     heat_arc_command_registered=heat_arc_ok)
    cov["commands_exercised"] = dict(sorted(sp.count.items()))
    cov["samples"] = samples
    cov["evaluations"] += mstats["evaluated"]
    cov["table"] = dict(rows=len(TABLE), noop=sum(1 for n, h, f in TABLE if h.endswith("luaNOP")),
                        two_spellings=sum(1 for v in sp.variants.values() if len(v) > 1))
    return dis


def search(ctx, broken):
    """a proof over the regenerated table broke: exhibit the registration that breaks it"""
    out = []
    for t in table_findings(TABLE):
        d = dict(t)
        names = t.get("names")
        if names:
            d["script"] = ["-- the two spellings run different code:"] + ["%s(...)  -- handler %s" % (n, dict((a, b) for a, b, c in TABLE).get(n)) for n in names]
        out.append(d)
    return out
