"""Shared machinery of the xfemm verification checks (DESIGN.md §2.3).

snapshot build of /repo's working tree  ->  regenerated model parts  ->  Coq build
->  correspondence (model evaluated by coqc/vm_compute vs. implementation)  ->  verdict,
evidence, VIOLATION / KNOWN-FINDING protocol.
"""
import fcntl, hashlib, json, math, os, re, shutil, struct, subprocess, sys, time

VERIF = os.path.dirname(os.path.dirname(os.path.abspath(__file__)))
REPO = os.environ.get("XFEMM_REPO", "/repo")
SCRATCH = os.environ.get("XFEMM_VERIF_SCRATCH", "/var/tmp/xfemm-verif")
COQDIR = os.path.join(VERIF, "coq")
GUARD = "XFEMM_VERIF"
NCPU = os.cpu_count() or 4


def log(*a):
    print(*a, flush=True)


def sh(cmd, timeout=600, cwd=None, env=None, inp=None, check=False):
    """Run a command (list or shell string); returns (rc, stdout, stderr)."""
    e = dict(os.environ)
    if env:
        e.update(env)
    try:
        p = subprocess.run(cmd, shell=isinstance(cmd, str), cwd=cwd, env=e, input=inp,
                           stdout=subprocess.PIPE, stderr=subprocess.PIPE, timeout=timeout,
                           universal_newlines=True, errors="replace")
        rc, out, err = p.returncode, p.stdout, p.stderr
    except subprocess.TimeoutExpired as t:
        rc = 124
        out = t.stdout if isinstance(t.stdout, str) else (t.stdout or b"").decode("utf8", "replace")
        err = (t.stderr if isinstance(t.stderr, str) else (t.stderr or b"").decode("utf8", "replace")) + "\nTIMEOUT"
    if check and rc != 0:
        raise RuntimeError("command failed (%d): %s\n%s\n%s" % (rc, cmd, out[-3000:], err[-3000:]))
    return rc, out, err


class Lock:
    def __init__(self, name):
        os.makedirs(SCRATCH, exist_ok=True)
        self.path = os.path.join(SCRATCH, name + ".lock")

    def __enter__(self):
        self.f = open(self.path, "w")
        fcntl.flock(self.f, fcntl.LOCK_EX)
        return self

    def __exit__(self, *a):
        fcntl.flock(self.f, fcntl.LOCK_UN)
        self.f.close()


# --------------------------------------------------------------------------------------
# snapshot of /repo's working tree, built with the guard on
# --------------------------------------------------------------------------------------
def tree_hash():
    h = hashlib.sha256()
    rc, out, _ = sh(["git", "-C", REPO, "ls-files", "-s", "cfemm", "README.md"])
    h.update(out.encode())
    rc, out, _ = sh(["git", "-C", REPO, "diff", "HEAD", "--", "cfemm", "README.md"])
    h.update(out.encode())
    rc, out, _ = sh(["git", "-C", REPO, "ls-files", "-o", "--exclude-standard", "cfemm"])
    for f in sorted(out.split()):
        p = os.path.join(REPO, f)
        if os.path.isfile(p):
            h.update(f.encode())
            with open(p, "rb") as fh:
                h.update(fh.read())
    return h.hexdigest()[:16]


class Snapshot:
    def __init__(self, root, flavour):
        self.root = root                       # <scratch>/<hash>
        self.flavour = flavour
        self.src = os.path.join(root, "root", "cfemm")
        self.build = os.path.join(root, "build-" + flavour)
        self.bin = os.path.join(root, "bin-" + flavour)
        self.hdir = os.path.join(root, "harness-" + flavour)

    def tool(self, name):
        return os.path.join(self.bin, name)


# _GLIBCXX_ASSERTIONS: libstdc++ checks the preconditions of operator[] / front / back / unique_ptr
# dereference (out-of-range element access inside a vector's capacity is invisible to ASan)
SAN_FLAGS = "-fsanitize=address,undefined -fno-sanitize-recover=all -fno-omit-frame-pointer -D_GLIBCXX_ASSERTIONS"


def snapshot(flavour="plain"):
    """Copy /repo/cfemm (working tree) to scratch and build it with -DXFEMM_VERIF.
    flavour 'plain' (RelWithDebInfo, as the baseline) or 'san' (ASan+UBSan)."""
    th = tree_hash()
    root = os.path.join(SCRATCH, "snap-" + th)
    snap = Snapshot(root, flavour)
    with Lock("snapshot"):
        stamp = os.path.join(snap.build, ".built")
        if os.path.exists(stamp):
            os.utime(root)
            return snap
        # drop old snapshots of other trees (the 8 most recently used are kept: seeded trees, builders' mutants and the
        # sanitizer flavour share this directory)
        os.makedirs(SCRATCH, exist_ok=True)
        snaps = [d for d in os.listdir(SCRATCH) if d.startswith("snap-") and d != "snap-" + th]
        snaps.sort(key=lambda d: os.path.getmtime(os.path.join(SCRATCH, d)), reverse=True)
        for d in snaps[7:]:
            shutil.rmtree(os.path.join(SCRATCH, d), ignore_errors=True)
        os.makedirs(os.path.join(root, "root"), exist_ok=True)
        if not os.path.exists(os.path.join(root, "root", ".copied")):
            shutil.copy(os.path.join(REPO, "README.md"), os.path.join(root, "root", "README.md"))
            sh(["rsync", "-a", "--delete", "--exclude", "/bin", REPO + "/cfemm/", snap.src + "/"], check=True)
            open(os.path.join(root, "root", ".copied"), "w").close()
        t0 = time.time()
        flags = "-Wno-error -w -D" + GUARD
        ldflags = ""
        if flavour == "san":
            flags += " " + SAN_FLAGS
            ldflags = SAN_FLAGS.replace(" -D_GLIBCXX_ASSERTIONS", "")
        # the project forces CMAKE_RUNTIME_OUTPUT_DIRECTORY=<src>/bin; build each flavour then
        # move the binaries aside so that flavours do not overwrite each other
        shutil.rmtree(snap.build, ignore_errors=True)
        cm = ["cmake", "-G", "Ninja", "-S", snap.src, "-B", snap.build,
              "-DCMAKE_BUILD_TYPE=RelWithDebInfo", "-DCMAKE_CXX_FLAGS=" + flags,
              # C sources = the bundled Triangle (third party): not instrumented.  Its robust predicates
              # (fast_expansion_sum_zeroelim) read one element past the end of an expansion without using
              # it, which ASan reports; C08 is about xfemm's own code.
              "-DCMAKE_C_FLAGS=-w",
              "-DCMAKE_EXE_LINKER_FLAGS=" + ldflags]
        rc, out, err = sh(cm, timeout=600)
        if rc != 0:
            raise BuildError("cmake failed:\n" + out[-2000:] + err[-2000:])
        rc, out, err = sh(["ninja", "-C", snap.build], timeout=3000)
        if rc != 0:
            raise BuildError("build failed:\n" + out[-4000:] + err[-2000:])
        shutil.rmtree(snap.bin, ignore_errors=True)
        os.makedirs(snap.bin)
        for f in os.listdir(os.path.join(snap.src, "bin")):
            shutil.move(os.path.join(snap.src, "bin", f), os.path.join(snap.bin, f))
        open(stamp, "w").write("%.1f\n" % (time.time() - t0))
        log("[snapshot] built %s (%s) in %.0fs" % (th, flavour, time.time() - t0))
    return snap


class BuildError(Exception):
    pass


LIBS = ["femmcli", "fmesher", "triangle", "fsolver", "esolver", "hsolver", "fpproc", "epproc", "hpproc"]


def build_harness(snap, name, extra_src=(), libs=("femm",)):
    """Compile /verif/harness/<name>.cpp against the snapshot's headers and libraries."""
    os.makedirs(snap.hdir, exist_ok=True)
    src = os.path.join(VERIF, "harness", name + ".cpp")
    exe = os.path.join(snap.hdir, name)
    srcs = [src] + [os.path.join(VERIF, "harness", s) for s in extra_src]
    with Lock("harness-" + name):
        newest = max(os.path.getmtime(s) for s in srcs)
        if os.path.exists(exe) and os.path.getmtime(exe) >= newest:
            return exe
        inc = []
        for d in ["libfemm", "libfemm/liblua", "fmesher", "fmesher/triangle", "fsolver", "esolver", "hsolver",
                  "fpproc", "epproc", "hpproc", "femmcli"]:
            inc += ["-I", os.path.join(snap.src, d)]
        inc += ["-I", os.path.join(snap.build, "libfemm")]
        lib = []
        for l in libs:
            sub = {"femm": "libfemm", "luacomplex": "libfemm", "triangle": "fmesher"}.get(l, l)
            lib.append(os.path.join(snap.build, sub, "lib%s.a" % l))
        if "femm" in libs and "luacomplex" not in libs:
            lib.append(os.path.join(snap.build, "libfemm", "libluacomplex.a"))
        flags = ["-std=c++14", "-O1", "-g", "-w", "-D" + GUARD]
        if snap.flavour == "san":
            flags += SAN_FLAGS.split()
        rc, out, err = sh(["g++"] + flags + inc + srcs + lib + ["-o", exe], timeout=900)
        if rc != 0:
            raise BuildError("harness %s failed to build:\n%s" % (name, err[-4000:]))
    return exe


# --------------------------------------------------------------------------------------
# Coq side
# --------------------------------------------------------------------------------------
def coq_project_files():
    fs = []
    for l in open(os.path.join(COQDIR, "_CoqProject")):
        l = l.strip()
        if l.endswith(".v"):
            fs.append(l)
    return fs


def coq_make(targets=None, timeout=3000):
    """Full .vo build (never -vos) of the requested targets, -k so that everything that
    still checks is built.  Returns (rc, log)."""
    with Lock("coq"):
        if not os.path.exists(os.path.join(COQDIR, "Makefile")) or \
           os.path.getmtime(os.path.join(COQDIR, "Makefile")) < os.path.getmtime(os.path.join(COQDIR, "_CoqProject")):
            sh("coq_makefile -f _CoqProject -o Makefile", cwd=COQDIR, check=True)
        cmd = ["make", "-k", "-j%d" % NCPU] + (targets or [])
        rc, out, err = sh(cmd, cwd=COQDIR, timeout=timeout)
    return rc, out + err


def write_if_changed(path, text):
    try:
        if open(path).read() == text:
            return False
    except OSError:
        pass
    os.makedirs(os.path.dirname(path), exist_ok=True)
    with open(path, "w") as f:
        f.write(text)
    return True


FORBIDDEN = re.compile(r"\b(Admitted|admit|Axiom|Axioms|Parameter|Parameters|Conjecture|Conjectures|"
                       r"Admit Obligations|Unset Guard Checking|Unset Positivity Checking|"
                       r"Unset Universe Checking|bypass_check|Hypothesis|Hypotheses|Variable|Variables)\b")


def strip_coq_comments(s):
    out, depth, i = [], 0, 0
    while i < len(s):
        if s.startswith("(*", i):
            depth += 1; i += 2
        elif s.startswith("*)", i) and depth:
            depth -= 1; i += 2
        else:
            if depth == 0:
                out.append(s[i])
            i += 1
    return "".join(out)


def coq_hygiene():
    """No Admitted/admit/Axiom/Parameter/...; Variable/Hypothesis only inside a Section."""
    bad = []
    for f in coq_project_files():
        txt = strip_coq_comments(open(os.path.join(COQDIR, f)).read())
        depth = 0
        for ln, line in enumerate(txt.split("\n"), 1):
            if re.match(r"\s*Section\b", line):
                depth += 1
            if re.match(r"\s*End\b", line) and depth:
                depth -= 1
            for m in FORBIDDEN.finditer(line):
                w = m.group(1)
                if w in ("Variable", "Variables", "Hypothesis", "Hypotheses") and depth > 0:
                    continue
                bad.append("%s:%d: %s" % (f, ln, w))
    return bad


def properties_file(pid):
    return os.path.join(COQDIR, "theories", "Properties_%s.v" % pid)


def coq_check_property(pid, timeout=1800):
    """(Re)build everything Properties_<pid>.v depends on, then re-run coqc on the property
    file itself and capture theorem names and Print Assumptions output.
    Returns dict(ok, obligations, discharged, theorems, assumptions, log)."""
    target = "theories/Properties_%s.vo" % pid
    pf = properties_file(pid)
    txt = strip_coq_comments(open(pf).read())
    theorems = re.findall(r"^\s*(?:Theorem|Corollary)\s+([A-Za-z0-9_']+)", txt, re.M)
    res = dict(ok=False, obligations=len(theorems), discharged=0, theorems=theorems, assumptions={}, log="")
    bad = coq_hygiene()
    if bad:
        res["log"] = "hygiene: " + "; ".join(bad)
        return res
    # force the property file itself to be re-checked on every run
    with Lock("coq"):
        for ext in (".vo", ".glob", ".vok", ".vos"):
            try:
                os.remove(pf[:-2] + ext)
            except OSError:
                pass
    rc, out = coq_make([target], timeout=timeout)
    res["log"] = out[-6000:]
    if rc != 0 or not os.path.exists(pf[:-2] + ".vo"):
        # count how many theorems of the file were reached before the failure
        m = re.search(r'File "\./theories/Properties_%s\.v", line (\d+)' % pid, out)
        if m:
            upto = int(m.group(1))
            lines = open(pf).read().split("\n")[:upto - 1]
            res["discharged"] = len(re.findall(r"^\s*(?:Theorem|Corollary)\s", "\n".join(lines), re.M)) - 1
            res["discharged"] = max(res["discharged"], 0)
        m2 = re.search(r"make.*\*\*\* \[.*?: (theories/\S+?)\.vo\]", out)
        res["broken"] = m2.group(1) if m2 else target
        return res
    # parse Print Assumptions blocks from the build output: the k-th block belongs to the
    # k-th "Print Assumptions <name>." command of the property file
    names = re.findall(r"Print Assumptions\s+([A-Za-z0-9_']+)\s*\.", txt)
    tail = out[out.rfind("COQC theories/Properties_%s.v" % pid):]
    blocks, cur = [], None
    for line in tail.split("\n"):
        if line.strip() == "Closed under the global context":
            blocks.append([]); cur = None
        elif line.strip() == "Axioms:":
            cur = []; blocks.append(cur)
        elif cur is not None:
            m = re.match(r"^([A-Za-z_][A-Za-z0-9_.']*)(\s|$)", line)
            if m and not line.startswith(("make", "COQC")):
                cur.append(m.group(1))
    ass = {}
    for k, nme in enumerate(names):
        ass[nme] = blocks[k] if k < len(blocks) else ["<not captured>"]
    res["unprinted"] = [t for t in theorems if t not in names]
    res["assumptions"] = ass
    res["discharged"] = len(theorems)
    res["ok"] = True
    return res


def fhexs(x):
    """as fhex, with an explicit %float scope (usable without opening float_scope)"""
    if x != x or x in (math.inf, -math.inf):
        return fhex(x)
    return "(%s)%%float" % float(x).hex()


def fhex(x):
    """Python float -> Coq primitive-float literal (exact, hexadecimal)."""
    if x != x:
        return "nan"
    if x == math.inf:
        return "infinity"
    if x == -math.inf:
        return "neg_infinity"
    h = float(x).hex()
    if h.startswith("-"):
        return "(-%s)" % h[1:]
    return h


_num = re.compile(r"-?(?:0x[0-9a-f.]+p[-+]?\d+|\d+(?:\.\d*)?(?:e[-+]?\d+)?|nan|infinity|neg_infinity)")


def parse_coq_value(s):
    """Parse the printed form of a Coq value made of lists / pairs / floats / numbers /
    booleans / strings into nested Python lists."""
    s = s.strip()
    pos = 0
    n = len(s)

    def ws():
        nonlocal pos
        while pos < n and s[pos] in " \n\t":
            pos += 1

    def val():
        nonlocal pos
        ws()
        if s[pos] == "[":
            pos += 1
            items = []
            ws()
            if s[pos] == "]":
                pos += 1
                return items
            while True:
                items.append(val())
                ws()
                if s[pos] == ";":
                    pos += 1
                    continue
                if s[pos] == "]":
                    pos += 1
                    return items
                raise ValueError("bad list at %d: %r" % (pos, s[pos:pos + 40]))
        if s[pos] == "(":
            pos += 1
            items = []
            while True:
                items.append(val())
                ws()
                if s[pos] == ",":
                    pos += 1
                    continue
                if s[pos] == ")":
                    pos += 1
                    break
                raise ValueError("bad tuple at %d: %r" % (pos, s[pos:pos + 40]))
            # scope suffix like %float
            if pos < n and s[pos] == "%":
                while pos < n and (s[pos].isalnum() or s[pos] in "%_"):
                    pos += 1
            return items[0] if len(items) == 1 else tuple(items)
        if s[pos] == '"':
            j = pos + 1
            buf = []
            while True:
                if s[j] == '"':
                    if j + 1 < n and s[j + 1] == '"':
                        buf.append('"'); j += 2; continue
                    break
                buf.append(s[j]); j += 1
            pos = j + 1
            if pos < n and s[pos] == "%":
                while pos < n and (s[pos].isalnum() or s[pos] in "%_"):
                    pos += 1
            return "".join(buf)
        m = re.compile(r"-?[A-Za-z0-9_.+']+(?:[eE][-+]?\d+)?").match(s, pos)
        if not m:
            raise ValueError("bad atom at %d: %r" % (pos, s[pos:pos + 40]))
        tok = m.group(0)
        # floats like 1e-05 / 1.5e+20 : the regexp above stops at '-' after e; handle
        m2 = re.compile(r"-?(?:\d+\.?\d*(?:[eE][-+]?\d+)?|0x[0-9a-fA-F.]+p[-+]?\d+)").match(s, pos)
        if m2 and len(m2.group(0)) >= len(tok):
            tok = m2.group(0)
        pos += len(tok)
        if pos < n and s[pos] == "%":
            while pos < n and (s[pos].isalnum() or s[pos] in "%_"):
                pos += 1
        if tok == "true":
            return True
        if tok == "false":
            return False
        if tok == "nan":
            return math.nan
        if tok == "infinity":
            return math.inf
        if tok == "neg_infinity":
            return -math.inf
        try:
            if tok.lower().startswith(("0x", "-0x")):
                return float.fromhex(tok)
            if re.fullmatch(r"-?\d+", tok):
                return int(tok)
            return float(tok)
        except ValueError:
            return tok

    v = val()
    return v


def coq_eval(header, exprs, timeout=1200, name="cases", shard=400):
    """Evaluate each expression with vm_compute inside Coq (one coqc call per shard) and
    return the parsed values, in order.  `header` holds the Require/Import lines."""
    work = os.path.join(SCRATCH, "eval-%d" % os.getpid())
    os.makedirs(work, exist_ok=True)
    results = []
    try:
        for s in range(0, len(exprs), shard):
            part = exprs[s:s + shard]
            body = [header, "Set Printing Width 100000000.", "Set Printing Depth 100000000.",
                    "Unset Printing Notations." if False else ""]
            for k, e in enumerate(part):
                body.append('Eval vm_compute in (%s).' % e)
            vf = os.path.join(work, "%s_%d.v" % (name, s))
            open(vf, "w").write("\n".join(body) + "\n")
            rc, out, err = sh(["coqc", "-Q", os.path.join(COQDIR, "theories"), "XF", "-w", "none", vf],
                              timeout=timeout, cwd=work)
            if rc != 0:
                raise CoqEvalError("coqc failed on %s:\n%s" % (vf, (out + err)[-3000:]))
            blocks = re.split(r"^\s*= ", out, flags=re.M)[1:]
            if len(blocks) != len(part):
                raise CoqEvalError("expected %d results, got %d" % (len(part), len(blocks)))
            for b in blocks:
                # value ends at the last "\n     : type"
                i = b.rfind("\n     : ")
                results.append(parse_coq_value(b[:i] if i >= 0 else b))
    finally:
        shutil.rmtree(work, ignore_errors=True)
    return results


class CoqEvalError(Exception):
    pass


# --------------------------------------------------------------------------------------
# float comparison
# --------------------------------------------------------------------------------------
def ulp_diff(a, b):
    if a == b or (a != a and b != b):
        return 0
    if a != a or b != b or math.isinf(a) or math.isinf(b):
        return 1 << 62
    ia = struct.unpack("<q", struct.pack("<d", a))[0]
    ib = struct.unpack("<q", struct.pack("<d", b))[0]
    if ia < 0:
        ia = -(ia & 0x7fffffffffffffff)
    if ib < 0:
        ib = -(ib & 0x7fffffffffffffff)
    return abs(ia - ib)


def close(a, b, ulps=64, floor=0.0):
    return ulp_diff(a, b) <= ulps or abs(a - b) <= floor


# --------------------------------------------------------------------------------------
# PRNG: one state derived from VERIF_SEED so that disagreements replay exactly
# --------------------------------------------------------------------------------------
class Rng:
    def __init__(self, seed):
        import random
        self.r = random.Random(int(seed))

    def __getattr__(self, k):
        return getattr(self.r, k)


# --------------------------------------------------------------------------------------
# verdict / evidence / known findings
# --------------------------------------------------------------------------------------
def known_findings():
    p = os.path.join(VERIF, "known_findings.json")
    if not os.path.exists(p):
        return {"findings": [], "fixed": []}
    return json.load(open(p))


class Result:
    """Collects what one check run covered and decides its exit status."""

    def __init__(self, pid, tier, seed, level):
        self.pid, self.tier, self.seed, self.level = pid, tier, int(seed), level
        self.t0 = time.time()
        self.cov = {"evaluations": 0, "distinct_nontrivial": 0, "rule": "", "samples": []}
        self.assumptions = []
        self.violations = []      # list of (replay dict, found_input: bool)
        import glob
        for f in glob.glob(os.path.join(VERIF, "evidence", "replay", "%s-*.json" % pid)):
            os.remove(f)
        self.known = []
        self.notes = []

    def add_proof(self, pr):
        self.cov["obligations"] = pr["obligations"]
        self.cov["discharged"] = pr["discharged"]
        self.cov["checker_cmd"] = ("make -k -C /verif/coq theories/Properties_%s.vo (coqc 8.16.1, full .vo build; "
                                   "the property file is deleted and re-checked on every run)" % self.pid)
        tb = set()
        for th, ax in pr.get("assumptions", {}).items():
            for a in ax:
                tb.add(a)
        self.cov["trusted_base"] = ["Coq 8.16.1 kernel incl. vm_compute and primitive floats/ints (no native_compute)"] + \
            sorted("axiom: " + a for a in tb)
        self.cov["theorems"] = pr.get("theorems", [])
        self.cov["assumptions_per_theorem"] = pr.get("assumptions", {})

    def violation(self, what, replay, found_input=True):
        """Record a violation unless it matches a committed known finding."""
        kf = known_findings()
        for f in kf.get("findings", []):
            if f.get("property") == self.pid and f.get("match") and f["match"] in json.dumps(replay, sort_keys=True):
                if f["id"] not in [k["id"] for k in self.known]:
                    self.known.append(f)
                return False
        self.violations.append(dict(what=what, replay=replay, found_input=found_input))
        return True

    def finish(self):
        os.makedirs(os.path.join(VERIF, "evidence", "replay"), exist_ok=True)
        for f in self.known:
            log("KNOWN-FINDING: property=%s %s" % (self.pid, f.get("what", f.get("id"))))
        for n, v in enumerate(self.violations):
            rp = os.path.join(VERIF, "evidence", "replay", "%s-%d.json" % (self.pid, n))
            json.dump(dict(property=self.pid, what=v["what"], seed=self.seed, tier=self.tier,
                           found_input=v["found_input"], replay=v["replay"]), open(rp, "w"), indent=1, default=str)
            log("VIOLATION property=%s replay=%s%s" % (self.pid, rp, "" if v["found_input"] else " no-failing-input-found"))
        ev = dict(property_id=self.pid, tier=self.tier, seed=self.seed, level=self.level,
                  coverage=self.cov, assumptions=self.assumptions, wall_s=round(time.time() - self.t0, 2),
                  violations=len(self.violations), known_findings=[f.get("id") for f in self.known],
                  notes=self.notes)
        json.dump(ev, open(os.path.join(VERIF, "evidence", "%s.json" % self.pid), "w"), indent=1, default=str)
        return 1 if self.violations else 0


class TranslateError(Exception):
    pass


class Ctx:
    def __init__(self, pid, snap, tier, seed, res):
        self.pid, self.snap, self.tier, self.seed, self.res = pid, snap, tier, seed, res
        self.rng = Rng(seed)
        self.failing_inputs = []      # property violations exhibited on the implementation
        self.replay = None
        self.work = os.path.join(SCRATCH, "work-%s-%d" % (pid, os.getpid()))
        shutil.rmtree(self.work, ignore_errors=True)
        os.makedirs(self.work)
        import atexit
        atexit.register(lambda: shutil.rmtree(self.work, ignore_errors=True))

    def quick(self):
        return self.tier == "quick"

    def fail(self, what, **kw):
        d = dict(what=what)
        d.update(kw)
        self.failing_inputs.append(d)
