#!/usr/bin/env python3
"""Regenerate MANIFEST.json from the per-property table below."""
import json, os
V = os.path.dirname(os.path.dirname(os.path.abspath(__file__)))
CHECKS = {
 "C09": dict(
    category="proof",
    text=("Coq theorems (all sizes, all insertion orders, all operation histories) about a model of CBigLinProb that "
          "follows spars.cpp statement by statement: Put/Get/AddTo refine an abstract symmetric last-writer-wins map "
          "(order independent); MultA is the matrix-vector product; on reported convergence the PCG exit test was "
          "passed by the TRUE residual b-AV; SetValue, Periodicity and AntiPeriodicity leave a system whose solutions "
          "are exactly those of the constrained system (self ties included). For the complex-symmetric solver a theorem valid "
          "for EVERY arithmetic, binary64 included: PBCGSolveMod reports success only if the RECOMPUTED residual b-AV of the "
          "returned vector passed the tolerance test or the last restart failed to halve it (CSparseProofs.v; the restart loop "
          "is the repair 793b1f5 of a defect this check found: the recursively updated residual had drifted to a true relative "
          "residual of 2.6 for a reported 1e-8). Besides the op scripts, real problems of the three physics (harmonic magnetics "
          "with solid series conductors from 400 Hz down to 1e-11 Hz) are solved with the guarded solve-log hook on: every solve "
          "must leave a true relative residual <= 10*Precision. Partial: termination of PCG/BiCG and floating-point rounding "
          "are not proved (loops are fuelled; the hook and an exact rational dense solve observe them)."),
    design_ref="DESIGN.md §5 C09",
    note=("Trusted: Coq kernel (vm_compute, primitive floats), real-number axioms of Coq.Reals "
          "(sig_forall_dec, sig_not_dec, functional_extensionality_dep), the hand-written model (tied to spars.cpp/"
          "cspars.cpp on every run by bit-level comparison of op-script outputs), harness/generator/differ, g++."),
    technique="Coq proof (refinement + invariant) over a hand-written model, model-vs-code differential correspondence via vm_compute"),
}
CHECKS["C03"] = dict(
    category="proof",
    text=("Coq theorems over a statement-by-statement model of ESolver::AnalyzeProblem: for every mesh and element order the "
          "assembled residual rows are minus the sum of the elements' local residuals; rows of prescribed nodes force the "
          "prescribed value and rows of free nodes keep the un-eliminated Galerkin residual; the element matrix is the "
          "linear-triangle Galerkin stiffness of div(eps grad V) (planar/axisymmetric, anisotropic), shape functions are nodal, "
          "stiffness columns sum to zero (charge balance). The model's binary64 reading reproduces the real solver's assembled "
          "matrix, right-hand side, flags and conductor charges bit for bit on generated problems; an independent SI-unit "
          "Galerkin assembly (numpy) checks the written potentials, floating-conductor charge and reported charges. "
          "The finishing step is proved too: the row of a conductor with prescribed charge holds exactly when the flux leaving it "
          "(couplings to free unknowns plus the eliminated couplings to fixed nodes) equals the prescribed charge, the row of a "
          "conductor with prescribed voltage forces that voltage, and no other row changes. "
          "The point-charge loop is proved as well (AsmEPoints.v): row i receives exactly 1e6*Depth_i*c*qp of its point property "
          "when the node is still free, nothing else changes, a prescribed or conductor node receives no load. "
          "Partial: the periodic-pair step is covered by correspondence and oracle only (periodic ties "
          "are C09's tie_system_equiv); rounding and PCG termination are not proved."),
    design_ref="DESIGN.md §5 C03",
    note=("Trusted: Coq kernel + real-number axioms; hand-written model tied to esolver.cpp by bit-level correspondence of the "
          "assembled system on every run; Triangle, file readers and Cuthill renumbering are not modelled (model starts from "
          "the solver's in-memory mesh dumped by harness/h_esolver.cpp); numpy oracle; g++."),
    technique="Coq proof over a hand-written assembly model + bit-exact model/implementation correspondence + independent Galerkin oracle")
CHECKS["C14"] = dict(
    category="proof",
    text=("Generic Coq theorem for ALL schemas and records: parse (print r) = r whenever the boolean `compatible` holds, plus "
          "idempotence and unknown-key lemmas; the per-class parse/print schemas are regenerated from the C++ readers/writers "
          "on every run by a translator and `compatible` is re-proved on them by vm_compute (both directions: a new gap or a "
          "repaired gap breaks the proof). Tie: generated files of all three types are loaded and saved by the real femmcli and "
          "compared through an independent reader; token-level blocks are compared with the generic Coq interpreter. "
          "Partial: number lexing/printing, section order and entity-line layout are covered by the correspondence only."),
    design_ref="DESIGN.md §5 C14",
    note=("Trusted: Coq kernel + Reals axioms (MaxArea codec), the regex translator tools/translate_schema.py (its output is "
          "re-checked against real load/save runs), independent reader tools/femfile.py. Known findings: [DoSmartMesh], "
          "[ForceMaxMesh] not written; subnormal values."),
    technique="Coq proof of a generic schema round-trip + translator regenerating the schemas from source + load/save differential runs")
CHECKS["C20"] = dict(
    category="proof",
    text=("Finite-domain Coq proof (12 tools x 2^15 environments, vm_compute lifted by forallb_forall): on the fault table "
          "regenerated from the sources every missing/unreadable input ends in a non-zero exit without output, and all-present "
          "runs end in status 0 with output; the committed exception list is empty, so the theorem holds at full strength. "
          "The same table is replayed exhaustively (145 rows) against the real fmesher/fsolver/esolver/hsolver/femmcli."),
    design_ref="DESIGN.md §5 C20",
    note=("Trusted: Coq kernel; regex translator tools/translate_faults.py (table re-validated by the exhaustive replay); "
          "process/filesystem behaviour is observed, not modelled; unreadable files are produced with chmod 000 under uid 65534."),
    technique="Coq proof over a finite fault table regenerated from source + exhaustive replay against the binaries")
CHECKS["C01"] = dict(
    category="translation_validation",
    text=("Triangle is not modelled. Every mesh the real fmesher produces for generated problems (all three file types; nested "
          "polygons, circles/arcs, holes, multiply connected regions, cells with (anti)periodic pairs of arcs / lines; mesh "
          "sizes, min angles 1-33, smart mesh on/off) is evaluated by a validator written in Coq with exact integer arithmetic. "
          "Proved in Coq for ALL meshes and PSLGs: an accepted report establishes indices in range, every element "
          "counter-clockwise, every directed edge used once (edge-manifold), the discrete Green identity (sum of element areas = "
          "shoelace sum of the boundary), every boundary edge on a drawn entity, every drawn entity a chain of element edges "
          "from its first to its last point with all nodes on the entity, region attributes constant across every element edge "
          "that is not on a drawn entity, every region point inside an element of its attribute, no hole point inside an "
          "element, every drawn point an exact vertex with its marker, .edge markers equal to the drawn entity's (10 theorems, "
          "MeshCheckProofs.v + MeshCheckSound.v). A python oracle checks that every drawn arc is its equal-chord polygon in the "
          "PSLG. Corrupted copies of a mesh must be rejected on every run (negative controls)."),
    design_ref="DESIGN.md §5 C01",
    note=("Trusted: Coq kernel (vm_compute evaluates the validator), exact dyadic scaling in tools/meshlib.py, .poly written by "
          "fmesher --write-poly as the PSLG given to Triangle (its relation to the drawing is C18's Discretize model, C07's Pbc "
          "model for periodic pairs, and the arc oracle). The final Jordan-curve step from the proved facts to 'the elements "
          "cover exactly the drawn domain' is argued in prose (DESIGN.md), not formalised; collinearity of Steiner points is "
          "accepted to 2^-40 of the segment length."),
    technique="verified result checker (Coq, exact arithmetic, soundness of every accepted-report clause proved) run on every produced mesh")
CHECKS["C12"] = dict(
    category="proof",
    text=("Coq theorems over a model of the three post-processors' point location and interpolation: the spiral search "
          "visits every element for every mesh size and seed (found/not-found independent of query history), sound and complete "
          "w.r.t. the triangle test, bounding circle contains the triangle, test iff barycentric, exact location on the reals, "
          "interpolant nodal/affine/continuous across edges, field = gradient/curl, shared-edge gap-freeness on binary64 for the "
          "index-ordered test. Model reproduces the real ElectrostaticsPostProcessor/HPProc/FPProc bit for bit on query "
          "sequences; independent exact-rational oracle."),
    design_ref="DESIGN.md §5 C12",
    note=("Trusted: Coq kernel, Reals axioms, FloatAxioms.ltb_spec for the binary64 lemma; hand-written model tied to the code by "
          "query-sequence correspondence; smoothing ON, nonlinear heat conductivity and axisymmetric magnetics not modelled."),
    technique="Coq proof (search completeness by arithmetic on indices, geometry on reals, float lemma) + bit-exact query correspondence")
CHECKS["C02"] = dict(
    category="proof",
    text=("Coq round-trip theorems for the marker codec (point/boundary property and conductor through Triangle's vertex and "
          "segment markers) for all property/conductor indices within the proved 16/15-bit range, refuted beyond it, for the "
          "constants regenerated from writepoly.cpp and the three LoadMesh on every run; Triangle's own markers decode to "
          "nothing. Tie: the decode model vs the real LoadMesh of esolver/hsolver/fsolver on hand-made marker values; generated "
          "problems of all file types: .poly markers vs the drawn entity's assignment, mesh markers vs LoadMesh data, and the "
          "Coq mesh validator (region attribute constant across non-entity edges, label located, holes empty, edge/vertex "
          "markers equal the drawn entity's). Partial: Triangle's marker propagation is validated per mesh, not proved."),
    design_ref="DESIGN.md §5 C02",
    note="Trusted: Coq kernel; regex translator tools/translate_markers.py; python oracle for entity ownership of PSLG segments; validator as in C01.",
    technique="Coq proof of the codec on constants regenerated from source + LoadMesh differential runs + verified mesh validator")
CHECKS["C18"] = dict(
    category="proof",
    text=("Coq theorems about a model of fmesher's own subdivision code (Discretize.v): part counts are ceilings, parts of a "
          "line are no longer than its spacing, a line/arc cut into np parts becomes exactly np sub-segments/chords forming a "
          "chain (all np), chord end points lie on the arc's circle. The model's binary64 reading reproduces the PSLG written "
          "by the real `fmesher --write-poly` bit for bit (points and segments) on generated geometries. Triangle's refinement "
          "is validated per mesh with exact rational arithmetic: element area <= pi d^2/4 of its label, mesh edges on a line "
          "<= its spacing, chord count per arc, minimum angle on geometries without acute input angles."),
    design_ref="DESIGN.md §5 C18",
    note="Trusted: Coq kernel + Reals axioms; libm sin/cos values and ceil results are model inputs (ceil re-validated in the model); exact checks in python Fractions.",
    technique="Coq proof over a hand-written subdivision model + bit-exact PSLG correspondence + exact per-mesh size validation")
CHECKS["C10"] = dict(
    category="proof",
    text=("All length-unit tables of the sources (12 tables in 9 files) are regenerated into Coq on every run and proved equal "
          "to the SI definitions times each tool's working-unit factor (finite domain, vm_compute); the dimensional scaling "
          "law of the assembled element equations (stiffness x s, volume load x s^3, hence source-driven potentials x s^2) is "
          "proved on the electrostatics model. Paired real runs: single-excitation problems of all three physics (planar and "
          "axisymmetric) declared in two units with the same numbers must give the identical mesh, coordinates reported in the "
          "declared unit, and nodal potentials / point values / block integrals / conductor and circuit results related by the "
          "known powers of the length ratio."),
    design_ref="DESIGN.md §5 C10",
    note="Trusted: Coq kernel (+Reals axioms for the scaling law); regex translator tools/translate_tables.py; femmcli Lua route for the queries; tolerance 3e-5 relative.",
    technique="Coq proof on tables regenerated from source + scaling-law proof on the assembly model + paired runs in two units")
CHECKS["C11"] = dict(
    category="proof",
    text=("Coq theorems for every matrix the solvers can store (all sizes and patterns): the matrix-vector product is linear, "
          "solutions superpose, zero excitation has the zero solution, and u.(Av) = v.(Au) because one entry is stored per "
          "unordered pair (reciprocity of mutual charges, heat flows, flux linkages); the element-level elimination of "
          "prescribed values is linear and leaves a matrix independent of the excitations; element loads are proportional to "
          "the sources. Real runs through femmcli on identical meshes: S1, S2, a*S1+b*S2, zero excitation, unit excitation of "
          "each of two terminals (terminal 2 of the magnetics cases is a series circuit of two solid bars; time-harmonic "
          "reciprocity is that of the complex mutual impedance), for electrostatics, heat and magnetics, planar, axisymmetric "
          "and time-harmonic; harmonic at vanishing frequency (omega*sigma*mu*L^2 = 1e-6 and 1e-10) vs static, planar and "
          "axisymmetric, plain and in-plane laminated materials. Partial: uniqueness (non-singularity) is not proved; axisymmetric/harmonic magnetics "
          "have no assembly model, their reciprocity is checked on runs (axisymmetric magnetics to mesh accuracy only)."),
    design_ref="DESIGN.md §5 C11",
    note="Trusted: Coq kernel + Reals axioms; femmcli Lua route; tolerances 3e-6 (fields) / 2e-5 (terminal quantities) relative.",
    technique="Coq proof (linearity, symmetry => reciprocity) + superposition/reciprocity run relations on identical meshes")
CHECKS["C13"] = dict(
    category="proof",
    text=("Coq theorems: the selection after any sequence of block selections depends only on the parity of each label's count "
          "(order and repetition irrelevant); the block integral is the sum of the selected elements' terms, additive over "
          "disjoint selections, independent of element order; discrete Green identity (sum of element areas = shoelace of the "
          "boundary, all edge-manifold element sets); W = 1/2 sum V_c Q_c when the free rows hold. Real runs through femmcli on "
          "generated problems: I(A)+I(B) = I(A u B), order and toggle independence for every extensive integral of the three "
          "post-processors, block area/volume vs the drawn (revolved) regions, energy vs 1/2 sum VQ, 1/2 int A.J, coenergy. "
          "Partial: per-element integrands are tied to the code by C12, contour integrals only through the area/length checks."),
    design_ref="DESIGN.md §5 C13",
    note="Trusted: Coq kernel + Reals axioms; femmcli Lua route; tolerances 1e-9 (additivity, geometry), 2e-5 (energy vs terminals).",
    technique="Coq proof (toggle parity, sum additivity, discrete Green, energy identity) + integral run relations")
CHECKS["C06"] = dict(
    category="proof",
    text=("Coq theorems: the element row of the electrostatics model applied to an affine potential has a closed form "
          "(planar and axisymmetric), and the sum of these contributions over ANY closed fan of elements vanishes (any valence, "
          "any coordinates), also across a straight material interface with continuous normal flux; element energy of an affine "
          "field = 1/2 eps E^2 x volume. So affine fields satisfy every assembled interior equation on every mesh. Real runs "
          "through femmcli: plates, two materials in series, slab with convection, uniform flux density, axial axisymmetric "
          "field (random dimensions, constants, units, mesh sizes): every node equals the exact linear function to solver "
          "precision, energy equals its closed form; coaxial and spherical capacitor, heated cylinder, skin-effect slab converge "
          "to their closed forms under refinement. Partial: uniqueness not proved; convergence part is numerical evidence."),
    design_ref="DESIGN.md §5 C06",
    note="Trusted: Coq kernel + Reals axioms; closed-form references coded in tools/props/c06.py; femmcli Lua route; tolerance 2e-6 of the field span + 5e-8 of its magnitude.",
    technique="Coq proof (affine exactness by telescoping over closed fans) + closed-form run comparison")
CHECKS["C19"] = dict(
    category="proof",
    text=("26 Coq theorems (real reading, Coquelicot for derivatives/integrals) over a model of CMSolverMaterialProp for all "
          "monotone tables: H is the Hermite cubic, continuous at knots and everywhere, GetdHdB is the derivative of GetH, "
          "GetEnergy is the integral of H (is_RInt) inside and beyond the table, affine extrapolation, the monotonicity test as "
          "written implies dH/dB >= 0 (refuted without monotone data), smoothing keeps monotone tables, GaussSolve as written "
          "returns the unique solution when it reports success, slopes solve the natural-spline system, straight-line table = "
          "linear material. The binary64 model reproduces the real class bit for bit (slopes, repair passes, sampled values); "
          "independent numerical oracle; paired fsolver runs linear vs straight-line table. Partial: termination of the repair "
          "loop and of the Newton iteration, pivots never vanishing, rounding: observed, not proved."),
    design_ref="DESIGN.md §5 C19",
    note="Trusted: Coq kernel, Reals axioms, Classical_Prop.classic and functional extensionality (Coquelicot); hand-written model tied by harness/h_bh.cpp correspondence.",
    technique="Coq/Coquelicot proof over a hand-written spline model + bit-exact correspondence with the material class")
CHECKS["C15"] = dict(
    category="proof",
    text=("Coq theorems over all edit histories (induction on the op list) about a model of the property lists, name->index "
          "maps and per-entity (index,name) references: for the repaired code (current /repo) the saved meaning and the "
          "analysis meaning equal the name-level association for every ordinary history and never re-target; for the former "
          "code refutation witnesses (delete shifts indices, assign-before-define, stale maps, gate unsound after re-open) and "
          "the no-delete fragment. The model variant the code follows is decided on every run: histories rendered as Lua, run "
          "through the real femmcli, every saved file parsed independently and compared with the model's Save output (exhaustive "
          "short words + random histories; gate/analysis probes)."),
    design_ref="DESIGN.md §5 C15",
    note="Trusted: Coq kernel (no axioms); hand-written model tied by femmcli correspondence; identity among properties sharing a name and geometry merging are outside the model.",
    technique="Coq proof (refinement to a name-level association over all histories) + exhaustive/random femmcli history correspondence")
CHECKS["C05"] = dict(
    category="proof",
    text=("33 Coq theorems over statement-by-statement models of FSolver::Static2D and Harmonic2D (linear materials, planar): "
          "assembled residual rows are the sum of the local Galerkin equations of curl(nu curl A) = J + curl Hc on every mesh; "
          "element matrix = P1 curl-curl matrix with the physically correct nu_x/nu_y pairing; current, magnet and mixed-boundary "
          "terms; consistent eddy mass; circuit currents reproduced (Case 1) and the exact total for Case 0 (with a refutation "
          "witness for a wound + solid parallel circuit); written per-block circuit data = what the right-hand side used; "
          "prescribed-A rows via setvalue_equiv; lamination mixing formulas. The binary64 models reproduce the real assembled "
          "matrices, right-hand sides, circuit results and label lines bit for bit; independent SI-unit numpy oracle on the "
          ".ans written by the real fsolver. Partial: air-gap elements, nonlinear/Newton branch, axisymmetric files not "
          "modelled; harmonic residual-row theorem at matrix-entry level; three recorded known findings (C05-1..3)."),
    design_ref="DESIGN.md §5 C05",
    note="Trusted: Coq kernel + Reals axioms + functional extensionality; hand-written models tied by harness/h_fsolver.cpp correspondence; libm values (magnet cos/sin, lamination tanh/exp) recomputed in the harness with the solver's expressions.",
    technique="Coq proof over hand-written assembly models + bit-exact correspondence + independent Galerkin oracle")
CHECKS["C08"] = dict(
    category="proof",
    text=("Partial by nature. Proved in Coq (collected from the other models): every array index computed by the modelled "
          "routines stays in range under the loaders' well-formedness — sparse Put keeps stored column indices below n and rows "
          "well-formed, any sequence of assembly statements with in-range indices does, the electrostatic element loop does, the "
          "spiral search only visits valid element indices, the marker codec returns the encoded indices. Exhibited at run time "
          "(not a theorem): generated problems of every family used by the other checks are meshed, solved and post-processed on "
          "an ASan+UBSan build of the working tree, each twice with different MALLOC_PERTURB_ and byte-compared, plus Lua edit "
          "scripts with copy/mirror/rotate/move and repeated copies; any sanitizer report or output difference is a violation."),
    design_ref="DESIGN.md §5 C08",
    note=("Trusted: Coq kernel (+Reals axioms); g++ -fsanitize=address,undefined; the bundled Triangle (C) is not instrumented "
          "(its robust predicates read one element past an expansion without using it); uninitialised reads are only observable "
          "through the determinism comparison."),
    technique="Coq proof of index-range invariants of the modelled routines + sanitizer and determinism replays")
CHECKS["C16"] = dict(
    category="proof",
    text=("54 Coq theorems over a model of the drawing editor (points, straight segments, arcs, block labels; the commands as the Lua "
          "layer issues them), for every instantiation of the geometric predicates: every reachable drawing has all segments "
          "joining two distinct existing points and no duplicate segment (all command sequences, with the repaired "
          "deleteselectednodes; guarded / refuted variants for the former code and for the known findings), selection empty "
          "after completed commands, per-command snap distance, delete renumbers consistently, copies at exactly the transformed "
          "coordinates with their properties. The binary64 model reproduces the real FemmProblem state after every operation bit "
          "for bit; an exact-rational oracle checks the PSLG invariants (incl. arcs, crossings, labels) on the implementation's "
          "dumps; copy-heavy sequences are replayed under ASan. Arc segments are modelled by the extension DrawingArc.v "
          "(addArcSegment with its recursive split, the arc parts of addNode / addSegment / enforcePSLG / delete / move / copy / "
          "mirror, closestArcSegment, createRadius; libm values recorded from the implementation): 30 further theorems "
          "(Properties_C16_arc.v) — every arc joins two distinct existing points, no duplicate arc in the sense of addArcSegment's "
          "own test (partial / refuted variants for the double-split cases), consistent renumbering on delete, copies of arcs at "
          "the transformed end points with the same angle and properties (mirror reverses), selection empty, a split point is "
          "never within dmin of an end point, and the arc-free fragment equals Drawing.v; arc-rich op sequences are compared "
          "state by state, bit for bit. Partial: planarity proper (arcs meet lines only at points) depends on the geometric "
          "oracles and is oracle-checked; termination of the two recursions is on fuel; four recorded known findings "
          "(F2, F3, F4, F6)."),
    design_ref="DESIGN.md §5 C16",
    note="Trusted: Coq kernel (+Reals axioms / primitive floats where RA/FA are used); hand-written models tied by harness/h_drawing.cpp and harness/h_drawing_arc.cpp op-sequence correspondence (sin/tan/atan2 values recorded by interposition); python Fraction oracle.",
    technique="Coq proof (invariant by induction over all edit sequences, generic in the geometric predicates) + op-sequence correspondence + sanitizer replay")
CHECKS["C07"] = dict(
    category="proof",
    text=("18 Coq theorems over an executable model of FMesher::DoPeriodicBCTriangulation (read-back of the first Triangle pass, "
          "spacing of boundary entities, validity checks, min-rule reconciliation, interleaved subdivision of partner segments / "
          "arcs, point list, sortXY + pruning, the .pbc text): for every k >= 2 and all coordinates the created nodes of partner "
          "B are the images of partner A's under the affine / rigid map taking A's ends to B's (rotation image for arcs, nodes "
          "stay on their circles), the pruned point list has no duplicates and contains every node of A exactly once with its "
          "partner and the condition's sign, invalid assignments (more than two entities, mixed, dissimilar) are rejected, and a "
          "tie forces equal / opposite values (C09's tie_system_equiv). Which BdryFormat values the readers call (anti)periodic "
          "and which ones the mesher selects is regenerated from the sources (gen/PbcSel.v) and decided in Coq. Tie: the model's "
          "binary64 reading reproduces the final PSLG (every point bit for bit, every segment) and the .pbc file of the real "
          "fmesher on generated cells (first-pass Triangle output taken from a real run of a twin problem); independent geometric "
          "oracle on the pairs; solver potentials of listed pairs equal / opposite; sanitizer runs."),
    design_ref="DESIGN.md §5 C07, §9.6",
    note=("Trusted: Coq kernel + real-number axioms; hand-written model tied by PSLG/.pbc correspondence; regex translator in "
          "tools/props/c07.py; Triangle (orientation of boundary edges, no Steiner points under -Y) validated per mesh, not "
          "proved; air-gap-element branch not modelled."),
    technique="Coq proof over an executable model of the periodic pairing + bit-exact PSLG/.pbc correspondence + geometric oracle + solver-output check")
CHECKS["C17"] = dict(
    category="proof",
    text=("The Lua command table (all 746 addFunction registrations of the four Lua*Commands.cpp) is regenerated into "
          "gen/LuaTable.v on every run; proved over it by vm_compute: both spellings of every command share a handler, names are "
          "registered once, every documented builder command of every physics is registered with a real handler. Over a "
          "command-semantics model (LuaCmds.v): build (script_of p) = Some p for every well-formed problem p and from any "
          "previous document state, newdocument / open replace the document (10 theorems, closed under the global context). "
          "Tie, which decides most of the property: generated problems of the three physics (planar / axisymmetric, six units, "
          "arcs, circuits, magnets, B-H curves, exterior region) are built by one Lua script (both spellings, detours through "
          "modify / delete / setgroup, several problems per script) and written directly as files; required: same meaning of the "
          "saved file (independent reader), mesh files byte-identical, solution parts identical, ~2200 queried values equal to "
          "1e-12, select commands return the entity aimed at, return values in documented order and units; the Coq term of each "
          "problem renders, command for command, the script that was run. Partial: the real handlers are tied to the model by "
          "that run-time correspondence only."),
    design_ref="DESIGN.md §5 C17, §9.6",
    note=("Trusted: Coq kernel; regex translator tools/translate_lua.py; framework writer tools/femgen.py and reader tools/femfile.py; "
          "the model abstracts property payloads, nearest-handle selection and automatic splitting. Two known findings (C17-2 depth "
          "unit of getprobleminfo, C17-3 .edge order depends on heap layout in bundled Triangle), two fixed defects."),
    technique="Coq proof over a regenerated command table and a command-semantics model + end-to-end script-vs-file differential runs")
CHECKS["C04"] = dict(
    category="proof",
    text=("26 Coq theorems over a statement-by-statement model of HSolver::AnalyzeProblem / ChargeOnConductor / GetK (AsmH.v, "
          "KT.v; the prescribed-value, scatter and conductor code is AsmE's, applied to an electrostatic view of the heat "
          "problem): every assembled row is minus the sum of the local residuals of the elements around it; rows of prescribed "
          "nodes force the prescribed temperature and free rows keep the un-eliminated residual; element matrices symmetric; the "
          "conduction part is the Galerkin stiffness with k = mean of the nodal k(T); column sums vanish (heat balance); the "
          "transient term is the lumped capacity (row sum of the consistent mass matrix) with K*Tprev on the right; flux, "
          "convection and radiation edges realise their laws (radiation = tangent linearisation, exact at the fixed point); the "
          "axisymmetric / planar edge weights are the Riemann integrals of r*phi_a*phi_b and r*phi_a (Coquelicot); GetK clamps, "
          "interpolates linearly and is continuous at interior knots; the nonlinear scan is complete with the repaired bound "
          "(refuted with a 6-node witness for the former bound); on exit the returned system is the last pass's and the "
          "100*Precision test accepted it; ChargeOnConductor is the stiffness reaction. Tie: the unmodified AnalyzeProblem is "
          "run three times by harness/h_hsolver.cpp (genuine run; one pass at the written temperatures; convergence test) and "
          "the assembled matrix, right-hand side, flags and conductor flows are compared bit for bit with the model's binary64 "
          "reading (libm pow values are inputs); an independent SI numpy oracle checks the written temperatures incl. transient "
          "and radiation terms."),
    design_ref="DESIGN.md §5 C04, §9.6",
    note=("Trusted: Coq kernel + real-number axioms + classical logic through Coquelicot; hand-written model tied by bit-level "
          "correspondence; numpy oracle; Triangle, readers, Cuthill not modelled. Not proved: rounding, PCG termination, "
          "termination of the outer nonlinear loop (no iteration cap in the C++), a global theorem for floating-conductor rows. "
          "Which variant of the scan bound / conductor-flow scaling the tree has is read from the source on every run."),
    technique="Coq proof over a hand-written assembly model + bit-exact model/implementation correspondence + independent Galerkin oracle")

# model extensions merged after all properties had a check (DESIGN.md §9.8): sentences appended to the level texts
EXTRA = {
 "C02": (" Extension (Renumber.v, Properties_C02_renumber.v): the node / element renumbering every solver performs between LoadMesh and "
         "assembly (FEASolver::Cuthill with its adjacency lists, bubble sort, start search, Cuthill-McKee loop incl. the restart for "
         "disconnected meshes, SortNodes' in-place cycle loop, SortElements' comb sort) is modelled statement by statement with checked "
         "accesses; proved for every edge list with indices in range and at least two nodes: newnum is a permutation, the renumbered mesh "
         "is the isomorphic image (node records incl. markers and conductors travel with the node, element records with the element), "
         "SortNodes' loop equals its specification, SortElements returns a permutation (that it sorts is refuted); model vs the real "
         "Cuthill of FSolver / ESolver / HSolver on real fmesher meshes and hand-made graphs, exactly equal. Every periodic and every "
         "second problem is also meshed inside a femmcli session with entities left selected: mesh files byte-identical."),
 "C07": (" Extension (Properties_C07_renumber.v): the renumbering maps the pbc list entry by entry to the same physical nodes."),
 "C08": (" Extension (Properties_C08_renumber.v, 8 theorems): in the renumbering model every array access is in range and every loop "
         "ends (numbering within NumNodes turns, start search for every input — the former hang is repaired —, SortNodes, SortElements); "
         "NumNodes = 1 reads out of range (refuted, hand-made files only). Sessions that post-process a large, a small and the large "
         "solution again run on the sanitizer build."),
 "C09": (" Extension (Properties_C09_bandwidth.v): the BandWidth the renumbering hands to the banded row scans bounds 1 + |i - j| of "
         "every edge and every element side."),
 "C05": (" Extension (AsmMAxi.v / AsmMHAxi.v, Properties_C05_axi.v, 12 theorems): the AXISYMMETRIC static and harmonic solvers "
         "(modified potential, mid-side radii, on-axis nodes, lamination formulas, circuits, boundary conditions) are modelled "
         "statement by statement; rows = sum of element contributions, element matrix symmetric and equal to the modified-potential form "
         "the code implements, prescribed and on-axis rows; assembled matrix, right-hand side, solution and circuit lines bit-identical "
         "with h_fsolver_axi; independent SI oracle of the axisymmetric weak form on the written .ans."),
 "C06": (" Extension (Properties_C06_axi.v): for the axisymmetric magnetics model the uniform axial flux density A = B0 r / 2 makes the "
         "interior rows vanish on every closed fan (any valence, any coordinates off the axis)."),
 "C10": (" Extension (Properties_C10_axi.v): scaling law of the axisymmetric magnetics element (stiffness x s, current load x s^3, "
         "magnet load x s^2, R_hat x s). Field averages, weighted-stress-tensor force and torque are paired in two units as well."),
 "C11": (" Extension (Properties_C11_axi.v, 8 theorems): for the axisymmetric magnetics model the matrix is independent of the excitations "
         "and the right-hand side linear in them through the whole static assembly; the harmonic model at omega = 0 equals the static "
         "one element by element and, up to the SetValue / periodicity stage, system-wide (partial)."),
 "C14": (" Extension (SolFile.v, gen/SolSchemas.v, Properties_C14_solution.v, 25 theorems): the [Solution] part of .ans / .res / .anh "
         "files. A translator regenerates writer schemas (ESolver / HSolver WriteResults, WriteStatic2D, WriteHarmonic2D) and reader "
         "schemas (fpproc's legacy reader in its four modes, the FemmReader-based readers, the solvers' previous-solution readers) on "
         "every run; generic round-trip theorem with the unit scaling, a sound compatibility checker evaluated on the regenerated tables "
         "for all writer / reader pairs (10 pairs compatible; the one remaining diagnosis is an unreachable writer branch, refuted), "
         "coordinates come back in the declared unit; on generated problems the file is compared token by token with the solver's memory "
         "and bit for bit with what the post-processor holds."),
}
for _k, _t in EXTRA.items():
    CHECKS[_k]["text"] = CHECKS[_k]["text"] + _t
# extensions merged in the fifth session
EXTRA2 = {
 "C02": (" Extension (LoadMesh.v, gen/LoadConsts.v regenerated from the sources, Properties_C02_load.v, 14 theorems, closed under the global "
         "context): the mesh readers FSolver / ESolver / HSolver::LoadMesh in their three variants, from the number tables of .node / .ele / "
         ".edge / .pbc to the node, element and pbc tables the assemblers start from. For all meshes: an element side carries the replay of "
         "the .edge table on its end-node pair (both orientations, every owner, every other side untouched); with every edge listed once "
         "a side carries exactly the listed assignment; composed with Marker.v's round trip the solver's node / side holds exactly the "
         "point property, boundary property and conductor the mesher encoded; 'stop' formats mark the first owner only (refuted that every "
         "owner is marked; hsolver's choice of stop formats was the defect XLOAD-1, repaired by 6f33a99); labels = attribute - 1 or the "
         "default label; pbc entries copied. Model vs the real loaders on real fmesher meshes and hand-made files (reversed, repeated, unknown "
         "edges, all units, bad attributes): every number equal, coordinates bit for bit, removed files equal."),
 "C08": (" Extension (Properties_C08_load.v, 4 theorems): a mesh the reader model loads has all corner indices in range; the readers check "
         "none of the indices they take from mesh files (three refuted statements with witnesses; reachable only with mesh files that do not "
         "belong to the problem). Every copy / move / mirror / rotate / scale / delete command runs in every edit mode on drawings whose lists "
         "are exactly at vector capacity (1, 2, 4, 8 entities per kind) on the sanitizer build."),
 "C20": (" Extension (Properties_C20_load.v): in the reader model an element attribute that names no block label is never accepted by any of the "
         "three solvers. Scenario without circuit properties and with stale mesh files beside a previous-solution problem added."),
 "C12": (" Extension (PointVals.v, Properties_C12_pointvalues.v, 44 theorems): the point values beyond Locate.v - FPProc::GetPointValues static "
         "and time-harmonic, planar and axisymmetric (what the code returns there is the QUADRATIC interpolant of the stored flux 2 pi r A: "
         "nodal at corners, continuous across edges, exact for uniform fields; that it is the linear interpolant is refuted), B = curl of "
         "the interpolant, mu of laminated / wire materials, H = B/(mu mu0) - Hc, energy density = B.H/2, Je, losses; electrostatics and heat in "
         "exterior regions (AECF at the point: D = eps E preserved, E scaled) and temperature-dependent conductivity at the point. "
         "Every value of ~1100 queries per quick run bit-identical with the real post-processor classes; independent python oracle. Found and "
         "repaired: wire-region energy read the block of mesh element 3 (c0fff43). Smoothing ON is not modelled (C06 compares smoothed field "
         "values with closed forms at material interfaces)."),
 "C13": (" Extensions. (1) Block integrals (IntegralsE/H/M.v, Properties_C13_integrals.v, 56 theorems): every integral type of the three "
         "post-processors as a sum of per-element terms over the selected blocks; area = shoelace of the boundary, volume = depth x area / "
         "Pappus, element energy = 1/2 v^T K_e v with the solver's own element matrix, W = 1/2 V^T K V = 1/2 sum V_c Q_c and W = 1/2 int A.J "
         "for solved rows, flux linkage x current, DoEnergy of linear laminated materials (refuted for the former text of LamType 1/2 - the "
         "defect repaired by fcf383d -, proved and positive for the repaired one); every integral and per-element field bit-identical with the "
         "real classes (h_blockint). (2) Contour integrals (ContourInt.v, Properties_C13_contour.v, 30 theorems): contour bookkeeping, the "
         "sampling loop and every line-integral type of the three classes; contour length = sum of segment lengths = drawn length for a "
         "contour along drawn points, revolved area = exact frustum areas, invariance under subdivision, additivity over concatenation, "
         "behaviour under reversal, exactly N mid-point samples per segment, exactness for fields constant along a segment, sampled B.n "
         "telescopes to Depth x (A(first) - A(last)); contour points, sample points, element lookups and results bit-identical (h_contour). "
         "Found and repaired: mo_lineintegral(5) indexed p[3] (a392d3d)."),
 "C19": (" Extensions. (1) Post-processor energy densities of nonlinear materials (BHEnergy.v, Properties_C19_energy.v, 9 theorems): for "
         "in-plane laminations DoEnergy is the integral of the reported H from 0 to |b| inside and beyond the table, isotropic, energy + "
         "coenergy = |b| H; mixing formulas for laminations on edge; straight-line reduction; 3360 values per run bit-identical. (2) The Newton "
         "loop of FSolver::Static2D (AsmMNL.v, Properties_C19_nl.v, 19 theorems; Properties_C05_nl.v, 7 theorems): GetBHProps of a straight-line "
         "table is (k, 0) at every B, the first pass of every problem is the linear assembly with the initial slope, for LamType 0 EVERY pass "
         "of the whole loop assembles the linear system of the linear material (any solver function: the full reduction-to-linear statement "
         "for the solver), refuted for laminations on edge with fill < 1 (known finding XNL-1, probed on every run), a Newton pass solves "
         "(S V - f) + (S + Mn)(U - V) = 0 with Mn the exact derivative term, a fixed point satisfies the nonlinear residual equations, "
         "exit test, relaxation schedule in (1/16, 1]; per pass matrix, right-hand side, permeabilities, iterate and control variables "
         "bit-identical (h_fsolver_nl); termination is observed (no cap in the C++), not proved."),
 "C05": (" Extension (Properties_C05_nl.v): what one Newton pass of the nonlinear static solver solves and that its fixed points satisfy the "
         "nonlinear discrete field equations (see C19)."),
 "C06": (" Field values returned with default settings (smoothing on) are compared with the exact piecewise constant field at the centroids of "
         "elements touching material interfaces, with 'nearly the same' material pairs; heat flux / surface charge on an INTERIOR line "
         "(exact piecewise linear solution) - the case that exposed the doubled interior heat flux (6f33a99)."),
}
for _k, _t in EXTRA2.items():
    CHECKS[_k]["text"] = CHECKS[_k]["text"] + _t
# second round of the fifth session
EXTRA3 = {
 "C12": (" Extension (Smooth.v, Properties_C12_smooth.v, 19 theorems): nodal smoothing (the default of femmcli) - PostProcessor::getNodalD / "
         "getPointD of electrostatics and heat flow completely (the walk around a node in both directions with its stops at material borders "
         "and flagged neighbours, punt cases, plane fit), isSameMaterialAs of the two classes, FPProc::GetPointB and the inverse-distance "
         "mean of GetNodalB: the smoothed field is the barycentric interpolation of three nodal values; the plane fit is EXACT on affine "
         "potentials (so closed-form linear fields come back unchanged with smoothing on); the walk never leaves the material (induction "
         "over its fuel, any arithmetic); what isSameMaterialAs decides; fall-backs return the element's own field. Stored nodal fields, "
         "every point value and every walk bit-identical / identical with the real classes (h_smooth); affine potentials written into "
         "solution files as independent oracle. Found and repaired: smoothed heat flux in exterior regions (3f295f3)."),
 "C19": (" (3) The Newton loop of FSolver::StaticAxisymmetric (AsmMAxiNL.v, Properties_C19_nlaxi.v, 22 theorems): the same statements for the "
         "axisymmetric solver (reduction to the linear system for LamType 0 outside the exterior region through the whole loop, Newton step, "
         "fixed point, flux density of the update = r-weighted rms of the element, control logic literally the planar one); refuted for "
         "laminations on edge (XNL-1's twin) and for tables in the exterior region (known finding XNLAXI-1, probed on every run); per pass "
         "bit-identical (h_fsolver_axi_nl, 37 000 values per quick run)."),
 "C05": (" Extension (AsmMPrev.v, Properties_C05_prev.v, 18 theorems; run with C11): static problems that build on a previous solution "
         "(incremental and frozen permeability): the incremental element matrix is the quadratic form of the differential reluctivity tensor "
         "rotated to the previous flux density (symmetric, positive semi-definite for monotone curves), muinc = 1/(mu0 dH/dB), murel = "
         "1/(mu0 H/B), frozen = the Newton loop's secant matrix, reduction to the ordinary linear element for zero previous field / linear "
         "materials / straight lines; element tensors, matrix rows, right-hand side bit-identical (h_fsolver_prev); small-signal oracle on "
         "real nonlinear runs (deviation halves with the perturbation). Found and repaired: previous flux density depended on the length "
         "unit (0200359), every harmonic previous-solution problem with a B-H material crashed (f0b73ba), Jprev grew with the Newton passes "
         "(ab932b1). Properties_C19_nlaxi.v holds the C05 statements of the axisymmetric Newton step."),
 "C11": (" Extension (Properties_C05_prev.v, C11_prev_*): with a previous solution the element matrix does not depend on the new excitations "
         "and the element right-hand side is the ordinary linear one (element level); superposition of three dependent runs on the real "
         "solver with an identical assembled matrix."),
 "C02": (" Extension (PolyWrite.v, Properties_C02_poly.v, 41 theorems; run with C18): everything else fmesher hands to Triangle on the "
         "non-periodic path - point markers by name matching (drawn points keep their index, created nodes are neutral; refuted when a "
         "property is called \"<None>\"), every sub-segment carries enc_seg of its drawn entity's boundary property and conductor (composed "
         "with the codec round trip and, through LoadMesh.v, with what the solver ends up holding), hidden flag ignored, holes = exactly the "
         "no-mesh labels, regions = the meshed labels with attribute rank + 1; the written .node / .edge / .ele files list Triangle's arrays "
         "entry by entry. Harness with the real writepoly.cpp and a stub in place of Triangle: the complete triangulateio input, switch "
         "string and written files token by token, floats bit for bit (12 900 values); fmesher --write-poly byte-identical."),
 "C18": (" Extension (Properties_C02_poly.v, C18_poly_*): mesh size d becomes the area constraint pi (d/2)^2, never more (so an element "
         "respecting it is no larger than the circle of that diameter), default and ForceMaxMesh cases, default mesh size heuristics, "
         "minimum angle handed to Triangle = min(MinAngle + 3, 33.8) (that it is at least the setting is refuted above 33.8)."),
 "C01": (" Extension (Properties_C02_poly.v, C01_poly_*): drawn point i is PSLG vertex i; switch string tokens (-pPq<angle>eAaz[Q]Ij, never Y "
         "on this path); the three written files reproduce Triangle's output arrays; a failing Triangle writes no mesh."),
}
for _k, _t in EXTRA3.items():
    CHECKS[_k]["text"] = CHECKS[_k]["text"] + _t
PENDING = {}
def main():
    props = [json.loads(l) for l in open(os.path.join(V, "properties.jsonl"))]
    checks, na = [], []
    for p in props:
        pid = p["id"]
        if pid in CHECKS:
            c = CHECKS[pid]
            checks.append(dict(property_id=pid, quick_cmd="./check %s --tier quick" % pid,
                               thorough_cmd="./check %s --tier thorough" % pid,
                               evidence_file="/verif/evidence/%s.json" % pid,
                               replay_cmd_template="./check %s --replay {path}" % pid,
                               engine="coq-model-correspondence",
                               level_claimed=dict(category=c["category"], text=c["text"], design_ref=c["design_ref"]),
                               level_note=c["note"], technique=c["technique"]))
        else:
            na.append(dict(property_id=pid, reason=PENDING.get(pid, "not claimed yet: model, theorems and correspondence for this property are still being built (see DESIGN.md build order); no check is registered until it passes on the unchanged tree and detects a hand-made break")))
    m = dict(version=1, setup_cmd="./setup.sh",
             hooks=dict(guard="XFEMM_VERIF",
                        enable="checks rsync /repo/cfemm to /var/tmp/xfemm-verif/snap-<treehash> and build it with cmake -DCMAKE_CXX_FLAGS=-DXFEMM_VERIF (tools/vlib.py snapshot())",
                        baseline_off_cmd="cmake -G Ninja -S /repo/cfemm -B /repo/_build >/dev/null && cmake --build /repo/_build >/dev/null && ctest --test-dir /repo/_build -j8 --timeout 900",
                        source_commits=open(os.path.join(V, "hooks_commits.txt")).read().split(),
                        add_only=True),
             engines=[dict(name="coq-model-correspondence", path="/verif/check",
                           serves_properties=sorted(CHECKS),
                           kind_free_text="Coq 8.16 theorems over hand-written/regenerated models + differential correspondence against the built working tree")],
             checks=checks, not_applicable=na,
             notes="See DESIGN.md. Every check rebuilds /repo's working tree (guard on), re-checks its Coq property file, runs the model/implementation correspondence and writes evidence/<id>.json.")
    json.dump(m, open(os.path.join(V, "MANIFEST.json"), "w"), indent=1)
main()
