#!/usr/local/bin/python3-vt
"""seedrun.py <ID> [check ids...]: archive the seeded change prepared under /tmp/seed-<ID>(-demo),
confirm its demonstration (fails on the seeded build, passes on the unchanged /repo build), run the
named checks (default: <ID>) against the seeded tree and record everything in seeded/<ID>/meta.json."""
import sys, os, json, shutil, subprocess, glob
sys.path.insert(0, os.path.dirname(os.path.abspath(__file__)))
import vlib

pid = sys.argv[1]
checks = sys.argv[2:] or [pid[:3]]      # "C02b" = second seeded change for C02
wt = "/tmp/seed-%s" % pid
demo_dir = wt + "-demo"
dst = os.path.join(vlib.VERIF, "seeded", pid)
os.makedirs(dst, exist_ok=True)
for f in os.listdir(demo_dir):
    if f in ("patch.diff", "NOTES.md") or f.startswith("demo"):
        shutil.copy(os.path.join(demo_dir, f), dst)
demo = [f for f in os.listdir(dst) if f.startswith("demo") and (f.endswith(".sh") or f.endswith(".py"))]
demo = sorted(demo, key=lambda f: (not f.endswith(".sh"), f))[0]
def run_demo(bindir):
    cmd = ["bash", os.path.join(dst, demo), bindir] if demo.endswith(".sh") else ["python3", os.path.join(dst, demo), bindir]
    p = subprocess.run(cmd, stdout=subprocess.PIPE, stderr=subprocess.STDOUT, universal_newlines=True, timeout=1800, cwd=dst)
    return p.returncode, p.stdout[-600:]
# unchanged tree: the snapshot of /repo
snap = vlib.snapshot()
rc_clean, out_clean = run_demo(snap.bin)
# seeded tree: build through the same snapshot mechanism
os.environ["XFEMM_REPO"] = wt
import importlib; importlib.reload(vlib)
snap_seed = vlib.snapshot()
rc_seed, out_seed = run_demo(snap_seed.bin)
res = {}
for c in checks:
    evf = os.path.join(vlib.VERIF, "evidence", c + ".json")
    saved = open(evf, "rb").read() if os.path.exists(evf) else None
    p = subprocess.run(["./check", c], cwd=vlib.VERIF, env=dict(os.environ, XFEMM_REPO=wt), stdout=subprocess.PIPE, stderr=subprocess.STDOUT,
                       universal_newlines=True, timeout=7200)
    lines = [l for l in p.stdout.split("\n") if l.startswith(("VIOLATION", "KNOWN-FINDING"))]
    what = []
    for rp in sorted(glob.glob(os.path.join(vlib.VERIF, "evidence", "replay", "%s-*.json" % c)))[:3]:
        what.append(json.load(open(rp))["what"][:300])
    res[c] = dict(exit=p.returncode, lines=lines[:6], what=what)
    # the evidence committed under evidence/ must describe /repo itself: keep the seeded run's beside the patch
    if os.path.exists(evf):
        shutil.copy(evf, os.path.join(dst, "evidence-%s-on-seeded-tree.json" % c))
    if saved is not None:
        open(evf, "wb").write(saved)
for w in glob.glob(os.path.join(dst, "work*")):
    shutil.rmtree(w, ignore_errors=True)
meta = dict(property=pid[:3], round={"": 1, "b": 2, "c": 3, "d": 4}.get(pid[3:], 9), patch="patch.diff", demonstration=demo,
            needs=open(os.path.join(dst, "NOTES.md")).read()[:1500] if os.path.exists(os.path.join(dst, "NOTES.md")) else "",
            demo_on_unchanged_tree=dict(exit=rc_clean, tail=out_clean[-300:]), demo_on_seeded_tree=dict(exit=rc_seed, tail=out_seed[-300:]),
            checks_on_seeded_tree=res,
            ran=["python3 %s <bin of unchanged /repo snapshot>" % demo, "python3 %s <bin of seeded snapshot>" % demo] + ["XFEMM_REPO=%s ./check %s" % (wt, c) for c in checks])
json.dump(meta, open(os.path.join(dst, "meta.json"), "w"), indent=1)
print(json.dumps(dict(clean=rc_clean, seeded=rc_seed, checks={c: (r["exit"], r["what"][:1]) for c, r in res.items()}), indent=1))
