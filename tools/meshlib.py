"""Mesh-file I/O (.poly/.node/.ele/.edge/.pbc as fmesher writes them), exact integer scaling of
binary64 coordinates, and rendering for the Coq validator (MeshCheck.v).  Shared by C01/C02/C18."""
import os, math
from fractions import Fraction
import vlib


def read_poly(path):
    L = [l for l in open(path).read().split("\n") if l.strip() and not l.lstrip().startswith("#")]
    it = iter(L)
    n = int(next(it).split()[0])
    pts, pm = [], []
    for _ in range(n):
        t = next(it).split()
        pts.append((float(t[1]), float(t[2]))); pm.append(int(t[3]))
    ns = int(next(it).split()[0])
    segs = []
    for _ in range(ns):
        t = next(it).split()
        segs.append((int(t[1]), int(t[2]), int(t[3])))
    nh = int(next(it).split()[0])
    holes = []
    for _ in range(nh):
        t = next(it).split()
        holes.append((float(t[1]), float(t[2])))
    nr = int(next(it).split()[0])
    regions = []
    for _ in range(nr):
        t = next(it).split()
        regions.append((float(t[1]), float(t[2]), float(t[3]), float(t[4])))
    return dict(points=pts, pmarks=pm, segs=segs, holes=holes, regions=regions)


def read_node(path):
    L = open(path).read().split("\n")
    n = int(L[0].split()[0])
    X, mk = [], []
    for l in L[1:1 + n]:
        t = l.split()
        X.append((float(t[1]), float(t[2]))); mk.append(int(t[3]))
    return X, mk


def read_ele(path):
    L = open(path).read().split("\n")
    n = int(L[0].split()[0])
    T, A = [], []
    for l in L[1:1 + n]:
        t = l.split()
        T.append((int(t[1]), int(t[2]), int(t[3])))
        A.append(float(t[4]) if len(t) > 4 else 0.0)
    return T, A


def read_edge(path):
    L = open(path).read().split("\n")
    n = int(L[0].split()[0])
    E = []
    for l in L[1:1 + n]:
        t = l.split()
        E.append((int(t[1]), int(t[2]), int(t[3])))
    return E


def read_pbc(path):
    L = open(path).read().split("\n")
    n = int(L[0].split()[0])
    P = []
    for l in L[1:1 + n]:
        t = l.split()
        if len(t) >= 4:
            P.append((int(t[1]), int(t[2]), int(t[3])))
    return P


def common_scale(values):
    """smallest power of two 2^k such that v*2^k is an integer for every binary64 v"""
    k = 0
    for v in values:
        if v == 0:
            continue
        num, den = float(v).as_integer_ratio()
        k = max(k, den.bit_length() - 1)
    return k


def scaled(v, k):
    f = Fraction(v) * (1 << k)
    assert f.denominator == 1
    return int(f)


def load_mesh(base):
    """base: path without extension; returns dict with poly + mesh."""
    d = dict(poly=read_poly(base + ".poly"))
    d["X"], d["nmark"] = read_node(base + ".node")
    d["T"], d["A"] = read_ele(base + ".ele")
    d["E"] = read_edge(base + ".edge")
    d["pbc"] = read_pbc(base + ".pbc") if os.path.exists(base + ".pbc") else []
    return d


def map_points(d):
    """map PSLG point index -> mesh node index by exact coordinates (Triangle keeps input
    vertices, but -j jettisons unused ones, which renumbers)."""
    idx = {}
    for i, p in enumerate(d["X"]):
        idx.setdefault(p, i)
    return [idx.get(p, -1) for p in d["poly"]["points"]]


def zc(v):
    return "(%d)" % v if v < 0 else "%d" % v


def to_coq(d):
    """Coq expression: check_mesh M P ppts pmarks (integers exactly scaled by 2^k)."""
    poly = d["poly"]
    coords = [c for p in d["X"] for c in p] + [c for p in poly["points"] for c in p] + \
             [c for p in poly["holes"] for c in p] + [c for r in poly["regions"] for c in r[:2]]
    k = common_scale(coords)
    pm = map_points(d)
    X = "; ".join("(%s, %s)" % (zc(scaled(x, k)), zc(scaled(y, k))) for (x, y) in d["X"])
    T = "; ".join("(%d, %d, %d)" % t for t in d["T"])
    A = "; ".join(zc(int(a)) for a in d["A"])
    E = "; ".join("(%d, %d, %s)" % (u, v, zc(m)) for (u, v, m) in d["E"])
    NM = "; ".join(zc(m) for m in d["nmark"])
    segs = "; ".join("(%d, %d, %s)" % (pm[u], pm[v], zc(m)) for (u, v, m) in poly["segs"] if pm[u] >= 0 and pm[v] >= 0)
    holes = "; ".join("(%s, %s)" % (zc(scaled(x, k)), zc(scaled(y, k))) for (x, y) in poly["holes"])
    regs = "; ".join("((%s, %s), %s, 0)" % (zc(scaled(x, k)), zc(scaled(y, k)), zc(int(a))) for (x, y, a, m) in poly["regions"])
    # input vertices that are part of the mesh, listed with the mesh index they must have
    mapped = [(i, j) for i, j in enumerate(pm) if j >= 0]
    ppts = "; ".join("(%s, %s)" % (zc(scaled(poly["points"][i][0], k)), zc(scaled(poly["points"][i][1], k))) for i, j in mapped)
    pmk = "; ".join(zc(poly["pmarks"][i]) for i, j in mapped)
    pidx = "; ".join("%d" % j for i, j in mapped)
    M = "(mkMesh [%s] [%s] [%s] [%s] [%s])" % (X, NM, T, A, E)
    P = "(mkPslg %d [%s] [%s] [%s])" % (len(poly["points"]), segs, holes, regs)
    return ("report_summary (check_mesh %s %s [%s] [%s] [%s])" % (M, P, pidx, ppts, pmk),
            dict(scale_pow2=k, unmapped_points=[i for i, j in enumerate(pm) if j < 0],
                 skipped_segments=[s for s in poly["segs"] if pm[s[0]] < 0 or pm[s[1]] < 0]))


REPORT_FIELDS = ["range", "ccw", "manifold", "area_mesh", "area_boundary", "bad_chains", "bad_boundary", "bad_attr_pairs",
                 "bad_regions", "bad_holes", "bad_points", "bad_edge_marks"]


def parse_report(v):
    return dict(zip(REPORT_FIELDS, v))


def report_ok(r):
    return (r["range"] and r["ccw"] and r["manifold"] and r["area_mesh"] == r["area_boundary"] and
            not (r["bad_chains"] or r["bad_boundary"] or r["bad_attr_pairs"] or r["bad_regions"] or r["bad_holes"] or
                 r["bad_points"] or r["bad_edge_marks"]))


def first_failure(r):
    if not r["range"]:
        return "element refers to a node index out of range"
    if not r["ccw"]:
        return "an element is degenerate or not counter-clockwise"
    if not r["manifold"]:
        return "a directed edge belongs to two elements (overlap / non-manifold)"
    for k, msg in (("bad_points", "drawn points not reproduced exactly as mesh vertices (or marker changed): %r"),
                   ("bad_chains", "drawn line / arc chord is not a chain of mesh edges: %r"),
                   ("bad_boundary", "mesh boundary edge not on a drawn entity: %r"),
                   ("bad_attr_pairs", "elements of one region carry different labels (pairs %r)"),
                   ("bad_regions", "block label region(s) %r: no element containing the label carries its attribute"),
                   ("bad_holes", "hole label(s) %r lie inside a mesh element"),
                   ("bad_edge_marks", ".edge entries with a marker different from the drawn entity they lie on: %r")):
        if r[k]:
            return msg % (r[k][:5],)
    if r["area_mesh"] != r["area_boundary"]:
        return "sum of element areas differs from the area enclosed by the mesh boundary"
    return None
