"""Independent reader / writer of the FEMM problem-file format (.fem magnetics, .fee
electrostatics, .feh heat flow), written from the FEMM 4.2 file-format description and NOT from
xfemm's reader: it is the oracle of property C14 ("problem files survive load and save").

    ff = read(path)            tolerant line-based reader -> FemFile (raw text values kept)
    m  = meaning(ff)           normalised meaning (defaults filled in, codecs undone)
    compare(m1, m2)            list of (signature, detail) differences in meaning
    render(ff, style)          write a FemFile back as text (style: 'xfemm' | 'femm42')
"""
import math, re, struct

KINDS = {"fem": "magnetics", "fee": "electrostatics", "feh": "heatflow"}

SECTION_KEYS = ["[pointprops]", "[bdryprops]", "[blockprops]", "[circuitprops]", "[conductorprops]",
                "[numpoints]", "[numsegments]", "[numarcsegments]", "[numholes]", "[numblocklabels]"]
BLOCK_TAGS = {"[pointprops]": ("<beginpoint>", "<endpoint>"),
              "[bdryprops]": ("<beginbdry>", "<endbdry>"),
              "[blockprops]": ("<beginblock>", "<endblock>"),
              "[circuitprops]": ("<begincircuit>", "<endcircuit>"),
              "[conductorprops]": ("<beginconductor>", "<endconductor>")}
TABLE_KEYS = ("<bhpoints>", "<tkpoints>")


class FemFile:
    def __init__(self, kind):
        self.kind = kind                 # 'fem' | 'fee' | 'feh'
        self.header = []                 # [(key as written, raw value text)]
        self.props = {"point": [], "bdry": [], "block": [], "circ": []}   # lists of blocks
        # block = [(key as written, raw value text, table or None)]; table = [(a, b)] raw text
        self.points, self.segments, self.arcs, self.holes, self.labels = [], [], [], [], []
        self.circ_key = None
        self.trailer = []                # lines after the problem description ([Solution] ...)

    def hget(self, key, default=None):
        v = default
        for k, t in self.header:
            if k.lower() == key:
                v = t
        return v


class FormatError(Exception):
    pass


def kind_of(path):
    e = path.rsplit(".", 1)[-1].lower()
    return {"fem": "fem", "ans": "fem", "fee": "fee", "res": "fee", "feh": "feh", "anh": "feh"}.get(e)


def _split_kv(line):
    i = line.find("=")
    if i < 0:
        return line.strip(), None
    return line[:i].strip(), line[i + 1:].strip()


def read(path, kind=None):
    kind = kind or kind_of(path)
    if kind is None:
        raise FormatError("unknown file type: " + path)
    with open(path, "rb") as f:
        data = f.read().decode("latin-1")
    return parse_text(data, kind)


def parse_text(data, kind):
    lines = data.replace("\r\n", "\n").replace("\r", "\n").split("\n")
    ff = FemFile(kind)
    i = 0
    n = len(lines)
    SEC = {"[pointprops]": "point", "[bdryprops]": "bdry", "[blockprops]": "block",
           "[circuitprops]": "circ", "[conductorprops]": "circ"}
    ENT = {"[numpoints]": "points", "[numsegments]": "segments", "[numarcsegments]": "arcs",
           "[numholes]": "holes", "[numblocklabels]": "labels"}
    while i < n:
        line = lines[i].strip()
        i += 1
        if not line:
            continue
        k, v = _split_kv(line)
        kl = k.lower()
        if kl == "[solution]":
            ff.trailer = lines[i - 1:]
            break
        if kl in SEC:
            cnt = int(v)
            if SEC[kl] == "circ":
                ff.circ_key = k
            beg, end = BLOCK_TAGS[kl]
            for _ in range(cnt):
                while i < n and not lines[i].strip():
                    i += 1
                if i >= n or lines[i].strip().lower() != beg:
                    raise FormatError("expected %s at line %d" % (beg, i + 1))
                i += 1
                blk = []
                while True:
                    if i >= n:
                        raise FormatError("unterminated block")
                    l2 = lines[i].strip()
                    i += 1
                    if not l2:
                        continue
                    if l2.lower() == end:
                        break
                    bk, bv = _split_kv(l2)
                    tab = None
                    if bk.lower() in TABLE_KEYS:
                        tab = []
                        # rows: two numbers per row, whitespace separated (may span lines freely)
                        need = 2 * max(int(bv), 0)
                        toks = []
                        while len(toks) < need:
                            toks += lines[i].split()
                            i += 1
                        tab = [(toks[2 * t], toks[2 * t + 1]) for t in range(need // 2)]
                    blk.append((bk, bv, tab))
                ff.props[SEC[kl]].append(blk)
            continue
        if kl in ENT:
            cnt = int(v)
            rows = []
            while len(rows) < cnt:
                if i >= n:
                    raise FormatError("missing entity lines for " + k)
                l2 = lines[i].strip()
                i += 1
                if not l2:
                    continue
                rows.append(l2)
            getattr(ff, ENT[kl]).extend(rows)
            continue
        if v is None:
            raise FormatError("line without '=': %r" % line)
        ff.header.append((k, v))
    return ff


# ------------------------------------------------------------------------------- meaning ----
def unquote(t):
    """text between the first quote and the LAST quote of the line (what xfemm documents)."""
    a = t.find('"')
    b = t.rfind('"')
    if a < 0 or b <= a:
        return None
    return t[a + 1:b]


def num(t):
    return float(t.split()[0])


# semantic header keys per file type: key -> (type, default)
HDR = {
    "fem": {"[frequency]": ("num", 0.0), "[precision]": ("num", 1e-8), "[minangle]": ("num", 30.0),
            "[depth]": ("num", 1.0), "[lengthunits]": ("word", "inches"), "[problemtype]": ("word", "planar"),
            "[coordinates]": ("word", "cartesian"), "[acsolver]": ("int", 0), "[prevtype]": ("int", 0),
            "[prevsoln]": ("str", ""), "[comment]": ("str", ""), "[extzo]": ("num", 0.0),
            "[extro]": ("num", 0.0), "[extri]": ("num", 0.0), "[dosmartmesh]": ("bool", 1),
            "[forcemaxmesh]": ("bool", 0)},
    "fee": {"[precision]": ("num", 1e-8), "[minangle]": ("num", 30.0),
            "[depth]": ("num", 1.0), "[lengthunits]": ("word", "inches"), "[problemtype]": ("word", "planar"),
            "[coordinates]": ("word", "cartesian"), "[comment]": ("str", ""), "[extzo]": ("num", 0.0),
            "[extro]": ("num", 0.0), "[extri]": ("num", 0.0), "[dosmartmesh]": ("bool", 1),
            "[forcemaxmesh]": ("bool", 0)},
    "feh": {"[precision]": ("num", 1e-8), "[minangle]": ("num", 30.0),
            "[depth]": ("num", 1.0), "[lengthunits]": ("word", "inches"), "[problemtype]": ("word", "planar"),
            "[coordinates]": ("word", "cartesian"), "[comment]": ("str", ""), "[extzo]": ("num", 0.0),
            "[extro]": ("num", 0.0), "[extri]": ("num", 0.0), "[dosmartmesh]": ("bool", 1),
            "[forcemaxmesh]": ("bool", 0), "[dt]": ("num", 0.0), "[prevsoln]": ("str", "")},
}
# keys that carry no meaning for the file type (constant, or not a parameter of that physics)
HDR_IGNORED = {"fem": ["[format]"], "fee": ["[format]", "[prevsoln]", "[prevtype]"],
               "feh": ["[format]", "[frequency]", "[prevtype]"]}

# property blocks: (file kind, section) -> {key: (type, default)}
PROPS = {
    ("fem", "point"): {"<pointname>": ("str", "New Point Property"), "<i_re>": ("num", 0.0), "<i_im>": ("num", 0.0),
                       "<a_re>": ("num", 0.0), "<a_im>": ("num", 0.0)},
    ("fem", "bdry"): {"<bdryname>": ("str", "New Boundary"), "<bdrytype>": ("int", 0), "<a_0>": ("num", 0.0),
                      "<a_1>": ("num", 0.0), "<a_2>": ("num", 0.0), "<phi>": ("num", 0.0), "<c0>": ("num", 0.0),
                      "<c0i>": ("num", 0.0), "<c1>": ("num", 0.0), "<c1i>": ("num", 0.0), "<mu_ssd>": ("num", 0.0),
                      "<sigma_ssd>": ("num", 0.0), "<innerangle>": ("num", 0.0), "<outerangle>": ("num", 0.0)},
    ("fem", "block"): {"<blockname>": ("str", "New Material"), "<mu_x>": ("num", 1.0), "<mu_y>": ("num", 1.0),
                       "<h_c>": ("num", 0.0), "<h_cangle>": ("num", 0.0), "<j_re>": ("num", 0.0), "<j_im>": ("num", 0.0),
                       "<sigma>": ("num", 0.0), "<d_lam>": ("num", 0.0), "<phi_h>": ("num", 0.0),
                       "<phi_hx>": ("num", 0.0), "<phi_hy>": ("num", 0.0), "<lamtype>": ("int", 0),
                       "<lamfill>": ("num", 1.0), "<nstrands>": ("int", 0), "<wired>": ("num", 0.0),
                       "<bhpoints>": ("table", [])},
    ("fem", "circ"): {"<circuitname>": ("str", "New Circuit"), "<totalamps_re>": ("num", 0.0),
                      "<totalamps_im>": ("num", 0.0), "<circuittype>": ("int", 0),
                      "<voltgradient_re>": ("num", 0.0), "<voltgradient_im>": ("num", 0.0)},
    ("fee", "point"): {"<pointname>": ("str", "New Point Property"), "<vp>": ("num", 0.0), "<qp>": ("num", 0.0)},
    ("fee", "bdry"): {"<bdryname>": ("str", "New Boundary"), "<bdrytype>": ("int", 0), "<vs>": ("num", 0.0),
                      "<qs>": ("num", 0.0), "<c0>": ("num", 0.0), "<c1>": ("num", 0.0)},
    ("fee", "block"): {"<blockname>": ("str", "New Material"), "<ex>": ("num", 1.0), "<ey>": ("num", 1.0),
                       "<qv>": ("num", 0.0)},
    ("fee", "circ"): {"<conductorname>": ("str", "New Circuit"), "<vc>": ("num", 0.0), "<qc>": ("num", 0.0),
                      "<conductortype>": ("int", 0)},
    ("feh", "point"): {"<pointname>": ("str", "New Point Property"), "<tp>": ("num", 0.0), "<qp>": ("num", 0.0)},
    ("feh", "bdry"): {"<bdryname>": ("str", "New Boundary"), "<bdrytype>": ("int", 0), "<tset>": ("num", 0.0),
                      "<qs>": ("num", 0.0), "<beta>": ("num", 0.0), "<h>": ("num", 0.0), "<tinf>": ("num", 0.0)},
    ("feh", "block"): {"<blockname>": ("str", "New Material"), "<kx>": ("num", 1.0), "<ky>": ("num", 1.0),
                       "<kt>": ("num", 0.0), "<qv>": ("num", 0.0), "<tkpoints>": ("table", [])},
    ("feh", "circ"): {"<conductorname>": ("str", "New Circuit"), "<tc>": ("num", 0.0), "<qc>": ("num", 0.0),
                      "<conductortype>": ("int", 0)},
}
SECTION_NAMES = {"point": "PointProps", "bdry": "BdryProps", "block": "BlockProps", "circ": "CircuitProps"}


def _conv(ty, t, tab=None):
    if ty == "num":
        return num(t)
    if ty == "int":
        return int(t.split()[0])
    if ty == "bool":
        return 1 if int(t.split()[0]) != 0 else 0
    if ty == "word":
        return t.split()[0].lower() if t.split() else ""
    if ty == "str":
        s = unquote(t)
        return s if s is not None else ""
    if ty == "table":
        return [(float(a), float(b)) for a, b in (tab or [])]
    raise ValueError(ty)


def meaning(ff):
    """Normalised meaning of a problem file.  Unknown keys are kept under 'unknown' so that a
    writer inventing keys is noticed as well."""
    m = {"kind": ff.kind, "header": {}, "unknown_header": []}
    spec = HDR[ff.kind]
    for k, (ty, dflt) in spec.items():
        m["header"][k] = dflt
    for k, t in ff.header:
        kl = k.lower()
        if kl in spec:
            m["header"][kl] = _conv(spec[kl][0], t)
        elif kl not in HDR_IGNORED[ff.kind]:
            m["unknown_header"].append(kl)
    # the exterior region only means something on axisymmetric problems with both radii set
    for sec in ("point", "bdry", "block", "circ"):
        spec = PROPS[(ff.kind, sec)]
        out = []
        for blk in ff.props[sec]:
            d = {k: dflt for k, (ty, dflt) in spec.items()}
            unk = []
            for k, t, tab in blk:
                kl = k.lower()
                if kl in spec:
                    d[kl] = _conv(spec[kl][0], t, tab)
                else:
                    unk.append(kl)
            if unk:
                d["unknown"] = unk
            out.append(d)
        m[sec] = out
    cond = ff.kind in ("fee", "feh")
    pts = []
    for l in ff.points:
        t = l.split()
        p = {"x": float(t[0]), "y": float(t[1]), "marker": int(t[2]), "group": int(t[3])}
        if cond:
            p["conductor"] = int(t[4]) if len(t) > 4 else 0
        pts.append(p)
    m["points"] = pts
    segs = []
    for l in ff.segments:
        t = l.split()
        ms = float(t[2])
        s = {"n0": int(t[0]), "n1": int(t[1]), "maxside": -1.0 if ms < 0 else ms, "marker": int(t[3]),
             "hidden": 1 if int(t[4]) != 0 else 0, "group": int(t[5])}
        if cond:
            s["conductor"] = int(t[6]) if len(t) > 6 else 0
        segs.append(s)
    m["segments"] = segs
    arcs = []
    for l in ff.arcs:
        t = l.split()
        a = {"n0": int(t[0]), "n1": int(t[1]), "angle": float(t[2]), "maxseg": float(t[3]), "marker": int(t[4]),
             "hidden": 1 if int(t[5]) != 0 else 0, "group": int(t[6])}
        if cond:
            a["conductor"] = int(t[7]) if len(t) > 7 else 0
        else:
            # magnetics: optional trailing "meshed side length"; equals maxseg when absent
            a["meshedside"] = float(t[7]) if len(t) > 7 else a["maxseg"]
        arcs.append(a)
    m["arcs"] = arcs
    m["holes"] = [{"x": float(l.split()[0]), "y": float(l.split()[1]), "group": int(l.split()[2])} for l in ff.holes]
    labs = []
    for l in ff.labels:
        fctn = None
        q = l.find('"')
        if q >= 0:
            fctn = unquote(l[q:])
            l = l[:q]
        t = l.split()
        d = float(t[3])
        lab = {"x": float(t[0]), "y": float(t[1]), "type": int(t[2]),
               "maxarea": (math.pi * d * d / 4.0) if d > 0 else 0.0}
        if ff.kind == "fem":
            lab.update(circuit=int(t[4]), magdir=float(t[5]), group=int(t[6]), turns=int(t[7]),
                       ext=(int(t[8]) & 3) if len(t) > 8 else 0, magdirfctn=fctn or "")
        else:
            lab.update(group=int(t[4]), ext=(int(t[5]) & 3) if len(t) > 5 else 0)
        labs.append(lab)
    m["labels"] = labs
    return m


def ulp_diff(a, b):
    if a == b or (a != a and b != b):
        return 0
    if a != a or b != b or math.isinf(a) or math.isinf(b):
        return 1 << 62
    ia = struct.unpack("<q", struct.pack("<d", a))[0]
    ib = struct.unpack("<q", struct.pack("<d", b))[0]
    if ia < 0:
        ia = -(ia & 0x7fffffffffffffff)
    if ib < 0:
        ib = -(ib & 0x7fffffffffffffff)
    return abs(ia - ib)


def same(a, b, ulps=2):
    if isinstance(a, float) or isinstance(b, float):
        return ulp_diff(float(a), float(b)) <= ulps
    if isinstance(a, list) and isinstance(b, list):
        return len(a) == len(b) and all(same(x, y, ulps) for x, y in zip(a, b))
    if isinstance(a, tuple) and isinstance(b, tuple):
        return len(a) == len(b) and all(same(x, y, ulps) for x, y in zip(a, b))
    return a == b


KEYNAME = {}


def compare(m1, m2, maxarea_ulps=4):
    """Differences between two meanings as (signature, detail).  Signatures are stable strings:
       lost-key:[dT]            a header value differs / was lost
       prop:BlockProps:<kx>     a property parameter differs
       count:BlockProps         number of properties differs
       entity:points:marker     an entity column differs,  count:points"""
    out = []
    if m1["kind"] != m2["kind"]:
        return [("kind", "%s vs %s" % (m1["kind"], m2["kind"]))]
    for k in m1["header"]:
        a, b = m1["header"][k], m2["header"].get(k)
        if k in ("[extzo]", "[extro]", "[extri]") and not exterior_defined(m1):
            continue
        if not same(a, b):
            out.append(("lost-key:" + k, "%r -> %r" % (a, b)))
    for k in m2["unknown_header"]:
        if k not in m1["unknown_header"]:
            out.append(("new-key:" + k, "written but not a key of this file type"))
    for sec in ("point", "bdry", "block", "circ"):
        A, B = m1[sec], m2[sec]
        if len(A) != len(B):
            out.append(("count:" + SECTION_NAMES[sec], "%d -> %d" % (len(A), len(B))))
            continue
        for i, (a, b) in enumerate(zip(A, B)):
            for k in a:
                if k == "unknown":
                    continue
                if not same(a[k], b.get(k)):
                    out.append(("prop:%s:%s" % (SECTION_NAMES[sec], k), "#%d: %r -> %r" % (i, a[k], b.get(k))))
            for k in b.get("unknown", []):
                out.append(("new-prop-key:%s:%s" % (SECTION_NAMES[sec], k), "#%d" % i))
    for ent in ("points", "segments", "arcs", "holes", "labels"):
        A, B = m1[ent], m2[ent]
        if len(A) != len(B):
            out.append(("count:" + ent, "%d -> %d" % (len(A), len(B))))
            continue
        for i, (a, b) in enumerate(zip(A, B)):
            for k in a:
                u = maxarea_ulps if k == "maxarea" else 2
                if not same(a[k], b.get(k), u):
                    out.append(("entity:%s:%s" % (ent, k), "#%d: %r -> %r" % (i, a[k], b.get(k))))
    return out


def exterior_defined(m):
    h = m["header"]
    return h["[problemtype]"] == "axisymmetric" and h["[extro]"] != 0 and h["[extri]"] != 0


# ------------------------------------------------------------------------------- writing ----
def fmt17(x):
    return "%.17g" % x


def render(ff, style="xfemm", eol=None, pad=None):
    """Write the FemFile back as text.  style 'femm42': CRLF, padded '<qs>   = ' spellings and
    blank-padded header keys as FEMM 4.2 writes them; 'xfemm': LF, as writeProblemDescription."""
    if eol is None:
        eol = "\r\n" if style == "femm42" else "\n"
    L = []
    for k, v in ff.header:
        if style == "femm42":
            L.append("%-13s =  %s" % (k, v) if len(k) <= 13 else "%s =  %s" % (k, v))
        else:
            L.append("%s = %s" % (k, v))
    TAG = {"point": ("[PointProps]", "<BeginPoint>", "<EndPoint>"), "bdry": ("[BdryProps]", "<BeginBdry>", "<EndBdry>"),
           "block": ("[BlockProps]", "<BeginBlock>", "<EndBlock>"),
           "circ": (ff.circ_key or ("[CircuitProps]" if ff.kind == "fem" else "[ConductorProps]"),
                    "<BeginCircuit>" if ff.kind == "fem" else "<BeginConductor>",
                    "<EndCircuit>" if ff.kind == "fem" else "<EndConductor>")}
    for sec in ("point", "bdry", "block", "circ"):
        key, beg, end = TAG[sec]
        L.append(("%-13s = %d" if style == "femm42" else "%s = %d") % (key, len(ff.props[sec])))
        for blk in ff.props[sec]:
            L.append("  " + beg)
            for k, v, tab in blk:
                if style == "femm42" and pad and len(k) < 6:
                    L.append("    %-6s = %s" % (k, v))
                else:
                    L.append("    %s = %s" % (k, v))
                if tab is not None:
                    for a, b in tab:
                        L.append("      %s\t%s" % (a, b))
            L.append("  " + end)
    for key, rows in (("[NumPoints]", ff.points), ("[NumSegments]", ff.segments), ("[NumArcSegments]", ff.arcs),
                      ("[NumHoles]", ff.holes), ("[NumBlockLabels]", ff.labels)):
        L.append("%s = %d" % (key, len(rows)))
        L += rows
    return eol.join(L) + eol
