#!/usr/bin/env python3
"""Byte-preserving line insertion for /repo sources (files have mixed CRLF/LF endings).
usage in python: insert(path, anchor_regex, text, where='after'|'before', nth=1)"""
import re, sys

def insert(path, anchor, text, where="after", nth=1):
    data = open(path, "rb").read()
    lines = data.splitlines(keepends=True)
    cnt = 0
    for i, l in enumerate(lines):
        if re.search(anchor.encode(), l):
            cnt += 1
            if cnt == nth:
                eol = b"\r\n" if l.endswith(b"\r\n") else b"\n"
                new = [t.encode() + eol for t in text.split("\n")]
                k = i + 1 if where == "after" else i
                lines[k:k] = new
                open(path, "wb").write(b"".join(lines))
                return
    raise SystemExit("anchor not found: %s in %s" % (anchor, path))


def replace(path, old, new, nth=1):
    """Byte-preserving replacement of a fragment inside one line (nth matching line)."""
    data = open(path, "rb").read()
    lines = data.splitlines(keepends=True)
    cnt = 0
    for i, l in enumerate(lines):
        if old.encode() in l:
            cnt += 1
            if cnt == nth:
                lines[i] = l.replace(old.encode(), new.encode(), 1)
                open(path, "wb").write(b"".join(lines))
                return
    raise SystemExit("fragment not found: %s in %s" % (old, path))
