#!/bin/sh
# usage: coqdbg.sh <file.v> <line>   — show the goal just before <line>
f=$1; n=$2
d=/var/tmp/xfemm-verif/dbg; mkdir -p $d
b=$(basename $f .v)
sed "${n}s/^/ Show. /" $f | head -n $n > $d/${b}_dbg.v
cd $d && timeout 300 coqc -Q /verif/coq/theories XF -w none ${b}_dbg.v 2>&1 | tail -${3:-60}
