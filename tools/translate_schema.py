"""translate_schema.py — extract the PARSE and PRINT schemas of the FEMM problem-file readers and
writers from the C++ sources and emit them as Coq data (coq/theories/gen/Schemas.v).

Covered (everything regular in the code):
  * keyed property blocks: <Cls>::fromStream  (if (token == "<key>") { expectChar; parseValue /
    parseString (prop.Field); continue; } chains, tables "<bhpoints>"/"<tkpoints>") and
    <Cls>::toStream (out << "    <Key> = " << Field << "\n" sequences, print conditions)
    for CMPointProp CHPointProp CSPointProp CMBoundaryProp CHBoundaryProp CSBoundaryProp
    CMSolverMaterialProp CHMaterialProp CSMaterialProp CMCircuit CHConductor CSCircuit;
  * the global [Key] table: FemmReader::parse + XReader::handleToken (femmcli, fmesher,
    epproc, hpproc), FEASolver::LoadProblemFile + XSolver::handleToken (the solvers' reader) and
    FemmProblem::writeProblemDescription, resolved per file type (.fem/.fee/.feh);
  * positional entity lines with the column number as key ("c0", "c1", ...): nodes, segments,
    arc segments (FemmReader::parse / writeProblemDescription, per file type), block labels
    (CxBlockLabel::fromStream / toStream), holes;
  * constructor defaults of every parsed field (constructor initialiser lists / bodies).
Not covered: fpproc's legacy reader (FPProc::OpenDocument), the [Solution] part of .ans files,
section order and counts, character-level lexing.

A statement of one of the walked functions that touches the stream but matches none of the known
shapes raises vlib.TranslateError (a new column or key written in a new style must not be
skipped silently)."""
import os, re, sys

try:
    import vlib
    TranslateError = vlib.TranslateError
except Exception:                                   # stand-alone use
    class TranslateError(Exception):
        pass


# ------------------------------------------------------------------------- C++ mini parser --
def strip_comments(src):
    out, i, n = [], 0, len(src)
    while i < n:
        c = src[i]
        if c == '"':
            j = i + 1
            while j < n and src[j] != '"':
                j += 2 if src[j] == "\\" else 1
            out.append(src[i:j + 1]); i = j + 1
        elif c == "'":
            j = i + 1
            while j < n and src[j] != "'":
                j += 2 if src[j] == "\\" else 1
            out.append(src[i:j + 1]); i = j + 1
        elif src.startswith("//", i):
            j = src.find("\n", i)
            i = n if j < 0 else j
        elif src.startswith("/*", i):
            j = src.find("*/", i)
            i = n if j < 0 else j + 2
        else:
            out.append(c); i += 1
    return "".join(out)


def strip_preprocessor(body):
    """Drop #ifdef/#if ... #endif regions (debug prints) inside function bodies."""
    out, depth = [], 0
    for line in body.split("\n"):
        s = line.strip()
        if s.startswith("#if"):
            depth += 1
            continue
        if s.startswith("#else") or s.startswith("#elif"):
            raise TranslateError("preprocessor #else inside a translated function: " + s)
        if s.startswith("#endif"):
            depth -= 1
            continue
        if depth == 0 and not s.startswith("#"):
            out.append(line)
    return "\n".join(out)


def match_close(s, i, open_c, close_c):
    """s[i] == open_c; index of the matching close_c (strings skipped)."""
    depth, n = 0, len(s)
    while i < n:
        c = s[i]
        if c == '"' or c == "'":
            q = c
            i += 1
            while i < n and s[i] != q:
                i += 2 if s[i] == "\\" else 1
        elif c == open_c:
            depth += 1
        elif c == close_c:
            depth -= 1
            if depth == 0:
                return i
        i += 1
    raise TranslateError("unbalanced %s%s" % (open_c, close_c))


def function_body(src, sig_regex, what):
    """Body text (between the braces) of the first function whose signature matches."""
    m = re.search(sig_regex, src)
    if not m:
        raise TranslateError("anchor not found: " + what)
    i = src.find("{", m.end() - 1)
    # a constructor's initialiser list sits between the signature and the brace: skip over it
    if i < 0:
        raise TranslateError("no body for " + what)
    j = match_close(src, i, "{", "}")
    return src[m.end():i], strip_preprocessor(src[i + 1:j])


def parse_stmts(s):
    """Very small statement parser: list of nodes
       ('if', cond, then_stmts, else_stmts|None) ('loop', head, body) ('switch', expr, cases)
       ('block', stmts) ('stmt', text)."""
    out, i, n = [], 0, len(s)

    def skip_ws(i):
        while i < n and s[i] in " \t\r\n":
            i += 1
        return i

    def one(i):
        i = skip_ws(i)
        if i >= n:
            return None, i
        if s[i] == "{":
            j = match_close(s, i, "{", "}")
            return ("block", parse_stmts(s[i + 1:j])), j + 1
        m = re.compile(r"(if|while|for|switch)\s*\(").match(s, i)
        if m and (i == 0 or not (s[i - 1].isalnum() or s[i - 1] == "_")):
            kw = m.group(1)
            p = m.end() - 1
            q = match_close(s, p, "(", ")")
            head = s[p + 1:q].strip()
            if kw == "switch":
                b = skip_ws(q + 1)
                e = match_close(s, b, "{", "}")
                return ("switch", head, parse_cases(s[b + 1:e])), e + 1
            body, k = one(q + 1)
            body = body[1] if body and body[0] == "block" else [body]
            if kw == "if":
                k2 = skip_ws(k)
                if re.compile(r"else\b").match(s, k2):
                    eb, k3 = one(k2 + 4)
                    eb = eb[1] if eb and eb[0] == "block" else [eb]
                    return ("if", head, body, eb), k3
                return ("if", head, body, None), k
            return ("loop", kw + " " + head, body), k
        j = i
        while j < n and s[j] != ";":
            if s[j] in "\"'":
                q = s[j]
                j += 1
                while j < n and s[j] != q:
                    j += 2 if s[j] == "\\" else 1
            elif s[j] == "(":
                j = match_close(s, j, "(", ")")
            j += 1
        return ("stmt", " ".join(s[i:j].split())), j + 1

    def parse_cases(body):
        cases, cur = [], None
        pos = 0
        for m in re.finditer(r"\b(case\s+([\w:]+)|default)\s*:(?!:)", body):
            if cur is not None:
                cases.append((cur, parse_stmts(body[pos:m.start()])))
            cur = m.group(2) or "default"
            pos = m.end()
        if cur is not None:
            cases.append((cur, parse_stmts(body[pos:])))
        return cases

    while True:
        node, i = one(i)
        if node is None:
            break
        if node == ("stmt", ""):
            continue
        out.append(node)
    return out


def split_top(s, sep):
    """Split at top-level occurrences of the operator sep (not inside () or strings)."""
    parts, depth, i, n, cur = [], 0, 0, len(s), []
    while i < n:
        c = s[i]
        if c in "\"'":
            j = i + 1
            while j < n and s[j] != c:
                j += 2 if s[j] == "\\" else 1
            cur.append(s[i:j + 1]); i = j + 1
            continue
        if c == "(":
            depth += 1
        elif c == ")":
            depth -= 1
        if depth == 0 and s.startswith(sep, i):
            parts.append("".join(cur).strip()); cur = []; i += len(sep)
            continue
        cur.append(c); i += 1
    parts.append("".join(cur).strip())
    return parts


def cstr(lit):
    """C string literal(s) -> python string, or None if the piece is not a pure literal."""
    lit = lit.strip()
    out = []
    while lit:
        if lit[0] != '"':
            return None
        j = 1
        buf = []
        while j < len(lit) and lit[j] != '"':
            if lit[j] == "\\":
                buf.append({"n": "\n", "t": "\t", '"': '"', "\\": "\\", "r": "\r"}.get(lit[j + 1], lit[j + 1]))
                j += 2
            else:
                buf.append(lit[j]); j += 1
        out.append("".join(buf))
        lit = lit[j + 1:].strip()
    return "".join(out)


# ---------------------------------------------------------------------- member declarations --
TYPES = {"double": "num", "int": "int", "bool": "bool", "std::string": "str", "string": "str",
         "CComplex": "complex", "femm::LengthUnit": "enum:LengthUnit", "femm::CoordsType": "enum:CoordsType",
         "femm::ProblemType": "enum:ProblemType", "LengthUnit": "enum:LengthUnit", "CoordsType": "enum:CoordsType",
         "ProblemType": "enum:ProblemType"}


def class_members(hdr_src):
    """{class: (base or None, {member: type})} from a header (public data members only)."""
    src = strip_comments(hdr_src)
    out = {}
    for m in re.finditer(r"\bclass\s+(\w+)\s*(?::\s*public\s+([\w:<>,\s]+?))?\s*\{", src):
        name, base = m.group(1), m.group(2)
        i = m.end() - 1
        j = match_close(src, i, "{", "}")
        body = src[i + 1:j]
        # remove nested braces (inline functions, enums)
        flat, depth = [], 0
        for c in body:
            if c == "{":
                depth += 1
            elif c == "}":
                depth -= 1
                if depth == 0:
                    flat.append(";")
            elif depth == 0:
                flat.append(c)
        mem = {}
        for stmt in "".join(flat).split(";"):
            stmt = " ".join(stmt.split())
            stmt = re.sub(r"^(public|private|protected)\s*:\s*", "", stmt)
            stmt = re.sub(r"^(public|private|protected)\s*:\s*", "", stmt)
            mm = re.match(r"^((?:std::|femm::)?\w+)\s+([\w\s,\[\]]+)$", stmt)
            if mm and mm.group(1) in TYPES and "(" not in stmt:
                for v in mm.group(2).split(","):
                    v = v.strip()
                    arr = re.match(r"(\w+)\s*\[(\d+)\]", v)
                    if arr:
                        mem[arr.group(1)] = TYPES[mm.group(1)] + "[%s]" % arr.group(2)
                    elif re.match(r"^\w+$", v):
                        mem[v] = TYPES[mm.group(1)]
        if base:
            base = base.split("<")[0].strip().split("::")[-1]
        out[name] = (base, mem)
    return out


class Members:
    def __init__(self):
        self.cls = {}

    def add_header(self, path):
        self.cls.update(class_members(open(path, errors="replace").read()))

    def type_of(self, cls, member):
        c = cls
        while c:
            if c not in self.cls:
                break
            base, mem = self.cls[c]
            if member in mem:
                return mem[member]
            c = base
        raise TranslateError("member %s::%s not found in the headers" % (cls, member))


def field_kind(mem, cls, lv):
    """lvalue text (prop.J.re, problem->Depth, Precision) -> (field name, kind)."""
    lv = lv.strip().lstrip("&").strip("() ")
    lv = re.sub(r"^(prop\.|problem->|this->|node\.|segm\.|asegm->|label->|node->|line->|arc->|next\.)", "", lv)
    parts = lv.split(".")
    t = mem.type_of(cls, parts[0])
    if t == "complex":
        if len(parts) != 2 or parts[1] not in ("re", "im"):
            raise TranslateError("complex member used without .re/.im: " + lv)
        return lv, "num"
    if len(parts) != 1:
        raise TranslateError("unexpected member access: " + lv)
    return lv, t


# -------------------------------------------------------------------------------- defaults --
def num_literal(t, consts):
    """C numeric literal / known constant -> ('int', z) | ('dec', m, e) | None."""
    t = t.strip()
    if t in consts:
        t = consts[t]
    if t in ("true", "false"):
        return ("int", 1 if t == "true" else 0)
    m = re.fullmatch(r"([-+]?)(\d*)\.?(\d*)(?:[eE]([-+]?\d+))?[fF]?", t)
    if not m or not (m.group(2) or m.group(3)):
        return None
    sign, ip, fp, ex = m.groups()
    isint = "." not in t and "e" not in t.lower()
    mant = int((ip or "0") + (fp or ""))
    e = int(ex or 0) - len(fp or "")
    while mant and mant % 10 == 0 and e < 0:
        mant //= 10; e += 1
    if mant == 0:
        e = 0
    if sign == "-":
        mant = -mant
    if isint:
        return ("int", mant)
    return ("dec", mant, e)


def ctor_defaults(src, cls, consts, mem):
    """{member: default literal} from `Cls::Cls()` (initialiser list + simple assignments) and
    its base classes' default constructors."""
    out = {}
    chain = []
    c = cls
    while c and c in mem.cls:
        chain.append(c)
        c = mem.cls[c][0]
    for c in reversed(chain):
        m = re.search(r"\b%s::%s\s*\(\s*(?:FileType\s+\w+)?\s*\)" % (c, c), src)
        if not m:
            continue
        i = src.find("{", m.end())
        init = src[m.end():i]
        j = match_close(src, i, "{", "}")
        body = src[i + 1:j]
        init = init.strip()
        if init.startswith(":"):
            for piece in split_top(init[1:], ","):
                mm = re.match(r"^(\w+)\s*\((.*)\)$", piece.strip(), re.S)
                if mm:
                    out[mm.group(1)] = mm.group(2).strip()
        for st in body.split(";"):
            mm = re.match(r"^\s*(\w+)\s*=\s*([^=].*)$", st.strip(), re.S)
            if mm:
                out[mm.group(1)] = mm.group(2).strip()
    return out


def default_of(dfl, field, kind, consts, enums):
    base = field.split(".")[0]
    if base not in dfl and kind == "str":
        return ("str", "")           # std::string member without initialiser: empty
    if base not in dfl:
        if enums is not None:
            # numeric member with no initialiser anywhere in the constructor chain: the value read
            # when the key is absent is indeterminate (recorded, reported by the check)
            enums.append(field)
            return ("dec", 0, 0) if kind == "num" else ("int", 0)
        raise TranslateError("no constructor default found for field " + field)
    t = dfl[base]
    if kind == "str":
        if t == "":
            return ("str", "")
        s = cstr(t)
        if s is None:
            raise TranslateError("string default of %s not a literal: %s" % (field, t))
        return ("str", s)
    if kind == "tab":
        return ("tab",)
    if kind.startswith("enum"):
        return ("sym", t.split("::")[-1])
    if t == "":
        t = "0"                      # value-initialised: J() / A()
    lit = num_literal(t, consts)
    if lit is None:
        raise TranslateError("numeric default of %s not a literal: %s" % (field, t))
    if kind == "num" and lit[0] == "int":
        return ("dec", lit[1], 0)
    if kind in ("int", "bool") and lit[0] == "dec":
        if lit[2] >= 0:
            return ("int", lit[1] * 10 ** lit[2])
        raise TranslateError("non-integral default for int field " + field)
    return lit


# --------------------------------------------------------------------------- parse schemas --
TOKEN_COND = re.compile(r'^\s*token\s*==\s*"([^"]*)"\s*(?:\|\|\s*token\s*==\s*"([^"]*)"\s*)*$')


def token_keys(cond):
    if not TOKEN_COND.match(cond):
        return None
    return re.findall(r'token\s*==\s*"([^"]*)"', cond)


def flatten(nodes):
    for nd in nodes:
        yield nd
        if nd[0] == "if":
            yield from flatten(nd[2])
            if nd[3]:
                yield from flatten(nd[3])
        elif nd[0] in ("loop",):
            yield from flatten(nd[2])
        elif nd[0] == "block":
            yield from flatten(nd[1])
        elif nd[0] == "switch":
            for _, st in nd[2]:
                yield from flatten(st)


def keyed_parse_entries(nodes, mem, cls, what, end_tokens=()):
    """Walk a reader body; returns list of dicts {key, field, kind, enum, cap, section}."""
    entries = []

    def visit(nodes):
        for nd in nodes:
            if nd[0] == "if":
                keys = token_keys(nd[1])
                if keys is not None:
                    ent = analyse_key_body(nd[2], mem, cls, what + " key " + keys[0])
                    for k in keys:
                        e = dict(ent)
                        e["key"] = k
                        entries.append(e)
                    if nd[3]:
                        raise TranslateError("%s: else branch after key test %s" % (what, keys[0]))
                    continue
                if re.search(r"token\s*[!=]=", nd[1]) and not re.fullmatch(r'\s*token\s*!=\s*"[^"]*"\s*', nd[1]):
                    raise TranslateError("%s: unrecognised token test: %s" % (what, nd[1]))
                visit(nd[2])
                if nd[3]:
                    visit(nd[3])
            elif nd[0] == "loop":
                visit(nd[2])
            elif nd[0] == "block":
                visit(nd[1])
    visit(nodes)
    if not entries:
        raise TranslateError("%s: no key tests found" % what)
    return entries


def analyse_key_body(body, mem, cls, what):
    """Body of `if (token == "<key>") {...}`."""
    stm = [nd for nd in body]
    texts = [nd[1] for nd in stm if nd[0] == "stmt"]
    ent = dict(field="", kind=None, enum=None, cap=None, section=None)
    pv = [re.search(r"\bparseValue\s*\(\s*\w+\s*,\s*([^,]+?)\s*,\s*\w+\s*\)", t) for t in texts]
    pv = [m.group(1) for m in pv if m]
    ps = [re.search(r"\bparseString\s*\(\s*\w+\s*,\s*&\s*\(?\s*([^,\)]+?)\s*\)?\s*(?:,\s*\w+\s*)?\)", t) for t in texts]
    ps = [m.group(1) for m in ps if m]
    has_next = any(re.search(r"\bnextToken\s*\(", t) for t in texts)
    loops = [nd for nd in stm if nd[0] == "loop"]
    ifs = [nd for nd in stm if nd[0] == "if"]
    if not any("expectChar" in t and "'='" in t for t in texts) and (pv or ps or has_next):
        raise TranslateError(what + ": value read without expectChar('=')")
    if has_next:
        # enum chain: if (token == "w") X = E;  [else if ...]
        mapping, target = [], None
        def chain(nds):
            nonlocal target
            for nd in nds:
                if nd[0] != "if":
                    continue
                ks = token_keys(nd[1])
                if ks is None:
                    raise TranslateError(what + ": unrecognised enum test " + nd[1])
                asg = [x for x in nd[2] if x[0] == "stmt"]
                mm = re.match(r"^([\w>\-\.]+)\s*=\s*([\w:]+)$", asg[0][1]) if asg else None
                if not mm:
                    raise TranslateError(what + ": unrecognised enum assignment")
                f, _ = field_kind(mem, cls, mm.group(1))
                if target not in (None, f):
                    raise TranslateError(what + ": enum chain assigns two fields")
                target = f
                for k in ks:
                    mapping.append((k, mm.group(2).split("::")[-1]))
                if nd[3]:
                    chain(nd[3])
        chain(stm)
        if not mapping:
            raise TranslateError(what + ": nextToken without enum chain")
        ent.update(field=target, kind="enum", enum=mapping)
        return ent
    if ps:
        f, k = field_kind(mem, cls, ps[0])
        if k != "str":
            raise TranslateError(what + ": parseString into non-string " + ps[0])
        ent.update(field=f, kind="str")
        return ent
    if pv:
        lv = pv[0]
        allst = [x[1] for x in flatten(stm) if x[0] == "stmt"] + [x[1] for x in flatten(stm) if x[0] == "loop"]
        if (re.fullmatch(r"\w+", lv) and any(re.match(r"^int\s+%s$" % lv, t) for t in texts)) or \
           any(re.search(r"::fromStream|getline\s*\(\s*input", t) for t in allst):
            # local counter: a section "[xxxprops] = k" followed by k blocks / lines
            cl = None
            for nd in flatten(stm):
                if nd[0] == "stmt":
                    mm = re.search(r"(\w+)::fromStream", nd[1])
                    if mm:
                        cl = mm.group(1)
            ent.update(kind="section", section=cl or "lines")
            return ent
        f, k = field_kind(mem, cls, lv)
        if loops or any(re.search(r">>", x[1]) for x in flatten(stm) if x[0] == "stmt"):
            # table: count + rows  `input >> a >> b`
            rows = [x[1] for x in flatten(stm) if x[0] == "stmt" and re.search(r"\binput\s*>>", x[1])]
            if len(rows) != 1 or len(split_top(rows[0], ">>")) != 3:
                raise TranslateError(what + ": unrecognised table row read")
            cap = None
            for nd in flatten(stm):
                if nd[0] == "if":
                    mm = re.match(r"^[\w\.]+\s*>\s*(\d+)$", nd[1].strip())
                    if mm:
                        cap = int(mm.group(1))
            ent.update(field=f, kind="tab", cap=cap)
            return ent
        if k not in ("num", "int", "bool"):
            raise TranslateError(what + ": parseValue into %s" % k)
        ent.update(field=f, kind=k)
        return ent
    # no value consumed: accepted and ignored (only messages / return)
    for t in texts:
        if not re.match(r"^(err\s*<<|return\b|continue$|readSolutionData\s*=|break$)", t):
            raise TranslateError(what + ": unrecognised statement: " + t)
    if any(re.match(r"^(readSolutionData|break)", t) for t in texts):
        ent.update(kind="section", section="solution")
        return ent
    ent.update(kind="ignored")
    return ent


# --------------------------------------------------------------------------- print schemas --
KEY_LIT = re.compile(r'^\s*((?:<[^<>=]+>|\[[^\[\]=]+\]))\s*(?:=\s*(.*))?$', re.S)


def cond_filetype(cond, ftype):
    """Evaluate a condition made only of `filetype ==/!= FileType::X` terms for file type ftype;
    None if it mentions anything else."""
    c = cond
    if re.search(r"[^\w\s:=!|&()]", c):
        return None
    terms = re.findall(r"filetype\s*(==|!=)\s*FileType::(\w+)", c)
    rest = re.sub(r"filetype\s*(==|!=)\s*FileType::(\w+)", "T", c)
    if not terms or re.search(r"[A-Za-z_]\w*", rest.replace("T", "")):
        return None
    expr = re.sub(r"(?:\w+->)?filetype\s*(==|!=)\s*(?:femm::)?FileType::(\w+)",
                  lambda m: str((m.group(2) == ftype) == (m.group(1) == "==")), c)
    expr = " ".join(expr.replace("||", " or ").replace("&&", " and ").split())
    return bool(eval(expr))                        # only True/False/and/or/() remain


FT = {"fem": "MagneticsFile", "fee": "ElectrostaticsFile", "feh": "HeatFlowFile"}


def norm_cond_filetype(cond):
    return re.sub(r"(?:problem->|femm::)", "", cond)


class PrintWalker:
    """Walk a writer body and collect keyed entries and positional lines."""

    def __init__(self, mem, cls, ftype, stream, what, alias=None):
        self.mem, self.cls, self.ftype, self.stream, self.what = mem, cls, ftype, stream, what
        self.alias = alias or {}
        self.entries = []          # keyed: dict(key, src, kind, tf, cond, enum)
        self.lines = []            # positional: list of columns (closed lines)
        self.cur = None            # open positional line
        self.pending_key = None    # "[LengthUnits] =  " waiting for its enum switch
        self.locals = {}           # int extDefault |= bits
        self.sections = []

    # --- conditions -------------------------------------------------------------------
    def cond_expr(self, c):
        """C condition -> cond term (tuple) ; raises if not understood."""
        c = c.strip()
        while c.startswith("(") and match_close(c, 0, "(", ")") == len(c) - 1:
            c = c[1:-1].strip()
        parts = split_top(c, "&&")
        if len(parts) > 1:
            r = self.cond_expr(parts[0])
            for p in parts[1:]:
                r = ("and", r, self.cond_expr(p))
            return r
        parts = split_top(c, "||")
        if len(parts) > 1:
            r = self.cond_expr(parts[0])
            for p in parts[1:]:
                r = ("or", r, self.cond_expr(p))
            return r
        m = re.fullmatch(r"!\s*([\w\.>\-]+)\.empty\(\)", c)
        if m:
            f, k = field_kind(self.mem, self.cls, m.group(1))
            return ("strnonempty", f)
        m = re.fullmatch(r"([\w\.>\-]+)\s*!=\s*0", c)
        if m:
            base = re.sub(r"^(prop\.|problem->)", "", m.group(1))
            t = self.mem.type_of(self.cls, base.split(".")[0])
            if t == "complex" and "." not in base:
                return ("or", ("numnonzero", base + ".re"), ("numnonzero", base + ".im"))
            f, k = field_kind(self.mem, self.cls, m.group(1))
            return ("numnonzero", f)
        m = re.fullmatch(r"([\w\.>\-]+)\s*(==|!=)\s*(?:femm::)?(\w+)", c)
        if m:
            f, k = field_kind(self.mem, self.cls, m.group(1))
            if k.startswith("enum"):
                t = ("symis", f, m.group(3))
                return t if m.group(2) == "==" else ("not", t)
        raise TranslateError("%s: unrecognised print condition: %s" % (self.what, c))

    # --- expressions ------------------------------------------------------------------
    def value_expr(self, e):
        """printed expression -> (field, kind, transform)"""
        e = e.strip()
        while e.startswith("(") and match_close(e, 0, "(", ")") == len(e) - 1:
            e = e[1:-1].strip()
        if e in self.alias:
            e = self.alias[e]
        m = re.fullmatch(r"\(\s*int\s*\)\s*([\w\.>\-]+)", e)
        if m:
            f, k = field_kind(self.mem, self.cls, m.group(1))
            if k != "bool":
                raise TranslateError("%s: (int) cast of non-bool %s" % (self.what, e))
            return f, "bool", ("id",)
        m = re.fullmatch(r"([\w\.>\-]+)\s*\+\s*(\d+)", e)
        if m:
            f, k = field_kind(self.mem, self.cls, m.group(1))
            if k != "int":
                raise TranslateError("%s: offset on non-int %s" % (self.what, e))
            return f, "int", ("off", int(m.group(2)))
        m = re.fullmatch(r"\(\s*([\w\.]+)\s*>\s*0\s*\)\s*\?\s*sqrt\(\s*4\.?\s*\*\s*([\w\.]+)\s*/\s*PI\s*\)\s*:\s*-1", e)
        if m and m.group(1) == m.group(2):
            f, k = field_kind(self.mem, self.cls, m.group(1))
            return f, "num", ("maxarea",)
        m = re.fullmatch(r"([\w\.>\-]+)\.size\(\)(\s*-\s*numHoles)?|numHoles", e)
        if m:
            return None
        m = re.fullmatch(r"[\w\.>\-]+", e)
        if m:
            if e in self.locals:
                return self.locals[e]
            f, k = field_kind(self.mem, self.cls, e)
            return f, k, ("id",)
        raise TranslateError("%s: unrecognised printed expression: %s" % (self.what, e))

    # --- statements -------------------------------------------------------------------
    def walk(self, nodes, conds=()):
        i = 0
        while i < len(nodes):
            nd = nodes[i]
            i += 1
            if nd[0] == "block":
                self.walk(nd[1], conds)
            elif nd[0] == "if":
                ft = cond_filetype(norm_cond_filetype(nd[1]), FT.get(self.ftype, "")) if self.ftype else None
                if ft is True:
                    self.walk(nd[2], conds)
                elif ft is False:
                    if nd[3]:
                        self.walk(nd[3], conds)
                elif self.try_flag_assign(nd):
                    pass
                elif self.try_negm1(nd, conds):
                    pass
                elif not self.touches_stream(nd):
                    pass
                elif re.fullmatch(r"!?\s*\w+->isHole\(\)", nd[1].strip()) and not nd[3]:
                    self.walk(nd[2], conds)          # selection of holes / non-holes of labellist
                elif (re.fullmatch(r"\w+\s*>\s*0", nd[1].strip()) and self.entries and self.entries[-1].get("count_of")
                      and self.entries[-1]["src"] == ("field", nd[1].split(">")[0].strip()) and not nd[3]):
                    self.walk(nd[2], conds)          # if (npts > 0) { rows }
                else:
                    c = self.cond_expr(nd[1])
                    self.walk(nd[2], conds + (c,))
                    if nd[3]:
                        self.walk(nd[3], conds + (("not", c),))
            elif nd[0] == "switch":
                self.do_switch(nd, conds)
            elif nd[0] == "loop":
                self.do_loop(nd, conds)
            else:
                self.do_stmt(nd[1], conds)

    def touches_stream(self, nd):
        for x in flatten([nd]):
            if x[0] == "stmt" and re.match(r"^%s\s*(<<|\.)" % self.stream, x[1]):
                return True
            if x[0] == "stmt" and re.search(r"toStream\s*\(", x[1]):
                return True
        return False

    def try_flag_assign(self, nd):
        """if (IsExternal) extDefault |= 0x01;"""
        if nd[3] or len(nd[2]) != 1 or nd[2][0][0] != "stmt":
            return False
        m = re.fullmatch(r"(\w+)\s*\|=\s*(0x[0-9a-fA-F]+|\d+)", nd[2][0][1])
        if not m:
            return False
        var, bit = m.group(1), int(m.group(2), 0)
        f, k = field_kind(self.mem, self.cls, nd[1])
        if k != "bool":
            raise TranslateError("%s: flag from non-bool %s" % (self.what, nd[1]))
        if var not in self.locals or self.locals[var][0] != "flags":
            raise TranslateError("%s: flag variable %s not initialised to 0" % (self.what, var))
        self.locals[var][1].append((f, bit))
        return True

    def try_negm1(self, nd, conds):
        """if (x < 0) out << "\\t-1"; else out << "\\t" << x;"""
        m = re.fullmatch(r"([\w\.>\-]+)\s*<\s*0", nd[1].strip())
        if not m or not nd[3] or len(nd[2]) != 1 or len(nd[3]) != 1:
            return False
        a, b = nd[2][0], nd[3][0]
        if a[0] != "stmt" or b[0] != "stmt":
            return False
        pa = split_top(a[1], "<<")
        pb = split_top(b[1], "<<")
        if pa[0] != self.stream or pb[0] != self.stream:
            return False
        if [cstr(x) for x in pa[1:]] != ["\t-1"] or len(pb) != 3 or cstr(pb[1]) != "\t":
            return False
        f, k = field_kind(self.mem, self.cls, m.group(1))
        f2, k2, tf = self.value_expr(pb[2])
        if f2 != f or k != "num":
            return False
        self.add_col(f, k, ("negm1",), conds)
        return True

    def add_col(self, f, k, tf, conds, quoted=False):
        if self.cur is None:
            self.cur = []
        self.cur.append(dict(field=f, kind=k, tf=tf, cond=conds, quoted=quoted))

    def do_switch(self, nd, conds):
        if self.pending_key is None:
            raise TranslateError("%s: switch without a pending key" % self.what)
        f, k = field_kind(self.mem, self.cls, nd[1])
        if not k.startswith("enum"):
            raise TranslateError("%s: switch on non-enum %s" % (self.what, nd[1]))
        mapping = []
        for label, body in nd[2]:
            words = []
            for x in body:
                if x[0] == "stmt" and x[1].startswith(self.stream):
                    p = split_top(x[1], "<<")
                    w = cstr(p[1]) if len(p) == 2 else None
                    if w is None or not w.endswith("\n"):
                        raise TranslateError("%s: unrecognised switch branch %s" % (self.what, x[1]))
                    words.append(w.strip())
                elif x[0] == "stmt" and x[1] == "break":
                    pass
                else:
                    raise TranslateError("%s: unrecognised switch branch statement" % self.what)
            if len(words) != 1:
                raise TranslateError("%s: switch branch %s prints %d words" % (self.what, label, len(words)))
            mapping.append((label.split("::")[-1], words[0]))
        key, kconds = self.pending_key
        self.pending_key = None
        self.entries.append(dict(key=key, src=("field", f), kind="enum", tf=("id",), cond=kconds, enum=mapping))

    def do_loop(self, nd, conds):
        # a loop printing table rows directly after a "<XPoints> = n" entry, or a section loop
        inner = [x for x in flatten(nd[2]) if x[0] == "stmt"]
        if any(re.search(r"toStream\s*\(", x[1]) for x in inner):
            for x in inner:
                m = re.search(r"(\w+)->toStream", x[1])
            return
        rows = [x[1] for x in inner if x[1].startswith(self.stream)]
        if rows and self.entries and self.entries[-1].get("count_of"):
            p = split_top(rows[0], "<<")
            exprs = [x for x in p[1:] if cstr(x) is None]
            if len(rows) != 1 or len(exprs) != 2:
                raise TranslateError("%s: unrecognised table row print" % self.what)
            self.entries[-1]["kind"] = "tab"
            self.entries[-1]["rows"] = exprs
            return
        if rows:
            # entity loop: positional lines inside
            w = PrintWalker(self.mem, self.loop_class(nd), self.ftype, self.stream, self.what + " loop")
            w.walk(nd[2], ())
            if w.cur:
                raise TranslateError("%s: positional line not terminated" % self.what)
            self.sections.append((self.last_section, w.lines, w.entries))
            return

    def loop_class(self, nd):
        m = re.search(r":\s*(\w+)$", nd[1])
        lst = m.group(1) if m else ""
        return {"nodelist": "CNode", "linelist": "CSegment", "arclist": "CArcSegment", "labellist": "CBlockLabel"}.get(lst, self.cls)

    last_section = None

    def do_stmt(self, t, conds):
        s = self.stream
        m = re.fullmatch(r"int\s+(\w+)\s*=\s*0", t)
        if m:
            self.locals[m.group(1)] = ("flags", [])
            return
        if re.fullmatch(r"%s\.(width|setf)\(.*\)" % s, t) or re.fullmatch(r"%s\s*<<\s*std::setprecision\(\d+\)" % s, t):
            return
        m = re.fullmatch(r"std::string\s+(\w+)\s*\(\s*(\w+)\s*\)", t)
        if m:
            self.alias[m.group(1)] = m.group(2)       # commentString(comment)
            return
        m = re.fullmatch(r"std::string\s+(\w+)", t)
        if m:
            return
        m = re.fullmatch(r"(\w+)\s*=\s*(\".*\")", t)
        if m and cstr(m.group(2)) is not None:
            self.alias.setdefault("=" + m.group(1), []).append((conds, cstr(m.group(2))))
            return
        if re.fullmatch(r"size_t\s+pos\s*=\s*\w+\.find\(.*\)", t) or re.match(r"^\w+\.replace\(", t):
            return
        if re.fullmatch(r"int\s+numHoles\s*=\s*countHoles\(\)", t):
            return
        if not re.match(r"^%s\s*<<" % s, t):
            if re.search(r"<<|>>", t) and not t.startswith("std::cerr") and not t.startswith("assert"):
                raise TranslateError("%s: unrecognised stream statement: %s" % (self.what, t))
            return
        parts = split_top(t, "<<")[1:]
        # merge adjacent literals
        items = []
        for p in parts:
            c = cstr(p)
            if c is not None and items and isinstance(items[-1], str):
                items[-1] += c
            elif c is not None:
                items.append(c)
            else:
                items.append(("expr", p))
        self.do_items(items, conds, t)

    def do_items(self, items, conds, t):
        first = items[0] if isinstance(items[0], str) else None
        km = KEY_LIT.match(first) if first is not None else None
        if first is None and len(items) >= 1 and items[0][1] in ("circuitHeader",):
            km = "var"
        if km == "var" or (km and (km.group(2) is not None or len(items) > 1) and self.cur is None):
            if km == "var":
                # key held in a local string assigned under file-type conditions
                alts = self.alias.get("=" + items[0][1], [])
                key = None
                for cnds, val in alts:
                    key = val if all(self.static_true(c) for c in cnds) else key
                rest = items[1:]
                val = rest[0] if rest and isinstance(rest[0], str) else ""
                rest = rest[1:] if rest and isinstance(rest[0], str) else rest
                val = val.lstrip().lstrip("=").strip(" ")
            else:
                key = km.group(1)
                val = km.group(2) or ""
                rest = items[1:]
            if val == "" and rest and isinstance(rest[0], str):
                raise TranslateError("%s: unexpected literal sequence in %s" % (self.what, t))
            # forms:  KEY = <expr> "\n" | KEY = "<expr>"\n | KEY = const\n | KEY =  (enum follows)
            quoted = val.strip().startswith('"')
            if not rest:
                v = val.strip()
                if v.endswith("\n") or "\n" in val:
                    v = val.strip()
                    self.entries.append(dict(key=key, src=("const", v), kind=None, tf=("id",), cond=conds))
                    return
                if v == "":
                    self.pending_key = (key, conds)
                    return
                raise TranslateError("%s: unterminated keyed line: %s" % (self.what, t))
            if len(rest) != 2 or not isinstance(rest[1], str) or not rest[1].endswith("\n"):
                raise TranslateError("%s: unrecognised keyed line: %s" % (self.what, t))
            if quoted != rest[1].startswith('"'):
                raise TranslateError("%s: unbalanced quotes in %s" % (self.what, t))
            e = rest[0][1]
            ve = self.value_expr(e)
            if ve is None:
                m = re.fullmatch(r"([\w]+)\.size\(\)(?:\s*-\s*numHoles)?", e.strip())
                self.last_section = key
                self.entries.append(dict(key=key, src=("count", e), kind="section", tf=("id",), cond=conds))
                return
            f, k, tf = ve
            if quoted and k != "str":
                raise TranslateError("%s: quoted non-string %s" % (self.what, t))
            if k == "str" and not quoted:
                raise TranslateError("%s: unquoted string %s" % (self.what, t))
            ent = dict(key=key, src=("field", f), kind=k, tf=tf, cond=conds)
            if k == "int":
                ent["count_of"] = True
            self.entries.append(ent)
            return
        if km and self.cur is None and len(items) == 1:
            # "  <BeginBlock>\n" markers, or a section header like "[NumPoints] = " handled above
            return
        # positional pieces
        for it in items:
            if isinstance(it, str):
                if it.strip(" \t\"") == "" and "\n" not in it:
                    self._quote_state = it.count('"') % 2 == 1 and not getattr(self, "_quote_state", False)
                    continue
                if it.endswith("\n") and it.strip(" \t\"\n") == "":
                    if self.cur is not None:
                        self.lines.append(self.cur)
                        self.cur = None
                    continue
                if KEY_LIT.match(it) and self.cur is None:
                    continue
                raise TranslateError("%s: unrecognised literal %r in positional line" % (self.what, it))
            ve = self.value_expr(it[1])
            if ve is None:
                raise TranslateError("%s: count in positional line" % self.what)
            if ve[0] == "flags":
                self.add_col("|".join(f for f, b in ve[1]), "int", ("bits", sum(b for f, b in ve[1])), conds)
                self.cur[-1]["flags"] = ve[1]
                continue
            f, k, tf = ve
            self.add_col(f, k, tf, conds, quoted=(k == "str"))

    def static_true(self, c):
        return True


# ------------------------------------------------------------------------- per-class glue --
PROP_CLASSES = [
    ("CMPointProp", "CPointProp"), ("CHPointProp", "CPointProp"), ("CSPointProp", "CPointProp"),
    ("CMBoundaryProp", "CBoundaryProp"), ("CHBoundaryProp", "CBoundaryProp"), ("CSBoundaryProp", "CBoundaryProp"),
    ("CMSolverMaterialProp", "CMaterialProp"), ("CHMaterialProp", "CMaterialProp"), ("CSMaterialProp", "CMaterialProp"),
    ("CMCircuit", "CCircuit"), ("CHConductor", "CCircuit"), ("CSCircuit", "CCircuit"),
]
LABEL_CLASSES = ["CMBlockLabel", "CHBlockLabel", "CSBlockLabel"]
READERS = {"fem": "MagneticsReader", "fee": "ElectrostaticsReader", "feh": "HeatFlowReader"}
SOLVERS = {"fem": ("fsolver/fsolver.cpp", "FSolver"), "fee": ("esolver/esolver.cpp", "ESolver"),
           "feh": ("hsolver/hsolver.cpp", "HSolver")}


def read(path):
    try:
        return open(path, errors="replace").read()
    except OSError:
        raise TranslateError("source file missing: " + path)


def keyed_class(mem, src, cls, consts):
    what = cls + "::fromStream"
    _, body = function_body(src, r"\b%s\s+%s::fromStream\s*\(" % (cls, cls), what)
    nodes = parse_stmts(body)
    ents = keyed_parse_entries(nodes, mem, cls, what)
    dfl = ctor_defaults(src, cls, consts, mem)
    P = []
    for e in ents:
        if e["kind"] in ("section",):
            raise TranslateError(what + ": section inside a property block")
        d = None
        if e["kind"] != "ignored":
            d = default_of(dfl, e["field"], e["kind"], consts, None)
        P.append(dict(key=e["key"], field=e["field"], kind=e["kind"], tf=("id",), dflt=d, cap=e.get("cap"), enum=e.get("enum")))
    what = cls + "::toStream"
    sig, body = function_body(src, r"\bvoid\s+%s::toStream\s*\(\s*(?:std::)?ostream\s*&\s*(\w+)\s*\)" % cls, what)
    stream = re.search(r"\bvoid\s+%s::toStream\s*\(\s*(?:std::)?ostream\s*&\s*(\w+)\s*\)" % cls, src).group(1)
    w = PrintWalker(mem, cls, None, stream, what)
    w.walk(parse_stmts(body))
    if w.cur or w.lines:
        raise TranslateError(what + ": positional output in a keyed block")
    return P, w.entries


def const_entry(e, what):
    """KEY = literal -> source"""
    v = e["src"][1]
    lit = num_literal(v, {})
    if lit is None:
        return ("word", v)
    return lit


UNINIT = []


def header_parse(mem, reader_src, func_regex, cls, handle_src, handle_cls, consts, dfl, what, prefix_cls="FemmProblem"):
    _, body = function_body(reader_src, func_regex, what)
    ents = keyed_parse_entries(parse_stmts(body), mem, prefix_cls, what)
    if handle_cls and not re.search(r"\bbool\s+%s::handleToken\s*\(" % handle_cls, handle_src):
        # no override: the base implementation rejects every token; the class itself must exist
        if not re.search(r"\b%s::%s\s*\(" % (handle_cls, handle_cls), handle_src):
            raise TranslateError("anchor not found: class " + handle_cls)
        handle_cls = None
    if handle_cls:
        _, hb = function_body(handle_src, r"\bbool\s+%s::handleToken\s*\(" % handle_cls, handle_cls + "::handleToken")
        hnodes = parse_stmts(hb)
        if any(nd[0] == "if" for nd in hnodes):
            ents += keyed_parse_entries(hnodes, mem, prefix_cls, handle_cls + "::handleToken")
    P, sections = [], []
    for e in ents:
        if e["kind"] == "section":
            sections.append((e["key"], e["section"]))
            continue
        d = None
        if e["kind"] != "ignored":
            un = []
            d = default_of(dfl, e["field"], e["kind"], consts, un)
            for f in un:
                if (prefix_cls, f) not in UNINIT:
                    UNINIT.append((prefix_cls, f))
        P.append(dict(key=e["key"], field=e["field"], kind=e["kind"], tf=("id",), dflt=d, cap=None, enum=e.get("enum")))
    return P, sections


def positional_parse_labels(mem, src, cls):
    """CxBlockLabel::fromStream: sequence of `stream >> prop.X;` with fix-ups."""
    what = cls + "::fromStream"
    _, body = function_body(src, r"\b%s\s+%s::fromStream\s*\(" % (cls, cls), what)
    nodes = parse_stmts(body)
    cols = []
    flags_var = None
    for nd in nodes:
        if nd[0] == "stmt":
            t = nd[1]
            m = re.fullmatch(r"(\w+)\s*>>\s*([\w\.]+)", t)
            if m:
                tgt = m.group(2)
                if tgt.startswith("prop."):
                    f, k = field_kind(mem, cls, tgt)
                    cols.append(dict(field=f, kind=k, tf=("id",), opt=False))
                else:
                    flags_var = tgt
                    cols.append(dict(field=None, kind="int", tf=("bits", 0), opt=False, flags=[]))
                continue
            m = re.fullmatch(r"prop\.(\w+)\s*--", t)
            if m:
                c = [c for c in cols if c["field"] == m.group(1)]
                if not c or c[-1]["kind"] != "int":
                    raise TranslateError(what + ": -- on unread column " + t)
                c[-1]["tf"] = ("off", 1)
                continue
            m = re.fullmatch(r"prop\.(\w+)\s*=\s*(\w+)\s*&\s*(\d+)", t)
            if m and m.group(2) == flags_var:
                fc = [c for c in cols if c.get("flags") is not None][-1]
                fc["flags"].append((m.group(1), int(m.group(3))))
                continue
            m = re.fullmatch(r"parseString\s*\(\s*\w+\s*,\s*&prop\.(\w+)\s*\)", t)
            if m:
                cols.append(dict(field=m.group(1), kind="str", tf=("id",), opt=True))
                continue
            if re.match(r"^(std::string line|std::getline|trim|std::istringstream|%s prop|prop\.problem\s*=|int \w+(\s*=\s*0)?$|return prop)" % cls, t):
                continue
            raise TranslateError(what + ": unrecognised statement: " + t)
        elif nd[0] == "if":
            # MaxArea codec
            m = re.fullmatch(r"prop\.(\w+)\s*<=\s*0", nd[1].strip())
            ok = False
            if m and nd[3] and len(nd[2]) == 1 and len(nd[3]) == 1:
                a = nd[2][0][1]; b = nd[3][0][1]
                f = m.group(1)
                if re.fullmatch(r"prop\.%s\s*=\s*0" % f, a) and re.fullmatch(r"prop\.%s\s*\*=\s*PI\s*\*\s*prop\.%s\s*/\s*4\.?" % (f, f), b):
                    c = [c for c in cols if c["field"] == f]
                    if c:
                        c[-1]["tf"] = ("maxarea",)
                        ok = True
            if not ok:
                raise TranslateError(what + ": unrecognised conditional: " + nd[1])
        else:
            raise TranslateError(what + ": unrecognised construct")
    for c in cols:
        if c.get("flags") is not None:
            c["field"] = "|".join(f for f, b in sorted(c["flags"], key=lambda x: x[1]))
            c["tf"] = ("bits", sum(b for f, b in c["flags"]))
    return cols


def positional_parse_entity(mem, body_nodes, var, cls, ftype, what):
    """Inline entity loops of FemmReader::parse:  X.f = std::stod(line,&pos); line = line.substr(pos);"""
    cols = []

    def visit(nodes, opt):
        for nd in nodes:
            if nd[0] == "stmt":
                t = nd[1]
                m = re.fullmatch(r"%s(?:\.|->)(\w+)\s*=\s*(?:\(\s*0\s*!=\s*)?std::(stod|stoi)\s*\(\s*line\s*,\s*&pos\s*\)\s*\)?" % re.escape(var), t)
                if m:
                    f, k = field_kind(mem, cls, m.group(1))
                    want = {"stod": ("num",), "stoi": ("int", "bool")}[m.group(2)]
                    if k not in want:
                        raise TranslateError("%s: %s read with %s" % (what, f, m.group(2)))
                    if k == "bool" and "0 !=" not in t and "0!=" not in t:
                        raise TranslateError("%s: bool column read without 0 != : %s" % (what, t))
                    cols.append(dict(field=f, kind=k, tf=("id",), opt=opt))
                    continue
                m = re.fullmatch(r"%s(?:\.|->)(\w+)\s*--" % re.escape(var), t)
                if m:
                    c = [c for c in cols if c["field"] == m.group(1)]
                    if not c:
                        raise TranslateError(what + ": -- on unread column")
                    c[-1]["tf"] = ("off", 1)
                    continue
                m = re.fullmatch(r"%s(?:\.|->)(\w+)\s*=\s*%s(?:\.|->)(\w+)" % (re.escape(var), re.escape(var)), t)
                if m:
                    # mySideLength = MaxSideLength: default of an optional trailing column
                    cols.append(dict(field=m.group(1), kind="num", tf=("id",), opt=True, dflt_from=m.group(2), placeholder=True))
                    continue
                if re.match(r"^(size_t pos|C\w+ \w+|std::unique_ptr<.*|\w+ = MAKE_UNIQUE.*|trim\(line\)|line = line\.substr\(pos\)|problem->\w+\.push_back\(.*\)|num\+\+)$", t):
                    continue
                raise TranslateError(what + ": unrecognised statement: " + t)
            elif nd[0] == "if":
                c = norm_cond_filetype(nd[1])
                ft = cond_filetype(c, FT[ftype])
                if ft is True:
                    visit(nd[2], opt)
                elif ft is False:
                    if nd[3]:
                        visit(nd[3], opt)
                elif re.fullmatch(r"!\s*line\.empty\(\)", nd[1].strip()):
                    visit(nd[2], True)
                elif re.fullmatch(r"!\s*solutionReader", nd[1].strip()):
                    visit(nd[2], opt)
                else:
                    raise TranslateError(what + ": unrecognised condition " + nd[1])
            elif nd[0] == "block":
                visit(nd[1], opt)
            else:
                raise TranslateError(what + ": unrecognised construct")
    visit(body_nodes, False)
    # resolve placeholders (default of an optional column) against later real reads
    out = []
    for c in cols:
        if c.get("placeholder"):
            continue
        out.append(c)
    for c in cols:
        if c.get("placeholder"):
            real = [x for x in out if x["field"] == c["field"]]
            if real:
                real[-1]["dflt_from"] = c["dflt_from"]
    return out


def find_section_loop(nodes, key):
    """The `if (token == "[numxxx]")` node of FemmReader::parse."""
    for nd in flatten(nodes):
        if nd[0] == "if":
            ks = token_keys(nd[1])
            if ks and key in ks:
                return nd
    raise TranslateError("FemmReader::parse: section %s not found" % key)


def loop_body_of(nd, what):
    loops = [x for x in nd[2] if x[0] == "loop"]
    if len(loops) != 1:
        raise TranslateError(what + ": expected exactly one entity loop")
    return loops[0][2]


# ---------------------------------------------------------------------------------- main ----
def translate(src_root):
    """Returns dict name -> (parse entries, print entries) ; keyed and positional."""
    del UNINIT[:]
    L = os.path.join(src_root, "libfemm")
    mem = Members()
    for h in ["CMaterialProp.h", "CBoundaryProp.h", "CPointProp.h", "CCircuit.h", "CBlockLabel.h", "CNode.h",
              "CSegment.h", "CArcSegment.h", "FemmProblem.h", "feasolver.h"]:
        mem.add_header(os.path.join(L, h))
    for f, c in SOLVERS.values():
        mem.add_header(os.path.join(src_root, f[:-4] + ".h"))
    consts = {}
    for m in re.finditer(r"#define\s+(\w+)\s+([-+\d\.eE]+)\s*$", read(os.path.join(L, "femmconstants.h")), re.M):
        consts[m.group(1)] = m.group(2)
    out = {}
    files = {"CPointProp": "CPointProp.cpp", "CBoundaryProp": "CBoundaryProp.cpp", "CMaterialProp": "CMaterialProp.cpp",
             "CCircuit": "CCircuit.cpp", "CBlockLabel": "CBlockLabel.cpp"}
    # which classes the three readers are instantiated with (FemmReader.cpp, "template class femm::FemmReader<...>")
    rsrc0 = strip_comments(read(os.path.join(L, "FemmReader.cpp")))
    inst = re.findall(r"template\s+class\s+(?:femm::)?FemmReader\s*<([^>]*)>", rsrc0)
    classes = {}
    for args in inst:
        cl = [a.strip().split("::")[-1] for a in args.split(",")]
        if len(cl) != 5:
            raise TranslateError("FemmReader instantiation with %d arguments" % len(cl))
        ft = {"M": "fem", "S": "fee", "H": "feh"}.get(cl[0][1])
        if ft is None or ft in classes:
            raise TranslateError("cannot attribute FemmReader instantiation to a file type: " + args)
        classes[ft] = cl
    if sorted(classes) != ["fee", "feh", "fem"]:
        raise TranslateError("expected three FemmReader instantiations, found %r" % sorted(classes))
    # the solvers must read with the same classes (fsolver.h / esolver.h / hsolver.h)
    for ft, (sf, sc) in SOLVERS.items():
        hs = strip_comments(read(os.path.join(src_root, sf[:-4] + ".h")))
        m = re.search(r"class\s+%s\s*:\s*public\s+FEASolver\s*<([^>]*)>" % sc, hs)
        if not m:
            raise TranslateError("anchor not found: class %s : public FEASolver<...>" % sc)
        cl = [a.strip().split("::")[-1] for a in m.group(1).split(",")][:5]
        if cl != classes[ft]:
            raise TranslateError("%s reads with %r but the %s reader with %r" % (sc, cl, ft, classes[ft]))
    out["_classes"] = classes
    for ft in ("fem", "fee", "feh"):
        for cls in classes[ft][:4]:
            base = cls
            while mem.cls.get(base, (None,))[0]:
                base = mem.cls[base][0]
            if base not in files:
                raise TranslateError("no source file known for class " + cls)
            src = strip_comments(read(os.path.join(L, files[base])))
            out[cls] = keyed_class(mem, src, cls, consts)

    # ---- global header ---------------------------------------------------------------
    rsrc = strip_comments(read(os.path.join(L, "FemmReader.cpp")))
    psrc = strip_comments(read(os.path.join(L, "FemmProblem.cpp")))
    ssrc = strip_comments(read(os.path.join(L, "feasolver.cpp")))
    pdfl = ctor_defaults(psrc.replace("femm::FemmProblem::FemmProblem", "FemmProblem::FemmProblem"), "FemmProblem", consts, mem)
    sdfl = ctor_defaults(re.sub(r"FEASolver<[^>]*>\s*::FEASolver", "FEASolver::FEASolver", ssrc), "FEASolver", consts, mem)
    _, wbody = function_body(psrc, r"\bvoid\s+femm::FemmProblem::writeProblemDescription\s*\(\s*std::ostream\s*&\s*output\s*\)", "FemmProblem::writeProblemDescription")
    wnodes = parse_stmts(wbody)
    _, rbody = function_body(rsrc, r"::parse\s*\(\s*const\s+std::string\s*&\s*file\s*\)", "FemmReader::parse")
    rnodes = parse_stmts(rbody)
    sections = {}
    for ft in ("fem", "fee", "feh"):
        P, secs = header_parse(mem, rsrc, r"::parse\s*\(\s*const\s+std::string\s*&\s*file\s*\)", "FemmProblem",
                               rsrc, READERS[ft], consts, pdfl, "FemmReader::parse")
        w = PrintWalker(mem, "FemmProblem", ft, "output", "writeProblemDescription[%s]" % ft)
        w.walk(wnodes)
        W = [e for e in w.entries if e["kind"] != "section"]
        W = merge_enum_consts(W, P, mem)
        out["Header." + ft] = (P, W)
        sections[ft] = dict(parse=secs, print=[e["key"] for e in w.entries if e["kind"] == "section"])
        # the solver's own reader
        sf, sc = SOLVERS[ft]
        hsrc = strip_comments(read(os.path.join(src_root, sf)))
        mem.cls.setdefault(sc, ("FEASolver", {}))
        PS, _ = header_parse(mem, ssrc, r"::LoadProblemFile\s*\(\s*std::string\s*&\s*file\s*\)", sc, hsrc, sc, consts,
                             dict(sdfl, **ctor_defaults(hsrc, sc, consts, mem)), "FEASolver::LoadProblemFile", prefix_cls=sc)
        out["SolverHeader." + ft] = (PS, rename_fields(W, {"problemType": "ProblemType"}))
        # ---- entity lines (positional) ---------------------------------------------------
        ent_w = {k: (lines, ents) for k, lines, ents in w.sections}
        for key, var, cls, name in (("[numpoints]", "node", "CNode", "Node"), ("[numsegments]", "segm", "CSegment", "Segment"),
                                    ("[numarcsegments]", "asegm", "CArcSegment", "Arc"), ("[numholes]", "label", "CBlockLabel", "Hole")):
            nd = find_section_loop(rnodes, key)
            cols = positional_parse_entity(mem, loop_body_of(nd, key), var, cls, ft, "FemmReader::parse " + key)
            wkey = [k for k in ent_w if k.lower() == key]
            if not wkey or len(ent_w[wkey[0]][0]) != 1:
                raise TranslateError("writeProblemDescription: no single positional line for " + key)
            out["%s.%s" % (name, ft)] = positional_pair(cols, ent_w[wkey[0]][0][0], mem, cls, read_ctor(L, cls), consts)
    lsrc = strip_comments(read(os.path.join(L, "CBlockLabel.cpp")))
    for cls in [classes[ft][4] for ft in ("fem", "feh", "fee")]:
        cols = positional_parse_labels(mem, lsrc, cls)
        what = cls + "::toStream"
        _, body = function_body(lsrc, r"\bvoid\s+%s::toStream\s*\(\s*(?:std::)?ostream\s*&\s*out\s*\)" % cls, what)
        w = PrintWalker(mem, cls, None, "out", what)
        w.walk(parse_stmts(body))
        if len(w.lines) != 1 or w.entries:
            raise TranslateError(what + ": expected one positional line")
        out[cls] = positional_pair(cols, w.lines[0], mem, cls, lsrc, consts)
    out["_sections"] = sections
    out["_uninit"] = list(UNINIT)
    return out


def read_ctor(L, cls):
    fs = {"CNode": ["CNode.cpp"], "CSegment": ["CSegment.cpp"], "CArcSegment": ["CSegment.cpp", "CArcSegment.cpp"],
          "CBlockLabel": ["CBlockLabel.cpp"]}[cls]
    return "\n".join(strip_comments(read(os.path.join(L, f))) for f in fs).replace("femm::CNode::CNode", "CNode::CNode")


def rename_fields(W, ren):
    out = []
    for e in W:
        e = dict(e)
        if e["src"][0] == "field" and e["src"][1] in ren:
            e["src"] = ("field", ren[e["src"][1]])
        e["cond"] = tuple(rename_cond(c, ren) for c in e["cond"])
        out.append(e)
    return out


def rename_cond(c, ren):
    if c[0] in ("strnonempty", "numnonzero"):
        return (c[0], ren.get(c[1], c[1]))
    if c[0] == "symis":
        return (c[0], ren.get(c[1], c[1]), c[2])
    if c[0] == "not":
        return ("not", rename_cond(c[1], ren))
    return (c[0], rename_cond(c[1], ren), rename_cond(c[2], ren))


def merge_enum_consts(W, P, mem):
    """`[ProblemType] =  planar` under `problemType == PLANAR` / else  ->  one enum entry."""
    out, done = [], set()
    enums_of = {"ProblemType": ["PLANAR", "AXISYMMETRIC"], "CoordsType": ["CART", "POLAR"]}
    for e in W:
        if e["src"][0] == "const" and num_literal(e["src"][1], {}) is None and e["cond"]:
            last = e["cond"][-1]
            neg = last[0] == "not"
            core = last[1] if neg else last
            if core[0] == "symis":
                f, en = core[1], core[2]
                if neg:
                    ty = mem.type_of("FemmProblem", f).split(":")[1]
                    others = [x for x in enums_of.get(ty, []) if x != en]
                    if len(others) != 1:
                        raise TranslateError("else-branch of a test on a non-binary enum: " + f)
                    en = others[0]
                key = e["key"]
                tgt = [x for x in out if x["key"] == key and x["kind"] == "enum"]
                if tgt:
                    tgt[0]["enum"].append((en, e["src"][1]))
                else:
                    out.append(dict(key=key, src=("field", f), kind="enum", tf=("id",), cond=e["cond"][:-1], enum=[(en, e["src"][1])]))
                continue
        out.append(e)
    return out


def positional_pair(pcols, wcols, mem, cls, ctor_src, consts):
    """Columns -> keyed schemas with key "c<i>"."""
    dfl = ctor_defaults(ctor_src, cls, consts, mem)
    P, W = [], []
    for i, c in enumerate(pcols):
        if "|" in c["field"]:
            d = ("int", 0)
        else:
            d = default_of(dfl, c["field"], c["kind"], consts, None)
        P.append(dict(key="c%d" % i, field=c["field"], kind=c["kind"], tf=c["tf"], dflt=d, cap=None, enum=None,
                      opt=c.get("opt", False), dflt_from=c.get("dflt_from")))
    for i, c in enumerate(wcols):
        W.append(dict(key="c%d" % i, src=("field", c["field"]), kind=c["kind"], tf=c["tf"], cond=c["cond"], quoted=c.get("quoted")))
    return P, W


# ------------------------------------------------------------------------------ Coq output --
def cq(s):
    return '"' + s.replace('"', '""') + '"'


def coq_kind(k, enum=None, cap=None, side="p"):
    if k == "int":
        return "KInt"
    if k == "num":
        return "KNum"
    if k == "bool":
        return "KBool"
    if k == "str":
        return "KStr"
    if k == "tab":
        return "(KTab %s)" % ("(Some %d%%nat)" % cap if cap else "None")
    if k == "enum":
        return "(KEnum [%s])" % "; ".join("(%s, %s)" % (cq(a), cq(b)) for a, b in enum)
    raise TranslateError("kind " + str(k))


def coq_tf(t):
    return {"id": "TId", "maxarea": "TMaxArea", "negm1": "TNegM1"}.get(t[0]) or \
        ("(TOff %d)" % t[1] if t[0] == "off" else "(TBits %d)" % t[1])


def coq_z(z):
    return "(%d)%%Z" % z


def coq_dflt(d):
    if d is None:
        return "(DInt 0)"
    if d[0] == "int":
        return "(DInt %s)" % coq_z(d[1])
    if d[0] == "dec":
        return "(DDec %s %s)" % (coq_z(d[1]), coq_z(d[2]))
    if d[0] == "str":
        return "(DStr %s)" % cq(d[1])
    if d[0] == "tab":
        return "DTab"
    if d[0] == "sym":
        return "(DSym %s)" % cq(d[1])
    raise TranslateError("default " + str(d))


def coq_cond(cs):
    def one(c):
        if c[0] == "strnonempty":
            return "(CStrNonEmpty %s)" % cq(c[1])
        if c[0] == "numnonzero":
            return "(CNumNonZero %s)" % cq(c[1])
        if c[0] == "symis":
            return "(CSymIs %s %s)" % (cq(c[1]), cq(c[2]))
        if c[0] == "not":
            return "(CNot %s)" % one(c[1])
        if c[0] == "and":
            return "(CAnd %s %s)" % (one(c[1]), one(c[2]))
        if c[0] == "or":
            return "(COr %s %s)" % (one(c[1]), one(c[2]))
        raise TranslateError("cond " + str(c))
    if not cs:
        return "CAlways"
    r = one(cs[0])
    for c in cs[1:]:
        r = "(CAnd %s %s)" % (r, one(c))
    return r


def coq_src(e):
    s = e["src"]
    if s[0] == "field":
        return "(SField %s)" % cq(s[1])
    lit = num_literal(s[1], {})
    if lit is None:
        return "(SConstWord %s)" % cq(s[1])
    if lit[0] == "int":
        return "(SConstInt %s)" % coq_z(lit[1])
    return "(SConstDec %s %s)" % (coq_z(lit[1]), coq_z(lit[2]))


def ident(name):
    return re.sub(r"\W", "_", name)


def table_field(e):
    return e["field"]


def emit(schemas):
    L = ["(* GENERATED by tools/translate_schema.py from the snapshot of /repo — do not edit. *)",
         "From Coq Require Import String List ZArith.", "From XF Require Import Schema.",
         "Import ListNotations.", "Local Open Scope string_scope.", ""]
    names = [n for n in schemas if not n.startswith("_")]
    for n in names:
        P, W = schemas[n]
        L.append("Definition ps_%s : parse_schema := [" % ident(n))
        rows = []
        for e in P:
            k = e["kind"]
            if k == "ignored":
                rows.append("  mkPE %s \"\" KNum TId (DInt 0)" % cq(e["key"]))
                continue
            rows.append("  mkPE %s %s %s %s %s" % (cq(e["key"]), cq(e["field"]), coq_kind(k, e.get("enum"), e.get("cap")),
                                                  coq_tf(e["tf"]), coq_dflt(e["dflt"])))
        L.append(";\n".join(rows) + "].")
        L.append("Definition pr_%s : print_schema := [" % ident(n))
        rows = []
        for e in W:
            k = e["kind"]
            if k is None:           # constant
                lit = num_literal(e["src"][1], {})
                k = "num" if lit is not None else "enum"
                kk = "KNum" if lit is not None else "(KEnum [])"
            else:
                kk = coq_kind(k, e.get("enum"), None)
            rows.append("  mkWE %s %s %s %s %s" % (cq(e["key"]), coq_src(e), kk, coq_tf(e["tf"]), coq_cond(e["cond"])))
        L.append(";\n".join(rows) + "].")
        L.append("")
    rw = [n for n in names if not n.startswith("SolverHeader")]
    ac = [n for n in names if n.startswith("SolverHeader")]
    L.append("(* reader/writer pairs of femmcli, fmesher and the post-processors *)")
    L.append("Definition gen_schemas : list named := [")
    L.append(";\n".join("  (%s, ps_%s, pr_%s)" % (cq(n), ident(n), ident(n)) for n in rw) + "].")
    L.append("(* the solvers' own header reader against the same writer: every written key must be accepted *)")
    L.append("Definition gen_accept_schemas : list named := [")
    L.append(";\n".join("  (%s, ps_%s, pr_%s)" % (cq(n), ident(n), ident(n)) for n in ac) + "].")
    cl = schemas.get("_classes", {})
    for ft in sorted(cl):
        L.append("Definition classes_%s : list string := [%s]." % (ft, "; ".join(cq(c) for c in cl[ft])))
    un = schemas.get("_uninit", [])
    L.append("(* numeric members read by a key but initialised by no constructor (value indeterminate when the key is absent) *)")
    L.append("Definition uninitialised_members : list (string * string) := [%s]." % "; ".join("(%s, %s)" % (cq(a), cq(b)) for a, b in un))
    L.append("")
    # sections: which classes the readers instantiate for each "[xxxprops]" key, per file type
    sec = schemas.get("_sections", {})
    L.append("(* section keys accepted by FemmReader::parse / written by writeProblemDescription *)")
    for ft in sorted(sec):
        L.append("Definition sections_parse_%s : list (string * string) := [%s]." % (
            ft, "; ".join("(%s, %s)" % (cq(k), cq(c)) for k, c in sec[ft]["parse"])))
        L.append("Definition sections_print_%s : list string := [%s]." % (
            ft, "; ".join(cq(k) for k in sec[ft]["print"])))
    return "\n".join(L) + "\n"


def main(src_root, out_path):
    sch = translate(src_root)
    txt = emit(sch)
    if out_path == "-":
        sys.stdout.write(txt)
    else:
        os.makedirs(os.path.dirname(out_path), exist_ok=True)
        try:
            if open(out_path).read() == txt:
                return sch
        except OSError:
            pass
        open(out_path, "w").write(txt)
    return sch


if __name__ == "__main__":
    main(sys.argv[1], sys.argv[2] if len(sys.argv) > 2 else "-")
