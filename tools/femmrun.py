"""Run problems end to end through the real femmcli (Lua): open -> analyze -> loadsolution ->
queries.  Shared by the run-relation checks (C06, C10, C11, C13, C17)."""
import os, re
import vlib, femgen

PRE = {"fee": ("ei", "eo"), "feh": ("hi", "ho"), "fem": ("mi", "mo")}
EXT = {"fee": ".fee", "feh": ".feh", "fem": ".fem"}


def lua_num(x):
    return "%.17g" % x


def query_script(kind, path, queries, analyze=True):
    """queries: list of tuples
       ('point', x, y)            -> all return values of xo_getpointvalues
       ('block', [(x,y),...], t)  -> xo_blockintegral(t) over the blocks containing the points
       ('cond', name)             -> xo_getconductorproperties / mo_getcircuitproperties
       ('line', [(x,y),...], t)   -> xo_lineintegral(t) along the contour
       ('nodes',)                 -> number of nodes and elements
    """
    pi, po = PRE[kind]
    L = ['function out(tag, ...)', '  local s = "R " .. tag', '  for i = 1, arg.n do',
         '    if arg[i] == nil then s = s .. " nil"',
         '    elseif type(arg[i]) == "number" then s = s .. " " .. format("%.17g", arg[i])',
         '    else s = s .. " " .. tostring(arg[i]) end', '  end', '  print(s)', 'end',
         'open("%s")' % path]
    if analyze:
        L.append("%s_analyze(1)" % pi)
    L.append("%s_loadsolution()" % pi)
    for k, q in enumerate(queries):
        tag = "q%d" % k
        if q[0] == "point":
            L.append('out("%s", %s_getpointvalues(%s, %s))' % (tag, po, lua_num(q[1]), lua_num(q[2])))
        elif q[0] == "block":
            L.append("%s_clearblock()" % po)
            for (x, y) in q[1]:
                L.append("%s_selectblock(%s, %s)" % (po, lua_num(x), lua_num(y)))
            L.append('out("%s", %s_blockintegral(%d))' % (tag, po, q[2]))
            L.append("%s_clearblock()" % po)
        elif q[0] == "cond":
            fn = "mo_getcircuitproperties" if kind == "fem" else po + "_getconductorproperties"
            L.append('out("%s", %s("%s"))' % (tag, fn, q[1]))
        elif q[0] == "condc":
            # complex circuit properties of a time-harmonic magnetics solution: re/im of current, voltage, flux linkage
            L.append('c_i, c_v, c_f = mo_getcircuitproperties("%s")' % q[1])
            L.append('out("%s", re(c_i), im(c_i), re(c_v), im(c_v), re(c_f), im(c_f))' % tag)
        elif q[0] == "line":
            L.append("%s_clearcontour()" % po)
            for (x, y) in q[1]:
                L.append("%s_addcontour(%s, %s)" % (po, lua_num(x), lua_num(y)))
            L.append('out("%s", %s_lineintegral(%d))' % (tag, po, q[2]))
            L.append("%s_clearcontour()" % po)
        elif q[0] == "nodes":
            L.append('out("%s", %s_numnodes(), %s_numelements())' % (tag, po, po))
    L.append('print("R done")')
    return "\n".join(L) + "\n"


def parse_output(out):
    res = {}
    for line in out.split("\n"):
        if not line.startswith("R "):
            # the solvers print progress without a newline ("Iteration(5) R q0 ...")
            i = line.find(" R q")
            j = line.find(" R done")
            k = min([x for x in (i, j) if x >= 0], default=-1)
            if k >= 0:
                line = line[k + 1:]
        if line.startswith("R "):
            t = line.split()
            if t[1] == "done":
                res["done"] = True
                continue
            vals = []
            for x in t[2:]:
                try:
                    vals.append(float(x))
                except ValueError:
                    vals.append(x)
            res[t[1]] = vals
    return res


def run(ctx, p, queries, name, workdir=None, timeout=300):
    """write problem p, run femmcli with the query script; returns (results dict, error str)"""
    kind = p["kind"]
    wd = workdir or ctx.work
    f = os.path.join(wd, name + EXT[kind])
    femgen.write(p, f)
    return run_file(ctx, kind, f, queries, timeout)


def run_file(ctx, kind, f, queries, timeout=300, analyze=True):
    lua = f[:-4] + ".lua"
    open(lua, "w").write(query_script(kind, f, queries, analyze))
    rc, out, err = vlib.sh([ctx.snap.tool("femmcli"), "--lua-script=" + lua], timeout=timeout, cwd=os.path.dirname(f))
    res = parse_output(out)
    if rc != 0 or not res.get("done"):
        return res, "femmcli failed (rc=%d): %s" % (rc, (out + err)[-400:])
    return res, None


def read_solution(kind, base):
    """nodal solution written by the solver: list of (x, y, V[, ...]) and elements"""
    ext = {"fee": ".res", "feh": ".anh", "fem": ".ans"}[kind]
    txt = open(base + ext, errors="replace").read()
    i = txt.find("[Solution]")
    lines = txt[i:].split("\n")[1:]
    n = int(lines[0].split()[0])
    nodes = []
    for l in lines[1:1 + n]:
        t = l.split()
        nodes.append(tuple(float(x) for x in t))
    m = int(lines[1 + n].split()[0])
    elems = []
    for l in lines[2 + n:2 + n + m]:
        t = l.split()
        elems.append(tuple(int(x) for x in t[:4]))
    return nodes, elems
