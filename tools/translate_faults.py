"""C20 translator: cfemm sources -> coq/theories/gen/FaultTable.v

For every tool / femmcli command of property C20 this script reads, by regular expressions over a
FIXED list of anchors (functions named below), the sequence of load steps (which file role is
opened, or which content requirement of the problem is tested), what the step returns on failure,
and whether EVERY caller up to main tests that result (or only prints it / drops it), and with
which process exit status.  One step = one row of `table` in gen/FaultTable.v (types in Faults.v).

Honest limits: this is pattern matching, not a C++ front end.  A shape that is not in the list of
recognised shapes raises vlib.TranslateError (reported by the framework as a broken tie) instead
of guessing.  What the rows claim is checked on every run against the real binaries by
tools/props/c20.py, row by row.

usage:  translate(src_root) -> (coq_text, rows)      rows: list of dicts (also put in the evidence)
        python3 tools/translate_faults.py [src_root]  prints the table
"""
import os, re, sys

try:
    import vlib
    TranslateError = vlib.TranslateError
except Exception:                                    # stand-alone use
    class TranslateError(Exception):
        pass


# ------------------------------------------------------------------------------ C++ text ----
def strip_comments(s):
    """Remove // and /* */ comments, keep string literals."""
    out, i, n = [], 0, len(s)
    while i < n:
        c = s[i]
        if c == '"' or c == "'":
            j = i + 1
            while j < n and s[j] != c:
                j += 2 if s[j] == "\\" else 1
            out.append(s[i:j + 1]); i = j + 1
        elif s.startswith("//", i):
            j = s.find("\n", i)
            i = n if j < 0 else j
        elif s.startswith("/*", i):
            j = s.find("*/", i + 2)
            i = n if j < 0 else j + 2
        else:
            out.append(c); i += 1
    return "".join(out)


_DEBUG_BLOCK = re.compile(r"^[ \t]*#[ \t]*ifdef[ \t]+DEBUG\w*[ \t]*\n.*?^[ \t]*#[ \t]*endif[^\n]*\n", re.M | re.S)


def load(src, rel):
    p = os.path.join(src, rel)
    if not os.path.exists(p):
        raise TranslateError("anchor file missing: %s" % rel)
    t = open(p, "rb").read().decode("latin1").replace("\r\n", "\n").replace("\r", "\n")
    t = strip_comments(t)
    t = _DEBUG_BLOCK.sub("", t)          # '#ifdef DEBUG... #endif' trace blocks sit between sprintf and fopen
    return t


def skip_literal(s, i):
    c = s[i]
    j = i + 1
    while j < len(s) and s[j] != c:
        j += 2 if s[j] == "\\" else 1
    return j + 1


def balanced(s, i, op="{", cl="}"):
    """s[i] == op; index just after the matching cl."""
    assert s[i] == op, (s[i:i + 20], op)
    depth, n = 0, len(s)
    while i < n:
        c = s[i]
        if c in "\"'":
            i = skip_literal(s, i); continue
        if c == op:
            depth += 1
        elif c == cl:
            depth -= 1
            if depth == 0:
                return i + 1
        i += 1
    raise TranslateError("unbalanced %s" % op)


def func_body(text, name_rx, what):
    """Body (between the outer braces) of the function whose definition matches name_rx\\s*(...) {"""
    for m in re.finditer(name_rx + r"\s*\(", text):
        j = balanced(text, m.end() - 1, "(", ")")
        k = j
        mm = re.compile(r"\s*(?:const\s*)?(?:override\s*)?\{").match(text, k)
        if mm:
            e = balanced(text, mm.end() - 1)
            return text[mm.end():e - 1]
    raise TranslateError("anchor not found: definition of %s" % what)


def block_after(s, i):
    """Statement or {block} starting at/after index i (whitespace skipped): (text, end)."""
    while i < len(s) and s[i] in " \t\n":
        i += 1
    if i < len(s) and s[i] == "{":
        e = balanced(s, i)
        return s[i + 1:e - 1], e
    # single statement (may itself be an if with a block; good enough: up to the first ';')
    j = i
    while j < len(s) and s[j] != ";":
        if s[j] in "\"'":
            j = skip_literal(s, j); continue
        if s[j] == "(":
            j = balanced(s, j, "(", ")"); continue
        j += 1
    return s[i:j + 1], j + 1


def block_result(blk):
    """What a failure branch does: ('return', expr) | ('lua_error', None) | None (only prints / nothing)."""
    if re.search(r"\blua_error\s*\(", blk):
        return ("lua_error", None)
    m = re.search(r"\breturn\b\s*([^;]*);", blk)
    if m:
        return ("return", m.group(1).strip())
    return None


def nospace(s):
    return re.sub(r"\s+", "", s)


def is_failure_test(cond, subj, fail):
    """Is `cond` (no spaces) exactly a test that is true when `subj` (a call or a variable holding
    its result; no spaces, regex-escaped by the caller) reports failure?  fail describes the
    callee: 'false' (bool, false on failure), 'success-var' (variable true on success),
    'nonzero' (int, non-zero on failure), 'ne:X' (X is the success value), 'code:X' (X is the
    failure value, other non-zero values are not failures)."""
    S = subj
    shapes = []
    if fail in ("false", "success-var"):
        shapes = [r"!" + S, S + r"!=true", S + r"==false", r"!\(" + S + r"\)"]
    elif fail == "nonzero":
        shapes = [S + r"!=0", S, S + r"<0", S + r">0"]
    elif fail.startswith("ne:"):
        shapes = [S + r"!=" + re.escape(fail[3:]), r"!\(" + S + "==" + re.escape(fail[3:]) + r"\)"]
    elif fail.startswith("code:"):
        shapes = [S + r"==" + re.escape(fail[5:]), S + r">1", S + r">=" + re.escape(fail[5:])]
    return any(re.fullmatch(x, cond) for x in shapes)


class H:
    """How one call is handled by the function that contains it."""

    def __init__(self, checked, kind=None, ret=None, how=""):
        self.checked, self.kind, self.ret, self.how = checked, kind, ret, how

    def __repr__(self):
        return "H(checked=%s, %s %s; %s)" % (self.checked, self.kind, self.ret, self.how)


def handling(body, call_rx, fail, what, nth=0):
    """Find the (first) call matching call_rx in body and classify what the caller does with a
    failure result.  Recognised shapes:
       if (<failure test on the call>) { ... return E; | lua_error(...) }      -> checked
       if (<test> && other) { no return }   /  bare call statement               -> ignored
       V = call; [later] if (<failure test on V>) { ... return E; }              -> checked
       V = call; return V;     /   return call;                                   -> propagated
    anything else -> TranslateError."""
    ms = list(re.finditer(call_rx, body))
    if len(ms) <= nth:
        raise TranslateError("anchor not found: call of %s" % what)
    m = ms[nth]
    # end of the call's argument list
    p = body.find("(", m.start())
    call_end = balanced(body, p, "(", ")")
    call_txt = nospace(body[m.start():call_end])
    # start of the enclosing statement
    i = m.start() - 1
    depth = 0
    while i >= 0:
        c = body[i]
        if c == ")":
            depth += 1
        elif c == "(":
            depth -= 1
        elif c in ";{}" and depth <= 0:
            break
        i -= 1
    head = body[i + 1:m.start()]
    hs = head.strip()
    mi = re.match(r"(?:else\s+)?if\s*\(", hs)
    if mi:
        # the call sits inside an if condition
        ci = body.find("(", i + 1 + head.find("if"))
        ce = balanced(body, ci, "(", ")")
        cond = nospace(body[ci + 1:ce - 1])
        blk, _ = block_after(body, ce)
        res = block_result(blk)
        # strip one pair of redundant parentheses
        c2 = cond
        if "&&" in c2 or "||" in c2:
            if res is None:
                return H(False, how="result only used in `if (%s)` whose branch neither returns nor raises" % cond)
            raise TranslateError("unrecognised shape around %s: compound condition `%s` with a returning branch" % (what, cond))
        if is_failure_test(c2, re.escape(call_txt), fail):
            if res is None:
                return H(False, how="failure branch of `if (%s)` neither returns nor raises" % cond)
            return H(True, res[0], res[1], how="if (%s) -> %s %s" % (cond, res[0], res[1] or ""))
        raise TranslateError("unrecognised shape around %s: `if (%s)`" % (what, cond))
    if re.match(r"return\b", hs):
        return H(True, "propagate", None, how="return %s" % call_txt)
    ma = re.search(r"(\w+)\s*=\s*\(?\s*$", hs)
    if ma:
        var = ma.group(1)
        se = body.find(";", call_end)
        stmt = nospace(body[m.start():se])
        vfail = fail
        if re.search(r"==F_FILE_OK\)?$", stmt):
            vfail = "success-var"
        rest = body[se + 1:]
        # return V;
        mr = re.match(r"\s*return\s+" + var + r"\s*;", rest)
        if mr:
            return H(True, "propagate", None, how="%s = call; return %s" % (var, var))
        for mm in re.finditer(r"\bif\s*\(", rest):
            ci = mm.end() - 1
            ce = balanced(rest, ci, "(", ")")
            cond = nospace(rest[ci + 1:ce - 1])
            if not re.search(r"\b%s\b" % var, cond):
                continue
            blk, _ = block_after(rest, ce)
            res = block_result(blk)
            if "&&" in cond or "||" in cond:
                if res is None:
                    continue
                raise TranslateError("unrecognised shape around %s: compound condition `%s` with a returning branch" % (what, cond))
            if is_failure_test(cond, var, vfail):
                if res is None:
                    return H(False, how="failure branch of `if (%s)` neither returns nor raises" % cond)
                return H(True, res[0], res[1], how="%s = call; if (%s) -> %s %s" % (var, cond, res[0], res[1] or ""))
            # a test of the variable that is not a failure test (e.g. `if (!V && verbose)` prints)
            if res is None:
                continue
            raise TranslateError("unrecognised shape around %s: `if (%s)` on the stored result" % (what, cond))
        return H(False, how="result stored in `%s` and never tested by a returning branch" % var)
    if hs == "" or re.fullmatch(r"[\w.\->:]*", hs):
        return H(False, how="bare call statement, result dropped")
    raise TranslateError("unrecognised shape around %s: statement starts with `%s`" % (what, hs[:60]))


def fopen_sites(body, what):
    """All `V = fopen(ARG, "MODE")` in body with their NULL test:
    list of dict(pos, var, arg, mode, checked, ret)."""
    out = []
    for m in re.finditer(r"(\w+)\s*=\s*fopen\s*\(", body):
        p = m.end() - 1
        e = balanced(body, p, "(", ")")
        args = body[p + 1:e - 1]
        ma = re.match(r"\s*(.*?)\s*,\s*\"(\w+)\"\s*$", args, re.S)
        if not ma:
            raise TranslateError("unrecognised fopen arguments in %s: %s" % (what, args))
        var, arg, mode = m.group(1), nospace(ma.group(1)), ma.group(2)
        d = dict(pos=m.start(), var=var, arg=arg, mode=mode, checked=False, ret=None)
        # shape 1:  if ((V = fopen(..)) == NULL) {... return E;}
        pre = nospace(body[max(0, m.start() - 40):m.start()])
        post = body[e:]
        m1 = re.match(r"\s*\)\s*==\s*NULL\s*\)", post)
        if pre.endswith("if((") and m1:
            blk, _ = block_after(post, m1.end())
            r = block_result(blk)
            if r and r[0] == "return":
                d.update(checked=True, ret=r[1])
        else:
            # shape 2:  V = fopen(..); if (V == NULL) {... return E;}   (also `NULL != (V=fopen())` is not a failure branch)
            m2 = re.match(r"\s*;\s*if\s*\(\s*(?:%s\s*==\s*NULL|!\s*%s|NULL\s*==\s*%s)\s*\)" % (var, var, var), post)
            if m2:
                blk, _ = block_after(post, m2.end())
                r = block_result(blk)
                if r and r[0] == "return":
                    d.update(checked=True, ret=r[1])
        out.append(d)
    return out


def ifstream_open(body, what):
    """`input.open(...); if (!input.is_open()) {... return E;}` -> (checked, ret)"""
    m = re.search(r"\binput\.open\s*\(", body)
    if not m:
        raise TranslateError("anchor not found: input.open in %s" % what)
    e = balanced(body, m.end() - 1, "(", ")")
    m2 = re.match(r"\s*;\s*if\s*\(\s*!\s*input\.is_open\s*\(\s*\)\s*\)", body[e:])
    if not m2:
        return (False, None)
    blk, _ = block_after(body[e:], m2.end())
    r = block_result(blk)
    if r and r[0] == "return":
        return (True, r[1])
    return (False, None)


def enum_values(text, name):
    m = re.search(r"\benum\s+(?:class\s+)?%s\s*\{([^}]*)\}" % name, text)
    if not m:
        raise TranslateError("anchor not found: enum %s" % name)
    vals, k = {}, 0
    for item in m.group(1).split(","):
        item = item.strip()
        if not item:
            continue
        if "=" in item:
            nm, v = [x.strip() for x in item.split("=")]
            k = int(v, 0)
        else:
            nm = item
        vals[nm] = k
        k += 1
    return vals


def define_value(text, name):
    m = re.search(r"^[ \t]*#[ \t]*define[ \t]+%s[ \t]+(-?\d+)" % name, text, re.M)
    if not m:
        raise TranslateError("anchor not found: #define %s" % name)
    return int(m.group(1))


def truthiness(expr, enums):
    """C++ truth value of a return expression converted to bool: True / False / None (unknown)."""
    e = expr.strip()
    if e in ("false", "0", "NULL", "nullptr"):
        return False
    if e == "true":
        return True
    if re.fullmatch(r"-?\d+", e):
        return int(e) != 0
    if e in enums:
        return enums[e] != 0
    return None


# ------------------------------------------------------------------------------ solvers ----
SOLVERS = {
    "Mag": dict(cls="FSolver", dir="fsolver", file="fsolver/fsolver.cpp", ext=".fem", sol=".ans",
                writes=[("WriteStatic2D", "fsolver/static2d.cpp"), ("WriteHarmonic2D", "fsolver/harmonic2d.cpp")]),
    "Ele": dict(cls="ESolver", dir="esolver", file="esolver/esolver.cpp", ext=".fee", sol=".res",
                writes=[("WriteResults", "esolver/esolver.cpp")]),
    "Heat": dict(cls="HSolver", dir="hsolver", file="hsolver/hsolver.cpp", ext=".feh", sol=".anh",
                 writes=[("WriteResults", "hsolver/hsolver.cpp")]),
}
MESH_ROLE = {".node": "MeshNode", ".pbc": "MeshPbc", ".ele": "MeshEle", ".edge": "MeshEdge"}


def element_guards(body, fn, cond, errs, bool_fn=False):
    """Content requirements tested while elements are read (body of an element-reading function).
    Returns function-level steps.  A requirement whose data IS used (labellist[elm.lbl]) but whose
    guard is not found is reported as an unchecked step.  bool_fn: the reader returns bool (false on
    failure) instead of a LoadMeshErr code."""
    def is_failure_value(g):
        t = truthiness(g, errs)
        return (t is False) if bool_fn else (t is True)
    steps = []
    uses = re.search(r"labellist\s*\[\s*elm\.lbl\s*\]", body)
    if not uses:
        return steps
    # region without a block label: element attribute 0 -> lbl -1 (after the default label was tried)
    g = None
    for m in re.finditer(r"\bif\s*\(\s*elm\.lbl\s*<\s*0\s*\)", body):
        blk, _ = block_after(body, m.end())
        r = block_result(blk)
        if r and r[0] == "return" and m.start() < uses.start():
            g = r[1]
            break
    if g is not None and is_failure_value(g):
        steps.append(dict(step="%s:elm.lbl<0" % fn, role="Regions", cond=cond, inner="fail", ret=g,
                          how="if (elm.lbl<0) -> return %s" % g))
    else:
        steps.append(dict(step="%s:elm.lbl<0" % fn, role="Regions", cond=cond, inner="unchecked", ret=None,
                          how="labellist[elm.lbl] is indexed without an `elm.lbl<0` test that returns an error"))
    # label number beyond the label list (a problem without block labels still yields elements with label 1)
    g = None
    for m in re.finditer(r"\bif\s*\(", body):
        ce = balanced(body, m.end() - 1, "(", ")")
        c = nospace(body[m.end():ce - 1])
        if "elm.lbl" in c and ("labellist.size()" in c or "NumBlockLabels" in c) and m.start() < uses.start():
            blk, _ = block_after(body, ce)
            r = block_result(blk)
            if r and r[0] == "return":
                g = r[1]
                break
    if g is not None and is_failure_value(g):
        steps.append(dict(step="%s:elm.lbl>=labels" % fn, role="Labels", cond=cond, inner="fail", ret=g,
                          how="label range test -> return %s" % g))
    else:
        steps.append(dict(step="%s:elm.lbl>=labels" % fn, role="Labels", cond=cond, inner="unchecked", ret=None,
                          how="labellist[elm.lbl] is indexed without a test of elm.lbl against the number of labels"))
    return steps


def solver_steps(src, p):
    """Function-level steps of one solver class:
    list of dict(fn, step, role, cond, inner, needed, how) in execution order; inner is
      'false'  - the entry point (LoadProblemFile / runSolver) returns false on this failure
      'true'   - it returns a value that converts to true (failure turned into success)
      'unchecked' - the failure is not tested inside the entry point."""
    S = SOLVERS[p]
    cls = S["cls"]
    txt = load(src, S["file"])
    fea = load(src, "libfemm/feasolver.cpp")
    errs = enum_values(load(src, "libfemm/feasolver.h"), "LoadMeshErr")
    if errs.get("NOERROR") != 0:
        raise TranslateError("LoadMeshErr::NOERROR is not 0")
    steps = []

    # ---- LoadProblemFile: the problem file itself (libfemm/feasolver.cpp) ----
    fb = func_body(fea, r"::LoadProblemFile", "FEASolver::LoadProblemFile")
    ck, ret = ifstream_open(fb, "FEASolver::LoadProblemFile")
    inner_open = "fail" if (ck and truthiness(ret, errs) is False) else "unchecked"
    lp = func_body(txt, cls + r"::LoadProblemFile", cls + "::LoadProblemFile")
    if not re.search(r'PathName\s*\+\s*"%s"' % re.escape(S["ext"]), lp):
        raise TranslateError("anchor not found: %s::LoadProblemFile does not build PathName+\"%s\"" % (cls, S["ext"]))
    h = handling(lp, r"FEASolver_type::LoadProblemFile\s*\(", "false", cls + "::LoadProblemFile -> FEASolver::LoadProblemFile")
    if inner_open == "fail" and h.checked and (h.kind == "propagate" or truthiness(h.ret, errs) is False):
        inner = "false"
    elif inner_open == "fail" and h.checked:
        inner = "true"
    else:
        inner = "unchecked"
    steps.append(dict(fn="LoadProblemFile", step="LoadProblemFile:" + S["ext"], role="Problem", cond="Always",
                      inner=inner, needed=True, how="ifstream open test: %s; %s" % ("returns " + str(ret) if ck else "none", h.how)))

    # ---- fsolver: previous solution inside LoadProblemFile ----
    if p == "Mag":
        if not re.search(r"if\s*\(\s*!\s*previousSolutionFile\.empty\s*\(\s*\)\s*\)", lp):
            raise TranslateError("anchor not found: FSolver::LoadProblemFile `if (!previousSolutionFile.empty())`")
        hp = handling(lp, r"\bloadPreviousSolution\s*\(", "false", "FSolver::LoadProblemFile -> loadPreviousSolution")
        lps = func_body(txt, r"FSolver::loadPreviousSolution", "FSolver::loadPreviousSolution")
        sites = [s for s in fopen_sites(lps, "loadPreviousSolution") if "previousSolutionFile" in s["arg"]]
        if len(sites) != 1:
            raise TranslateError("anchor not found: fopen(previousSolutionFile) in FSolver::loadPreviousSolution")
        s = sites[0]
        ok = s["checked"] and truthiness(s["ret"], errs) is False
        if ok and hp.checked and (hp.kind == "propagate" or truthiness(hp.ret, errs) is False):
            inner = "false"
        elif ok and hp.checked:
            inner = "true"
        else:
            inner = "unchecked"
        steps.append(dict(fn="LoadProblemFile", step="LoadProblemFile:loadPreviousSolution", role="PrevSolution", cond="IfPrev",
                          inner=inner, needed=True, how="fopen NULL test returns %s; %s" % (s["ret"], hp.how)))
        # elements read from the previous solution
        le = func_body(txt, r"FSolver::LoadMeshElementsFromSolution", "FSolver::LoadMeshElementsFromSolution")
        if not re.search(r"\bLoadMeshElementsFromSolution\s*\(", lps):
            raise TranslateError("anchor not found: loadPreviousSolution -> LoadMeshElementsFromSolution")
        for g in element_guards(le, "LoadMeshElementsFromSolution", "IfPrev", errs, bool_fn=True):
            # the reader's result is not looked at by loadPreviousSolution: a guard would have to be propagated
            hh = handling(lps, r"\bLoadMeshElementsFromSolution\s*\(", "false", "loadPreviousSolution -> LoadMeshElementsFromSolution")
            inner = "unchecked"
            if g["inner"] == "fail" and hh.checked and (hh.kind == "propagate" or truthiness(hh.ret, errs) is False) and \
               hp.checked and (hp.kind == "propagate" or truthiness(hp.ret, errs) is False):
                inner = "false"
            steps.append(dict(fn="LoadProblemFile", step="LoadProblemFile:" + g["step"], role=g["role"], cond="IfPrev",
                              inner=inner, needed=True, how=g["how"] + "; " + hh.how))

    # ---- runSolver ----
    rs = func_body(txt, cls + r"::runSolver", cls + "::runSolver")
    hm = handling(rs, r"\bLoadMesh\s*\(\s*\)", "ne:NOERROR", cls + "::runSolver -> LoadMesh")

    def via(h_call, step_ok):
        """Entry-point-level result of a failure detected by a step inside a callee."""
        if not step_ok or not h_call.checked:
            return "unchecked"
        if h_call.kind == "propagate":
            return "false"
        t = truthiness(h_call.ret, errs)
        if t is None:
            raise TranslateError("cannot evaluate `return %s` in %s::runSolver" % (h_call.ret, cls))
        return "true" if t else "false"

    lm = func_body(txt, cls + r"::LoadMesh", cls + "::LoadMesh")
    mesh_cond = "Always"
    if p == "Mag":
        if re.search(r"if\s*\(\s*meshLoadedFromPrevSolution\s*\)\s*\{?\s*return\s+NOERROR\s*;", lm):
            mesh_cond = "IfNoPrev"
        else:
            raise TranslateError("anchor not found: FSolver::LoadMesh `if (meshLoadedFromPrevSolution) return NOERROR`")
    seen = {}
    sites = fopen_sites(lm, cls + "::LoadMesh")
    for s in sites:
        if s["arg"] != "infile" or s["mode"] not in ("rt", "r"):
            raise TranslateError("unexpected fopen in %s::LoadMesh: %s" % (cls, s))
        sp = list(re.finditer(r"sprintf\s*\(\s*infile\s*,\s*\"%s(\.\w+)\"", lm[:s["pos"]]))
        if not sp:
            raise TranslateError("anchor not found: sprintf(infile, \"%%s.ext\") before fopen in %s::LoadMesh" % cls)
        ext = sp[-1].group(1)
        if ext not in MESH_ROLE or ext in seen:
            raise TranslateError("unexpected mesh file extension %s in %s::LoadMesh" % (ext, cls))
        seen[ext] = 1
        ok = s["checked"] and s["ret"] in errs and errs[s["ret"]] != 0
        steps.append(dict(fn="runSolver", step="LoadMesh:" + ext, role=MESH_ROLE[ext], cond=mesh_cond,
                          inner=via(hm, ok), needed=True,
                          how="fopen NULL test returns %s; %s" % (s["ret"], hm.how)))
        if ext == ".ele":
            for g in element_guards(lm, "LoadMesh", mesh_cond, errs):
                steps.append(dict(fn="runSolver", step=g["step"], role=g["role"], cond=mesh_cond,
                                  inner=via(hm, g["inner"] == "fail"), needed=True, how=g["how"] + "; " + hm.how))
    if set(seen) != set(MESH_ROLE):
        raise TranslateError("%s::LoadMesh does not open all of .node .pbc .ele .edge (found %s)" % (cls, sorted(seen)))

    # ---- hsolver: previous solution in runSolver ----
    if p == "Heat":
        lpv = func_body(txt, r"HSolver::LoadPrev", "HSolver::LoadPrev")
        if not re.search(r"if\s*\(\s*previousSolutionFile\.empty\s*\(\s*\)\s*\)", lpv):
            raise TranslateError("anchor not found: HSolver::LoadPrev `if (previousSolutionFile.empty())`")
        sites = [s for s in fopen_sites(lpv, "LoadPrev") if "previousSolutionFile" in s["arg"]]
        if len(sites) != 1:
            raise TranslateError("anchor not found: fopen(previousSolutionFile) in HSolver::LoadPrev")
        s = sites[0]
        ok = s["checked"] and s["ret"] in errs and errs[s["ret"]] > 1     # 0 = loaded, true(1) = nothing to load
        hp = handling(rs, r"\bLoadPrev\s*\(\s*\)", "code:" + (s["ret"] or "?"), "HSolver::runSolver -> LoadPrev")
        if rs.find("LoadPrev") < rs.find("LoadMesh"):
            raise TranslateError("HSolver::runSolver calls LoadPrev before LoadMesh")
        # is the previous temperature used by the assembly?
        rest = txt.replace(lpv, "")
        needed = bool(re.search(r"\bTprev\s*\[", rest))
        steps.append(dict(fn="runSolver", step="runSolver:LoadPrev", role="PrevSolution", cond="IfPrev",
                          inner=via(hp, ok), needed=needed,
                          how="fopen NULL test returns %s; %s; Tprev[] used by the assembly: %s" % (s["ret"], hp.how, needed)))

    # ---- writing the result ----
    for (wname, wfile) in S["writes"]:
        wtxt = load(src, wfile)
        wb = func_body(wtxt, cls + "::" + wname, cls + "::" + wname)
        hw = handling(rs, r"\b%s\s*\(\s*L\s*\)" % wname, "false", cls + "::runSolver -> " + wname)
        for s in fopen_sites(wb, wname):
            sp = list(re.finditer(r"sprintf\s*\(\s*%s\s*,\s*\"%%s(\.\w+)\"" % re.escape(s["arg"]), wb[:s["pos"]]))
            if not sp:
                raise TranslateError("anchor not found: sprintf before fopen in %s::%s" % (cls, wname))
            ext = sp[-1].group(1)
            ok = s["checked"] and truthiness(s["ret"], errs) is False
            if s["mode"].startswith("r") and ext == S["ext"]:
                role = "Problem"
            elif s["mode"].startswith("w") and ext == S["sol"]:
                role = "Output"
            else:
                raise TranslateError("unexpected fopen(%s, %s) in %s::%s" % (ext, s["mode"], cls, wname))
            steps.append(dict(fn="runSolver", step="%s:%s(%s)" % (wname, ext, s["mode"]), role=role, cond="Always",
                              inner=via(hw, ok), needed=True,
                              how="fopen NULL test returns %s; %s" % (s["ret"], hw.how)))
    return steps


def caller_row(st, h_lp, h_rs, exit_of, success_exit):
    """Turn a function-level solver step into an end-to-end row for one caller (a solver's main or a
    femmcli analyze command).  h_lp / h_rs: how the caller handles LoadProblemFile() / runSolver();
    exit_of(H) gives the process exit status of a checked failure."""
    h = h_lp if st["fn"] == "LoadProblemFile" else h_rs
    how = st["how"] + " | caller: " + h.how
    if st["inner"] == "unchecked":
        return dict(checked=False, exit=0, needed=st["needed"], how=how)
    if st["inner"] == "true":
        # the entry point reports success although the step failed
        if st["fn"] == "runSolver":
            return dict(checked=True, exit=success_exit, needed=True, how=how + " | failure returned as a true value")
        return dict(checked=False, exit=0, needed=True, how=how + " | failure returned as a true value")
    if h.checked:
        return dict(checked=True, exit=exit_of(h), needed=True, how=how)
    # the caller drops the entry point's result
    if st["fn"] == "runSolver":
        return dict(checked=True, exit=success_exit, needed=True, how=how + " | nothing follows: the caller finishes successfully")
    return dict(checked=False, exit=0, needed=True, how=how + " | the caller carries on with an unloaded problem")


def mesher_write_steps(wp, fn):
    """Places where FMesher::<fn> writes files, in order: `fopen(plyname, "wt")` sites and calls of
    TriangulateHelper::writeTriangulationFiles (bool, false on failure).
    kind: 'fail' (function returns non-zero), 'dropped-needed' (result dropped and the files are read
    back afterwards), 'dropped' (result dropped, nothing reads the files again)."""
    body = func_body(wp, r"FMesher::" + fn, "FMesher::" + fn)
    ev = []
    for s in fopen_sites(body, fn):
        if not s["mode"].startswith("w"):
            continue
        ma = list(re.finditer(r"plyname\s*=[^;]*\+\s*\"(\.\w+)\"\s*;", body[:s["pos"]]))
        ext = ma[-1].group(1) if ma else "?"
        if s["checked"] and re.fullmatch(r"-?\d+", s["ret"] or "") and int(s["ret"]) != 0:
            ev.append((s["pos"], dict(step="%s(wt)" % ext, kind="fail", how="fopen NULL test returns %s" % s["ret"])))
        else:
            ev.append((s["pos"], dict(step="%s(wt)" % ext, kind="dropped-needed", how="fopen(\"wt\") result not tested")))
    calls = list(re.finditer(r"\btriHelper\.writeTriangulationFiles\s*\(", body))
    if not calls:
        raise TranslateError("anchor not found: writeTriangulationFiles in FMesher::" + fn)
    for k, m in enumerate(calls):
        h = handling(body, r"\btriHelper\.writeTriangulationFiles\s*\(", "false", fn + " -> writeTriangulationFiles", nth=k)
        name = "writeTriangulationFiles#%d" % (k + 1)
        if h.checked:
            if h.kind == "return" and re.fullmatch(r"-?\d+", h.ret or "") and int(h.ret) != 0:
                ev.append((m.start(), dict(step=name, kind="fail", how=h.how)))
            else:
                raise TranslateError("cannot evaluate the handling of writeTriangulationFiles in %s: %s" % (fn, h.how))
        else:
            readback = bool(re.search(r"fopen\s*\(\s*plyname\.c_str\s*\(\s*\)\s*,\s*\"rt?\"", body[m.end():]))
            ev.append((m.start(), dict(step=name, kind="dropped-needed" if readback else "dropped",
                                       how=h.how + ("; the written files are read back afterwards" if readback else "; nothing reads them again"))))
    # TriangulateHelper::writeTriangulationFiles itself: every fopen("wt") tested
    wb = func_body(wp, r"TriangulateHelper::writeTriangulationFiles", "TriangulateHelper::writeTriangulationFiles")
    ws = [s for s in fopen_sites(wb, "writeTriangulationFiles") if s["mode"].startswith("w")]
    if not ws or not all(s["checked"] and s["ret"] == "false" for s in ws):
        raise TranslateError("TriangulateHelper::writeTriangulationFiles: an fopen(\"wt\") is not tested with `return false`")
    ev.sort(key=lambda x: x[0])
    return [e for _, e in ev]


# ------------------------------------------------------------------------------ all tools ----
def translate(src):
    rows = []

    def add(tool, step, role, cond, checked, exit_, needed, how):
        rows.append(dict(tool=tool, step=step, role=role, cond=cond, checked=bool(checked), exit=int(exit_),
                         needed=bool(needed), how=how))

    reader_h = load(src, "libfemm/FemmReader.h")
    reader = load(src, "libfemm/FemmReader.cpp")
    presult = enum_values(reader_h, "ParserResult")
    if presult.get("F_FILE_OK") != 0:
        raise TranslateError("ParserResult::F_FILE_OK is not 0")
    pb = func_body(reader, r"::parse", "FemmReader::parse")
    ck, ret = ifstream_open(pb, "FemmReader::parse")
    parse_fail = presult.get(ret) if ck else None          # status FemmReader::parse returns when the open fails
    parse_ok = ck and parse_fail not in (None, 0)

    # ---- fmesher ----
    mb = func_body(load(src, "fmesher/main.cpp"), r"\bint\s+main", "fmesher main")
    success = re.findall(r"\breturn\s+(-?\d+)\s*;", mb)
    if not success or success[-1] != "0":
        raise TranslateError("fmesher main does not end in `return 0`")
    n = len(re.findall(r"\bstatus\s*=\s*\w+Reader\.parse\s*\(\s*FilePath\s*\)", mb))
    if n != 3:
        raise TranslateError("fmesher main: expected 3 `status = <x>Reader.parse(FilePath)`, found %d" % n)
    h = handling(mb, r"\w+Reader\.parse\s*\(", "ne:F_FILE_OK", "fmesher main -> FemmReader::parse")
    if parse_ok and h.checked:
        if h.ret == "status":
            code = parse_fail
        elif re.fullmatch(r"-?\d+", h.ret or ""):
            code = int(h.ret)
        else:
            raise TranslateError("fmesher main: cannot evaluate `return %s`" % h.ret)
        add("Fmesher", "main:parse", "Problem", "Always", True, code, True, "FemmReader::parse returns %s; %s" % (ret, h.how))
    else:
        add("Fmesher", "main:parse", "Problem", "Always", False, 0, True, "FemmReader::parse open test: %s; %s" % (ret, h.how))
    if not re.search(r"if\s*\(\s*MeshObj\.HasPeriodicBC\s*\(\s*\)\s*(?:==\s*true\s*)?\)", mb):
        raise TranslateError("anchor not found: fmesher main `if (MeshObj.HasPeriodicBC() == true)`")
    wp = load(src, "fmesher/writepoly.cpp")
    mesher = {}
    for fn, cond in (("DoPeriodicBCTriangulation", "IfPeriodic"), ("DoNonPeriodicBCTriangulation", "IfNotPeriodic")):
        mesher[fn] = mesher_write_steps(wp, fn)
        h = handling(mb, r"MeshObj\.%s\s*\(" % fn, "nonzero", "fmesher main -> " + fn)
        if h.checked and not re.fullmatch(r"-?\d+", h.ret or ""):
            raise TranslateError("fmesher main: cannot evaluate `return %s`" % h.ret)
        for st in mesher[fn]:
            step = "%s:%s" % (fn, st["step"])
            if st["kind"] == "fail":            # the function returns non-zero
                if h.checked:
                    add("Fmesher", step, "Output", cond, True, int(h.ret), True, st["how"] + " | main: " + h.how)
                else:
                    add("Fmesher", step, "Output", cond, True, 0, True, st["how"] + " | main: " + h.how + " | main finishes with return 0")
            elif st["kind"] == "dropped-needed":
                add("Fmesher", step, "Output", cond, False, 0, True, st["how"])
            else:                                # dropped, nothing reads the files again: the function returns 0
                add("Fmesher", step, "Output", cond, True, 0, True, st["how"] + " | the function and main return 0")

    # ---- solvers ----
    per_solver = {}
    for p in ("Mag", "Ele", "Heat"):
        S = SOLVERS[p]
        steps = solver_steps(src, p)
        per_solver[p] = steps
        mb = func_body(load(src, S["dir"] + "/main.cpp"), r"\bint\s+main", S["dir"] + " main")
        rets = re.findall(r"\breturn\s+(-?\d+)\s*;", mb)
        if not rets or rets[-1] != "0":
            raise TranslateError("%s main does not end in `return 0`" % S["dir"])
        h_lp = handling(mb, r"\w+\.LoadProblemFile\s*\(\s*\)", "false", S["dir"] + " main -> LoadProblemFile")
        h_rs = handling(mb, r"\w+\.runSolver\s*\(", "false", S["dir"] + " main -> runSolver")
        if mb.find("LoadProblemFile") > mb.find("runSolver"):
            raise TranslateError("%s main calls runSolver before LoadProblemFile" % S["dir"])

        def exit_of(h, d=S["dir"]):
            if h.kind != "return" or not re.fullmatch(r"-?\d+", h.ret or ""):
                raise TranslateError("%s main: cannot evaluate `%s %s`" % (d, h.kind, h.ret))
            return int(h.ret)
        for st in steps:
            r = caller_row(st, h_lp, h_rs, exit_of, 0)
            add("Solver " + p, st["step"], st["role"], st["cond"], r["checked"], r["exit"], r["needed"], r["how"])

    # ---- femmcli: process status of a Lua error / of an unreadable script ----
    lua_h = load(src, "libfemm/liblua/lua.h")
    ERRRUN, ERRFILE = define_value(lua_h, "LUA_ERRRUN"), define_value(lua_h, "LUA_ERRFILE")
    ldo = load(src, "libfemm/liblua/ldo.cpp")
    dofile = func_body(ldo, r"\blua_dofile", "lua_dofile")
    pfile = func_body(ldo, r"\bparse_file", "parse_file (ldo.cpp)")
    script_open_checked = bool(re.search(r"fopen\s*\(\s*filename\s*,[^;]*;\s*if\s*\(\s*f\s*==\s*NULL\s*\)\s*return\s+LUA_ERRFILE\s*;", pfile)) and \
        bool(re.search(r"(\w+)\s*=\s*parse_file\s*\([^;]*;\s*if\s*\(\s*\1\s*==\s*0\s*\)[^;]*;\s*return\s+\1\s*;", dofile))
    cli = load(src, "femmcli/main.cpp")
    ex = func_body(cli, r"\bint\s+execLuaFile", "femmcli execLuaFile")
    cm = func_body(cli, r"\bint\s+main", "femmcli main")
    h_do = handling(ex, r"\bli\.doFile\s*\(\s*inputFile\s*\)", "nonzero", "execLuaFile -> doFile(inputFile)")
    # `int err = li.doFile(inputFile); switch(err) {...} return err;`
    m = re.search(r"(\w+)\s*=\s*li\.doFile\s*\(\s*inputFile\s*\)", ex)
    exec_returns_err = bool(m and re.search(r"\breturn\s+%s\s*;" % m.group(1), ex))
    h_main = handling(cm, r"\bexecLuaFile\s*\(", "nonzero", "femmcli main -> execLuaFile")
    propagated = exec_returns_err and h_main.checked and h_main.kind == "propagate"
    cli_how = "execLuaFile returns doFile's status: %s; main: %s" % (exec_returns_err, h_main.how)
    if not propagated:
        rets = re.findall(r"\breturn\s+(-?\d+)\s*;", cm)
        if not rets:
            raise TranslateError("femmcli main: no constant return found")
        lua_exit = int(rets[-1])        # whatever main returns at its end
        script_exit = lua_exit
    else:
        lua_exit, script_exit = ERRRUN, ERRFILE

    def lua_exit_of(h):
        if h.kind != "lua_error":
            raise TranslateError("femmcli command: failure branch is `%s %s`, not lua_error" % (h.kind, h.ret))
        return lua_exit

    add("CliScript", "execLuaFile:doFile", "Script", "Always", script_open_checked, script_exit, True,
        "parse_file: `if (f == NULL) return LUA_ERRFILE`, returned by lua_dofile: %s; %s" % (script_open_checked, cli_how))

    # ---- open("file") ----
    base = load(src, "femmcli/LuaBaseCommands.cpp")
    ob = func_body(base, r"LuaBaseCommands::luaOpenDocument", "luaOpenDocument")
    n = len(re.findall(r"\bok\s*=\s*\(\s*reader\.parse\s*\(\s*filename\s*\)\s*==\s*F_FILE_OK\s*\)", ob))
    if n != 3:
        raise TranslateError("luaOpenDocument: expected 3 `ok = (reader.parse(filename)==F_FILE_OK)`, found %d" % n)
    h = handling(ob, r"\breader\.parse\s*\(", "ne:F_FILE_OK", "luaOpenDocument -> FemmReader::parse")
    if parse_ok and h.checked:
        add("CliOpen", "luaOpenDocument:parse", "Problem", "Always", True, lua_exit_of(h), True, h.how + " | " + cli_how)
    else:
        add("CliOpen", "luaOpenDocument:parse", "Problem", "Always", False, 0, True, h.how)

    # ---- mi_/ei_/hi_analyze ----
    holes_are_labels = bool(re.search(r'"\[numholes\]"', reader)) and \
        bool(re.search(r"problem->labellist\.push_back", reader[reader.find('"[numholes]"'):reader.find('"[numholes]"') + 3000]))
    CMD = {"Mag": "femmcli/LuaMagneticsCommands.cpp", "Ele": "femmcli/LuaElectrostaticsCommands.cpp",
           "Heat": "femmcli/LuaHeatflowCommands.cpp"}
    NS = {"Mag": "LuaMagneticsCommands", "Ele": "LuaElectrostaticsCommands", "Heat": "LuaHeatflowCommands"}
    for p in ("Mag", "Ele", "Heat"):
        ab = func_body(load(src, CMD[p]), NS[p] + r"::luaAnalyze", NS[p] + "::luaAnalyze")
        tool = "CliAnalyze " + p
        # guards of the command itself (a missing guard is simply no row: the solver's own tests follow)
        m = re.search(r"\bif\s*\(\s*doc->labellist\.size\s*\(\s*\)\s*==\s*0\s*\)", ab)
        if m:
            blk, _ = block_after(ab, m.end())
            r = block_result(blk)
            if r and r[0] == "lua_error":
                add(tool, "luaAnalyze:labellist.size()==0", "Labels", "IfNoHoles" if holes_are_labels else "Always",
                    True, lua_exit, True, "if (doc->labellist.size()==0) -> lua_error; hole markers are kept in labellist: %s | %s"
                    % (holes_are_labels, cli_how))
        m = re.search(r"\bif\s*\(\s*hasMissingBlockProps\s*\)", ab)
        if m and re.search(r"hasMissingBlockProps\s*=\s*true", ab[:m.start()]):
            blk, _ = block_after(ab, m.end())
            r = block_result(blk)
            if r and r[0] == "lua_error":
                add(tool, "luaAnalyze:hasMissingBlockProps", "Material", "Always", True, lua_exit, True,
                    "if (hasMissingBlockProps) -> lua_error | " + cli_how)
        h = handling(ab, r"doc->saveFEMFile\s*\(", "false", NS[p] + "::luaAnalyze -> saveFEMFile")
        if h.checked:
            add(tool, "luaAnalyze:saveFEMFile", "Output", "Always", True, lua_exit_of(h), True, h.how + " | " + cli_how)
        else:
            add(tool, "luaAnalyze:saveFEMFile", "Output", "Always", False, 0, True, h.how)
        if not re.search(r"if\s*\(\s*mesherDoc->HasPeriodicBC\s*\(\s*\)\s*\)", ab):
            raise TranslateError("anchor not found: %s::luaAnalyze `if (mesherDoc->HasPeriodicBC())`" % NS[p])
        for fn, cond in (("DoPeriodicBCTriangulation", "IfPeriodic"), ("DoNonPeriodicBCTriangulation", "IfNotPeriodic")):
            h = handling(ab, r"mesherDoc->%s\s*\(" % fn, "nonzero", NS[p] + "::luaAnalyze -> " + fn)
            for st in mesher[fn]:
                step = "%s:%s" % (fn, st["step"])
                if st["kind"] == "fail":
                    if h.checked:
                        add(tool, step, "Output", cond, True, lua_exit_of(h), True, st["how"] + " | " + h.how + " | " + cli_how)
                    else:
                        add(tool, step, "Output", cond, False, 0, True, st["how"] + " | " + h.how)
                elif st["kind"] == "dropped-needed":
                    add(tool, step, "Output", cond, False, 0, True, st["how"])
                # 'dropped': the solver's LoadMesh follows and meets the missing mesh file; those rows are not
                # repeated for the analyze command (the command writes the mesh itself)
        h_lp = handling(ab, r"\w+\.LoadProblemFile\s*\(\s*\)", "false", NS[p] + "::luaAnalyze -> LoadProblemFile")
        h_rs = handling(ab, r"\w+\.runSolver\s*\(", "false", NS[p] + "::luaAnalyze -> runSolver")
        if not re.search(r"\b%s\s+\w+\s*;" % SOLVERS[p]["cls"], ab):
            raise TranslateError("%s::luaAnalyze does not instantiate %s" % (NS[p], SOLVERS[p]["cls"]))
        for st in per_solver[p]:
            # the command has just written the problem file and the mesh files itself
            if st["role"] in ("Problem", "MeshNode", "MeshPbc", "MeshEle", "MeshEdge"):
                continue
            r = caller_row(st, h_lp, h_rs, lua_exit_of, 0)
            add(tool, st["step"], st["role"], st["cond"], r["checked"], r["exit"], r["needed"], r["how"] + " | " + cli_how)

    # ---- mi_/ei_/hi_loadsolution ----
    common = load(src, "femmcli/LuaCommonCommands.cpp")
    lb = func_body(common, r"LuaCommonCommands::luaLoadSolution", "luaLoadSolution")
    h = handling(lb, r"pproc->OpenDocument\s*\(", "false", "luaLoadSolution -> OpenDocument")
    PP = {"Mag": ("fpproc/fpproc.cpp", r"FPProc::OpenDocument"), "Ele": ("epproc/epproc.cpp", r"ElectrostaticsPostProcessor::OpenDocument"),
          "Heat": ("hpproc/hpproc.cpp", r"HPProc::OpenDocument")}
    for p in ("Mag", "Ele", "Heat"):
        f, rx = PP[p]
        ob = func_body(load(src, f), rx, rx.replace("\\", ""))
        if p == "Mag":
            sites = [s for s in fopen_sites(ob, rx) if "pathname" in s["arg"]]
            if not sites:
                raise TranslateError("anchor not found: fopen(pathname) in FPProc::OpenDocument")
            ok = sites[0]["checked"] and truthiness(sites[0]["ret"], {}) is False
            how = "fopen NULL test returns %s" % sites[0]["ret"]
        else:
            hh = handling(ob, r"\breader\.parse\s*\(\s*solutionFile\s*\)", "ne:F_FILE_OK", rx + " -> FemmReader::parse")
            ok = parse_ok and hh.checked and truthiness(hh.ret or "", {}) is False
            how = hh.how
        if ok and h.checked:
            add("CliLoadSolution " + p, "luaLoadSolution:OpenDocument", "Solution", "Always", True, lua_exit_of(h), True,
                how + "; " + h.how + " | " + cli_how)
        else:
            add("CliLoadSolution " + p, "luaLoadSolution:OpenDocument", "Solution", "Always", False, 0, True, how + "; " + h.how)
    return render(rows), rows


def render(rows):
    L = ["(* GENERATED by tools/translate_faults.py from the cfemm sources of the snapshot under test.",
         "   DO NOT EDIT: rewritten on every ./check C20.  Row format: Faults.v (Record row). *)",
         "From Coq Require Import ZArith List String.",
         "From XF Require Import Faults.",
         "Import ListNotations.",
         "Local Open Scope string_scope.",
         "",
         "Definition table : list row := ["]
    body = []
    for r in rows:
        t = r["tool"]
        t = "(%s)" % t if " " in t else t
        e = "%d" % r["exit"] if r["exit"] >= 0 else "(%d)" % r["exit"]
        body.append('  mkRow %s "%s" %s %s %s %s%%Z %s' % (t, r["step"].replace('"', '""'), r["role"], r["cond"],
                                                          "true" if r["checked"] else "false", e,
                                                          "true" if r["needed"] else "false"))
    L.append(";\n".join(body))
    L.append("].")
    return "\n".join(L) + "\n"


if __name__ == "__main__":
    src = sys.argv[1] if len(sys.argv) > 1 else "/repo/cfemm"
    text, rows = translate(src)
    for r in rows:
        print("%-22s %-44s %-12s %-9s checked=%-5s exit=%-3d needed=%s" % (r["tool"], r["step"], r["role"], r["cond"], r["checked"], r["exit"], r["needed"]))
        if "-v" in sys.argv:
            print("      " + r["how"])
