#!/bin/sh
# stage a version of coq/_CoqProject that lists only .v files tracked (or staged) in git,
# without touching the working copy (other writers append to it concurrently)
cd /verif
tracked=$(git ls-files --cached coq/theories | sed 's#^coq/##')
blob=$(python3 - "$tracked" <<'PY' | git hash-object -w --stdin
import sys
tracked=set(sys.argv[1].split())
for l in open('/verif/coq/_CoqProject'):
    t=l.strip()
    if t.endswith('.v') and t not in tracked: continue
    sys.stdout.write(l)
PY
)
git update-index --cacheinfo 100644,$blob,coq/_CoqProject
git diff --cached --stat -- coq/_CoqProject
