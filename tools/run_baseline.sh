#!/bin/sh
# Build a scratch copy of /repo's working tree WITHOUT the verification guard and run the
# repository's own test suite on it.  usage: run_baseline.sh [repo-dir]
REPO=${1:-/repo}
W=/var/tmp/xfemm-verif/baseline-$$
rm -rf $W; mkdir -p $W/root
cp $REPO/README.md $W/root/ && rsync -a --exclude /bin $REPO/cfemm/ $W/root/cfemm/
cmake -G Ninja -S $W/root/cfemm -B $W/build -DCMAKE_BUILD_TYPE=RelWithDebInfo -DCMAKE_CXX_FLAGS=-Wno-error >$W/cmake.log 2>&1 || { tail $W/cmake.log; exit 2; }
ninja -C $W/build >$W/ninja.log 2>&1 || { tail -30 $W/ninja.log; exit 2; }
(cd $W/build && ctest -j8 --timeout 900 2>&1 | tail -15)
rm -rf $W
