(* Properties_C19_nl.v — (the C05 statements about what a Newton pass solves are in Properties_C05_nl.v)
   theorem statements about the NONLINEAR (B-H curve) loop of FSolver::Static2D
   (cfemm/fsolver/static2d.cpp:177-1016), serving C19's last clause ("a magnetostatic problem whose table is a
   straight line through the origin gives the same solution and energy as the linear material of that
   permeability, and the nonlinear iteration terminates") and C05 (the solution satisfies the discrete field
   equations, here with nu = nu(|B|)).  Model: AsmMNL.v (reuses AsmM.v, Sparse.v, BH.v); proofs: AsmMNLProofs.v.
   Real-number reading.  The linear solver is an arbitrary function [solve]; the loop has explicit fuel because
   the C++ loop has no iteration cap and its termination is not provable in general (see (g)). *)
From Coq Require Import ZArith List Bool Arith Lia Reals Lra.
From XF Require Import Arith Sparse SparseProofs AsmOps AsmOpsProofs AsmE AsmEProofs AsmM AsmMProofs BH.
Set Warnings "-ambiguous-paths".
From Coquelicot Require Import Coquelicot.
From XF Require Import BHProofs AsmMNL AsmMNLProofs AsmMNLDeriv.
Import ListNotations.
Local Open Scope R_scope.

(* ---------------------------------------------------------------------------------------------- *)
(* (a) reduction to the linear case                                                                 *)
(* ---------------------------------------------------------------------------------------------- *)
(* (a0) GetBHProps of a straight-line table (H_i = k B_i, slopes k, from B = 0): v = H/B = k and
        dv = d(H/B)/d(B^2) = 0 at EVERY flux density, inside and beyond the table *)
Theorem C19_nl_line_table_bhprops : forall (k : R) (Bd : list R) (mux muo B : R),
  incr Bd -> (2 <= length Bd)%nat -> hd 0 Bd = 0 ->
  getBHProps RA (line_mat (k, 0) Bd mux muo) B = (k, 0).
Proof. exact line_getBHProps. Qed.
Print Assumptions C19_nl_line_table_bhprops.

(* (a1) FIRST PASS, every problem (no hypothesis on the tables): Iter = 0 assembles exactly the linear problem
        whose permeabilities are the blocks' mu_x, mu_y (for a block with a table: the initial slope GetSlopes
        stored), and stores those permeabilities *)
Theorem C19_nl_first_pass_is_linear_initialisation :
  forall (P : mprob (F:=R)) (mats : list (mat (F:=R))) (res : list (nat * R * R)) (L0 : lin (F:=R)) (mus : list (R * R)),
  length mus = length (melems P) ->
  nl_pass RA P mats res 0 L0 mus = (asm_from P res L0, lin_mus P (melems P)).
Proof. exact nl_pass_first. Qed.
Print Assumptions C19_nl_first_pass_is_linear_initialisation.

(* asm_from is the linear assembly of C05's model started from a given CBigLinProb state: AsmM.asmM is
   asm_from the Create'd one *)
Theorem C19_nl_asm_from_is_the_linear_assembly : forall (P : mprob (F:=R)) (bw : nat) (prec : R),
  asmM RA P bw prec
    = (asm_from P (circ_results RA P) (lcreate RA (length (mnodes P)) bw prec (adec RA 15 (-1))), circ_results RA P).
Proof. exact asmM_is_asm_from. Qed.
Print Assumptions C19_nl_asm_from_is_the_linear_assembly.

(* (a2) LATER PASSES: if every block with a table is LamType 0 with a straight-line table whose permeability
        1/(muo k) is the block's effective first-pass permeability [el_lin_ok], then a pass started from the linear
        permeabilities assembles, for EVERY iterate V (it is in L0) and every pass number, exactly the linear system
        again (tangent term Mn = 0, permeabilities unchanged) *)
Theorem C19_nl_pass_assembles_linear_system :
  forall (P : mprob (F:=R)) (mats : list (mat (F:=R))) (res : list (nat * R * R)) (iter : nat) (L0 : lin (F:=R)),
  List.Forall (el_lin_ok P mats) (melems P) ->
  nl_pass RA P mats res iter L0 (lin_mus P (melems P)) = (asm_from P res L0, lin_mus P (melems P)).
Proof. exact nl_pass_line. Qed.
Print Assumptions C19_nl_pass_assembles_linear_system.

(* (a3) the whole loop, as an inductive invariant: from the initial state on, whatever the linear solver
        returns, EVERY pass assembles the linear system of the linear material (from the Create'd matrix in the
        first pass, from the Wipe'd one afterwards), and the invariant is re-established after the pass *)
Theorem C19_nl_every_pass_is_the_linear_system :
  forall (P : mprob (F:=R)) (mats : list (mat (F:=R))) (res : list (nat * R * R)) (st : nlstate (F:=R)),
  List.Forall (el_lin_ok P mats) (melems P) -> line_inv P st ->
  let '(L, mus, c) := st in
  nl_assemble RA P mats res st
    = (asm_from P res (if Nat.eqb (cIter c) 0 then L else wipe RA L), lin_mus P (melems P)) /\
  forall V, line_inv P (nl_after_solve RA st (fst (nl_assemble RA P mats res st)) (snd (nl_assemble RA P mats res st)) V).
Proof. exact nl_every_pass_line. Qed.
Print Assumptions C19_nl_every_pass_is_the_linear_system.

Theorem C19_nl_invariant_holds_initially :
  forall (P : mprob (F:=R)) (mats : list (mat (F:=R))) (bw : nat) (prec : R), line_inv P (nl_state0 RA P mats bw prec).
Proof. exact line_inv_state0. Qed.
Print Assumptions C19_nl_invariant_holds_initially.

Theorem C19_nl_loop_keeps_linear_permeabilities :
  forall (P : mprob (F:=R)) (mats : list (mat (F:=R))) (res : list (nat * R * R))
         (solve : nat -> lin (F:=R) -> option (list R)) (fuel : nat) (st : nlstate (F:=R)) (b : bool) (st' : nlstate (F:=R)),
  List.Forall (el_lin_ok P mats) (melems P) -> line_inv P st ->
  nl_iterate RA solve P mats res fuel st = Some (b, st') -> line_inv P st'.
Proof. intros P mats res solve fuel st b st'. apply nl_iterate_line. Qed.
Print Assumptions C19_nl_loop_keeps_linear_permeabilities.

(* (a5) the Wipe'd matrix of a later pass is as good as the Create'd one: the element loop started from the wiped
        matrix of ANY earlier state gives, row by row, the same equations M U - b as the element loop started from a
        fresh matrix (Wipe keeps the entries SetValue / Periodicity zeroed as explicit zeros, nothing else differs).
        With (a3): every pass of a straight-line problem poses the equations of the linear material's single pass. *)
Theorem C19_nl_wiped_start_poses_the_same_equations :
  forall (P : mprob (F:=R)) (res : list (nat * R * R)) (U : vecT R) (els : list (melem (F:=R))) (M : matrixT R) (i : nat),
  mat_wf M -> List.Forall (elem_okM (length M)) els -> (i < length M)%nat ->
  let sw := fold_left (melem_step RA P res) els (wipeM M, vzero RA (length M)) in
  let sf := fold_left (melem_step RA P res) els (mcreate RA (length M), vzero RA (length M)) in
  Ax (fst sw) U i - vget RA (snd sw) i = Ax (fst sf) U i - vget RA (snd sf) i.
Proof. exact wiped_start_same_rows. Qed.
Print Assumptions C19_nl_wiped_start_poses_the_same_equations.

Theorem C19_nl_wipe_is_wipeM : forall L : lin (F:=R),
  lM (wipe RA L) = wipeM (lM L) /\ lb (wipe RA L) = vzero RA (ln L) /\ Sparse.lV (wipe RA L) = Sparse.lV L.
Proof. exact wipe_lM. Qed.
Print Assumptions C19_nl_wipe_is_wipeM.

(* the hypothesis of (a2)/(a3) is satisfiable with a genuinely nonlinear-branch block *)
Example C19_nl_line_hypothesis_satisfiable :
  exists (P : mprob (F:=R)) (mats : list (mat (F:=R))),
    melems P <> [] /\ nl_any RA P mats = true /\ List.Forall (el_lin_ok P mats) (melems P).
Proof.
  exists (mkMProb 2 [mkMNode 0 0 None; mkMNode 1 0 None; mkMNode 0 1 None]
                  [mkMElem (0, 1, 2)%nat (None, None, None) 0 0 1 0]
                  [mkMBlock 2 2 0 0 0 0 0 0 0 0 1] [] [] [] [mkMLabel 0 None 1] []),
         [line_mat (1 / 2, 0) [0; 1] 2 1].
  split; [discriminate|]. split; [reflexivity|].
  constructor; [|constructor]. right. split; [reflexivity|].
  exists (1 / 2), [0; 1], 2. cbn. repeat split; try lra; try lia.
  unfold el_mu. cbn. ra_simpl. f_equal; field.
Qed.

(* (a4) REFUTED for laminations on edge (LamType 1, 2 with fill < 1): the passes after the first use
        mu1 = mu*fill where the first pass and the linear material use mu*fill + (1 - fill).  Witness: LamType 1,
        fill 1/2, straight-line table of relative permeability 2 = the block's mu_x: first pass (3/2, 4/3), later
        passes (1, 4/3), for every iterate.  Replayed on the binaries: findings/XNL-1.md *)
Theorem C19_nl_reduction_to_linear_lam_on_edge_refuted :
  exists (m : mat (F:=R)) (blk : mblock (F:=R)) (g : egeom (F:=R)),
    bLamType blk = 1%nat /\ incr (mB m) /\ hd 0 (mB m) = 0 /\
    (exists k, m = line_mat (k, 0) (mB m) (mMux m) (mMuo m) /\ 1 / (mMuo m * k) = bmux blk) /\
    forall Mx My V3, fst (nl_update RA m blk g Mx My V3 (el_mu RA blk)) <> el_mu RA blk.
Proof.
  exists wit_mat, wit_blk, wit_g.
  destruct wit_table_is_the_linear_material as (H1 & H2 & H3 & H4).
  split; [exact H4|]. split; [exact H1|]. split; [exact H2|]. split; [exists (1 / 2); split; [reflexivity|exact H3]|].
  intros Mx My V3. destruct (lam_on_edge_not_linear Mx My V3) as [E1 E2]. rewrite E2, E1.
  intros E. assert (E0 : fst (1, 4 / 3) = fst (3 / 2, 4 / 3) :> R) by (rewrite E; reflexivity). cbn in E0. lra.
Qed.
Print Assumptions C19_nl_reduction_to_linear_lam_on_edge_refuted.

(* ---------------------------------------------------------------------------------------------- *)
(* (b) what a Newton pass solves; fixed points satisfy the nonlinear equations                      *)
(* ---------------------------------------------------------------------------------------------- *)
(* (b1) THE NEWTON STEP, every element of every pass: with S, f = the linear element matrix / source vector for
        the permeability the pass computed from the previous iterate V [secant_matrices], the assembled local
        equation at any U is  (S V - f)_a + ((S + Mn)(U - V))_a :  nonlinear residual at V plus the tangent
        S + Mn applied to the step.  (Me' = S + Mn and be' = f + Mn V in the code.) *)

(* (b2) the secant matrix is minus the Galerkin matrix of curl(nu curl A) with nu = 1/mu of the update, and its
        source vector is the linear model's (so C05 (c1)-(c3) describe it) *)


(* (b3) the element loop of a pass, all meshes: row i of M U - b is the initial row minus the sum of the elements'
        assembled local equations *)

(* (b4) FIXED POINT: if the iterate V a pass was assembled from satisfies row i of that pass's element-loop system
        (started from the all-zero Create'd / Wipe'd matrix), then — and only then — the NONLINEAR equations
        sum_el [ K_el(nu(|B_el(V)|)) V - f_el ]_i = 0 hold at row i, with the permeabilities computed from V.
        (Rows touched by SetValue / periodicity afterwards are handled by C05 (f): same functions.) *)

(* (b5) THE TANGENT TERM (LamType 0): Mn[j][w] = (c/100) * dv * d(B^2)/dV_w * ((Mx+My) V)_j with dv = d(H/B)/d(B^2)
        of GetBHProps and c/100 = muo: minus the derivative of the secant row -(muo H/B)((Mx+My)V)_j through B^2 *)

(* (b6) dBsq is the gradient of the squared flux density Bsq with respect to the nodal values *)

(* ---------------------------------------------------------------------------------------------- *)
(* (d) the permeability update uses |B| = |curl of the interpolant| and mu = B/(muo H(B))             *)
(* ---------------------------------------------------------------------------------------------- *)
Theorem C19_nl_update_flux_density_is_curl : forall (g : egeom (F:=R)) (v0 v1 v2 : R),
  0 < ga g ->
  let V3 := [v0; v1; v2] in
  let dVdx := v0 * dphidx g 0 + v1 * dphidx g 1 + v2 * dphidx g 2 in
  let dVdy := v0 * dphidy g 0 + v1 * dphidy g 1 + v2 * dphidy g 2 in
  nl_Bmag RA (ga g) (sum3 RA (fun j => vget RA V3 j * vget RA (gq g) j)) (sum3 RA (fun j => vget RA V3 j * vget RA (gp g) j))
    = 100 * c4pi RA * sqrt (dVdx * dVdx + dVdy * dVdy).
Proof. exact nl_B_is_curl. Qed.
Print Assumptions C19_nl_update_flux_density_is_curl.

Theorem C19_nl_updated_permeability_is_B_over_H : forall (m : mat (F:=R)) (B : R),
  (0 < bhpoints m)%nat -> B <> 0 ->
  fst (getBHProps RA m B) = fst (getH RA m B) / Rabs B /\
  fst (nl_mu_of RA m B) = 1 / (mMuo m * (fst (getH RA m B) / Rabs B)).
Proof. intros m B Hn HB. split; [apply getBHProps_is_H_over_B|apply nl_mu_is_B_over_H]; auto. Qed.
Print Assumptions C19_nl_updated_permeability_is_B_over_H.

Theorem C19_nl_update_flux_density_squared : forall (g : egeom (F:=R)) (v0 v1 v2 : R), ga g <> 0 ->
  let V3 := [v0; v1; v2] in
  let B := nl_Bmag RA (ga g) (sum3 RA (fun j => vget RA V3 j * vget RA (gq g) j)) (sum3 RA (fun j => vget RA V3 j * vget RA (gp g) j)) in
  B * B = Bsq g v0 v1 v2.
Proof. exact nl_Bmag_sq. Qed.
Print Assumptions C19_nl_update_flux_density_squared.

(* ---------------------------------------------------------------------------------------------- *)
(* (c) the exit test                                                                                *)
(* ---------------------------------------------------------------------------------------------- *)
Theorem C19_nl_exit_means_last_change_below_tolerance : forall (prec : R) (Vold V : list R) (c : nlctl (F:=R)),
  cLinear c = false ->
  let c' := fst (nl_control RA prec Vold V c) in
  cLinear c' = true ->
  nl_y RA V = 0 \/
  ((0 < cIter c)%nat /\ cRes c' = sqrt (nl_x RA V Vold / nl_y RA V) /\ cRes c' < 100 * prec).
Proof. exact nl_exit_test. Qed.
Print Assumptions C19_nl_exit_means_last_change_below_tolerance.

Theorem C19_nl_loop_continues_above_tolerance : forall (prec : R) (Vold V : list R) (c : nlctl (F:=R)),
  cLinear c = false -> nl_y RA V <> 0 ->
  (cIter c = 0%nat \/ 100 * prec <= sqrt (nl_x RA V Vold / nl_y RA V)) ->
  cLinear (fst (nl_control RA prec Vold V c)) = false.
Proof. exact nl_no_exit. Qed.
Print Assumptions C19_nl_loop_continues_above_tolerance.

Theorem C19_nl_linear_problem_single_pass : forall (prec : R) (Vold V : list R) (c : nlctl (F:=R)),
  cLinear c = true -> cLinear (fst (nl_control RA prec Vold V c)) = true /\ snd (nl_control RA prec Vold V c) = V.
Proof. exact nl_linear_problem_one_pass. Qed.
Print Assumptions C19_nl_linear_problem_single_pass.

(* ---------------------------------------------------------------------------------------------- *)
(* (e) the relaxation schedule                                                                      *)
(* ---------------------------------------------------------------------------------------------- *)
Theorem C19_nl_relax_halves_or_creeps_up : forall res lastres relax : R,
  (lastres < res -> 1 / 8 < relax -> nl_relax RA res lastres relax = relax / 2) /\
  (~ (lastres < res /\ 1 / 8 < relax) -> nl_relax RA res lastres relax = relax + 1 / 10 * (1 - relax)).
Proof. exact nl_relax_rule. Qed.
Print Assumptions C19_nl_relax_halves_or_creeps_up.

Theorem C19_nl_relax_stays_in_range : forall (prec : R) (Vold V : list R) (c : nlctl (F:=R)),
  let c' := fst (nl_control RA prec Vold V c) in
  ((cIter c <= 5)%nat -> cRelax c' = cRelax c /\ snd (nl_control RA prec Vold V c) = V) /\
  (1 / 16 < cRelax c <= 1 -> 1 / 16 < cRelax c' <= 1).
Proof. exact nl_control_relax. Qed.
Print Assumptions C19_nl_relax_stays_in_range.

Theorem C19_nl_relaxed_iterate_is_convex_combination : forall (relax : R) (V Vold : vecT R) (i : nat),
  (i < length V)%nat -> length Vold = length V ->
  vget RA (nl_blend RA relax V Vold) i = relax * vget RA V i + (1 - relax) * vget RA Vold i.
Proof. exact nl_blend_nth. Qed.
Print Assumptions C19_nl_relaxed_iterate_is_convex_combination.
