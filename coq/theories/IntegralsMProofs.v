(* IntegralsMProofs.v — theorems about the model of the magnetics post-processor's block integrals
   (IntegralsM.v), real reading.  Planar magnetostatics with linear materials: the energy term is
   1/2 a_e^T K_e a_e with the solver's element matrix (AsmM.melem_matrices), the A.J term is the
   exact integral of the P1 potential times the element's current density, W = 1/2 int A.J when
   the nodal equations hold, flux linkage x current = int A.J over the circuit's blocks.  The
   lamination types 1 and 2 of CMMaterialProp::DoEnergy are refuted. *)
From Coq Require Import ZArith List Bool Arith Lia Reals Lra Permutation.
From XF Require Import Arith Sparse SparseProofs AsmOps AsmOpsProofs AsmE AsmM Sums
                       Integrals IntegralsProofs IntegralsE IntegralsEProofs IntegralsM.
Import ListNotations.
Local Open Scope R_scope.

(* ------------------------------------------------------------------------------------------ *)
(* complex helpers over R                                                                      *)
(* ------------------------------------------------------------------------------------------ *)
Section CplxM.
  Lemma cinv_mul (z : R * R) : z <> (0, 0) -> cmul RA (cinv RA z) z = (1, 0).
  Proof.
    destruct z as [a b]. intros Hz. unfold cinv, cmul. cbn [fst snd]. ra_simpl.
    destruct (Rltb (Rabs b) (Rabs a)) eqn:E.
    - apply Rltb_true in E. assert (Ha : a <> 0) by (intro H0; subst a; rewrite Rabs_R0 in E; pose proof (Rabs_pos b); lra).
      assert (Hd : a * (1 + b / a * (b / a)) <> 0).
      { apply Rmult_integral_contrapositive_currified; [exact Ha|]. nra. }
      cbn [fst snd]. f_equal; field; repeat split; try assumption; nra.
    - apply Rltb_false in E.
      assert (Hb : b <> 0).
      { intro H0. subst b. rewrite Rabs_R0 in E. destruct (Req_dec a 0) as [->|Ha]; [apply Hz; reflexivity|].
        apply E. apply Rabs_pos_lt. exact Ha. }
      assert (Hd : b * (1 + a / b * (a / b)) <> 0).
      { apply Rmult_integral_contrapositive_currified; [exact Hb|]. nra. }
      cbn [fst snd]. f_equal; field; repeat split; try assumption; nra.
  Qed.

  Lemma cmul_assoc_R (x y z : R * R) : cmul RA (cmul RA x y) z = cmul RA x (cmul RA y z).
  Proof. unfold cmul. cbn [fst snd]. ra_simpl. f_equal; ring. Qed.

  Lemma cmul_one_r (x : R * R) : cmul RA x (1, 0) = x.
  Proof. destruct x. unfold cmul. cbn [fst snd]. ra_simpl. f_equal; ring. Qed.

  (* (x / z) * z = x for the reciprocal-based CComplex division *)
  Lemma cdiv_cmul (x z : R * R) : z <> (0, 0) -> cmul RA (cdiv RA x z) z = x.
  Proof. intros Hz. unfold cdiv. rewrite cmul_assoc_R, cinv_mul by exact Hz. apply cmul_one_r. Qed.
End CplxM.

(* ------------------------------------------------------------------------------------------ *)
(* CMMaterialProp::DoEnergy, linear branch                                                      *)
(* ------------------------------------------------------------------------------------------ *)
Section DoEnergy.
  (* in-plane laminations or none (LamType 0): 1/2 (b1^2/mu1 + b2^2/mu2)/mu0 with the effective
     permeabilities mu = 1 + fill (mu_r - 1) — those of Static2D (AsmM.el_mu) *)
  Theorem do_energy_lam0 fx (m : im_mat) muo b1 b2 : im_lamtype m = 0%nat ->
    im_do_energy RA fx m muo b1 b2
    = (b1 * b1 / ((1 + im_lamfill m * (im_mux m - 1)) * muo) + b2 * b2 / ((1 + im_lamfill m * (im_muy m - 1)) * muo)) / 2.
  Proof.
    intros H. unfold im_do_energy, im_do_energy_asis, im_do_energy_intended. rewrite H.
    destruct fx; ra_simpl; unfold Rdiv; ring.
  Qed.

  Theorem do_energy_lam0_is_intended (m : im_mat) muo b1 b2 : im_lamtype m = 0%nat ->
    im_do_energy_asis RA m muo b1 b2 = im_do_energy_intended RA m muo b1 b2.
  Proof. intros H. unfold im_do_energy_asis, im_do_energy_intended. rewrite H. reflexivity. Qed.

  (* the repaired text (variant true; /repo fcf383d): laminations on edge store, per direction, the energy of that
     direction's own flux density component - parallel mixing of the permeabilities along the sheets, series mixing
     of the reluctivities across them *)
  Theorem do_energy_lam1_repaired (m : im_mat) muo b1 b2 : im_lamtype m = 1%nat ->
    im_do_energy RA true m muo b1 b2
    = (b1 * b1 / ((1 + im_lamfill m * (im_mux m - 1)) * muo)
       + b2 * b2 * (im_lamfill m / (im_muy m * muo) + (1 - im_lamfill m) / muo)) / 2.
  Proof.
    intros H. unfold im_do_energy, im_do_energy_intended. rewrite H. ra_simpl. unfold Rdiv; ring.
  Qed.

  Theorem do_energy_lam2_repaired (m : im_mat) muo b1 b2 : im_lamtype m = 2%nat ->
    im_do_energy RA true m muo b1 b2
    = (b1 * b1 * (im_lamfill m / (im_mux m * muo) + (1 - im_lamfill m) / muo)
       + b2 * b2 / ((1 + im_lamfill m * (im_muy m - 1)) * muo)) / 2.
  Proof.
    intros H. unfold im_do_energy, im_do_energy_intended. rewrite H. ra_simpl. unfold Rdiv; ring.
  Qed.

  (* ... and that energy is positive for every non-zero flux density (physical materials, fill in (0,1]) *)
  Theorem do_energy_repaired_positive (m : im_mat) muo b1 b2 :
    (im_lamtype m <= 2)%nat -> 0 < muo -> 1 <= im_mux m -> 1 <= im_muy m -> 0 < im_lamfill m <= 1 -> (b1, b2) <> (0, 0) ->
    0 < im_do_energy RA true m muo b1 b2.
  Proof.
    intros Hl Hmu Hx Hy [Ht0 Ht1] Hb.
    assert (Hsq : 0 < b1 * b1 + b2 * b2).
    { destruct (Req_dec b1 0) as [E1|N1]; destruct (Req_dec b2 0) as [E2|N2]; subst; try (exfalso; apply Hb; reflexivity); nra. }
    assert (Hpx : 0 < (1 + im_lamfill m * (im_mux m - 1)) * muo).
    { assert (0 <= im_lamfill m * (im_mux m - 1)) by (apply Rmult_le_pos; lra). apply Rmult_lt_0_compat; lra. }
    assert (Hpy : 0 < (1 + im_lamfill m * (im_muy m - 1)) * muo).
    { assert (0 <= im_lamfill m * (im_muy m - 1)) by (apply Rmult_le_pos; lra). apply Rmult_lt_0_compat; lra. }
    assert (Hsx : 0 < im_lamfill m / (im_mux m * muo) + (1 - im_lamfill m) / muo).
    { assert (0 < im_lamfill m / (im_mux m * muo)) by (apply Rdiv_lt_0_compat; [lra | apply Rmult_lt_0_compat; lra]).
      assert (0 <= (1 - im_lamfill m) / muo) by (unfold Rdiv; apply Rmult_le_pos; [lra | left; apply Rinv_0_lt_compat; lra]). lra. }
    assert (Hsy : 0 < im_lamfill m / (im_muy m * muo) + (1 - im_lamfill m) / muo).
    { assert (0 < im_lamfill m / (im_muy m * muo)) by (apply Rdiv_lt_0_compat; [lra | apply Rmult_lt_0_compat; lra]).
      assert (0 <= (1 - im_lamfill m) / muo) by (unfold Rdiv; apply Rmult_le_pos; [lra | left; apply Rinv_0_lt_compat; lra]). lra. }
    assert (Hix : 0 < / ((1 + im_lamfill m * (im_mux m - 1)) * muo)) by (apply Rinv_0_lt_compat; exact Hpx).
    assert (Hiy : 0 < / ((1 + im_lamfill m * (im_muy m - 1)) * muo)) by (apply Rinv_0_lt_compat; exact Hpy).
    assert (Q1 : 0 <= b1 * b1) by nra. assert (Q2 : 0 <= b2 * b2) by nra.
    assert (POS : forall p q, 0 < p -> 0 < q -> 0 < (b1 * b1 * p + b2 * b2 * q) * / 2).
    { intros p q Hp Hq.
      assert (0 <= b1 * b1 * p) by (apply Rmult_le_pos; lra).
      assert (0 <= b2 * b2 * q) by (apply Rmult_le_pos; lra).
      assert (0 < b1 * b1 * p + b2 * b2 * q).
      { destruct (Rle_lt_or_eq_dec _ _ Q1) as [L|L].
        - assert (0 < b1 * b1 * p) by (apply Rmult_lt_0_compat; lra). lra.
        - assert (0 < b2 * b2) by lra. assert (0 < b2 * b2 * q) by (apply Rmult_lt_0_compat; lra). lra. }
      lra. }
    destruct (im_lamtype m) as [|[|[|k]]] eqn:E; [| | |lia].
    - rewrite (do_energy_lam0 true m muo b1 b2 E). unfold Rdiv. apply POS; assumption.
    - rewrite (do_energy_lam1_repaired m muo b1 b2 E). unfold Rdiv. apply POS; assumption.
    - rewrite (do_energy_lam2_repaired m muo b1 b2 E). unfold Rdiv. apply POS; assumption.
  Qed.

  (* laminations stacked on edge (LamType 1 and 2): the hard-direction field intensity is computed
     from b1 where b2 is meant (CMaterialProp.cpp:621 and 625-626); the energy density then
     vanishes for a flux density along y and depends on the product b1 b2 *)
  Theorem do_energy_lam1_refuted :
    exists (m : im_mat (F:=R)) muo b1 b2, im_lamtype m = 1%nat /\ 0 < muo /\ 0 < im_mux m /\ 0 < im_muy m /\
      0 < im_lamfill m <= 1 /\ (b1, b2) <> (0, 0) /\
      im_do_energy RA false m muo b1 b2 = 0 /\ im_do_energy_intended RA m muo b1 b2 > 0.
  Proof.
    exists (mkIMMat 100 100 0 (0, 0) 0 0 1 (1 / 2)), 1, 0, 1.
    cbn [im_lamtype im_mux im_muy im_lamfill]. repeat split; try lra.
    - intro H. inversion H. lra.
    - unfold im_do_energy, im_do_energy_asis. cbn [im_lamtype im_mux im_muy im_lamfill]. ra_simpl. field.
    - unfold im_do_energy_intended. cbn [im_lamtype im_mux im_muy im_lamfill]. ra_simpl.
      apply Rlt_gt. apply Rdiv_lt_0_compat; [|lra].
      replace (0 / ((1 + 1 / 2 * (100 - 1)) * 1) * 0 + 1 * (1 / 2 / (100 * 1) + (1 - 1 / 2) / 1) * 1)
        with (101 / 200) by field. lra.
  Qed.

  Theorem do_energy_lam2_refuted :
    exists (m : im_mat (F:=R)) muo b1 b2, im_lamtype m = 2%nat /\ 0 < muo /\ 0 < im_mux m /\ 0 < im_muy m /\
      0 < im_lamfill m <= 1 /\ (b1, b2) <> (0, 0) /\
      im_do_energy RA false m muo b1 b2 = 0 /\ im_do_energy_intended RA m muo b1 b2 > 0.
  Proof.
    exists (mkIMMat 100 100 0 (0, 0) 0 0 2 (1 / 2)), 1, 0, 1.
    cbn [im_lamtype im_mux im_muy im_lamfill]. repeat split; try lra.
    - intro H. inversion H. lra.
    - unfold im_do_energy, im_do_energy_asis. cbn [im_lamtype im_mux im_muy im_lamfill]. ra_simpl. field.
    - unfold im_do_energy_intended. cbn [im_lamtype im_mux im_muy im_lamfill]. ra_simpl.
      apply Rlt_gt. apply Rdiv_lt_0_compat; [|lra].
      replace (0 * (1 / 2 / (100 * 1) + (1 - 1 / 2) / 1) * 0 + 1 / ((1 + 1 / 2 * (100 - 1)) * 1) * 1)
        with (2 / 101) by field. lra.
  Qed.
End DoEnergy.

From XF Require Import AsmMProofs.

(* ------------------------------------------------------------------------------------------ *)
(* element level, planar                                                                       *)
(* ------------------------------------------------------------------------------------------ *)
Section ElemM.
  Variable P : im_prob (F:=R).
  Implicit Type el : im_elem (F:=R).

  Definition m_x el j : R := im_x (im_nd RA P el j).
  Definition m_y el j : R := im_y (im_nd RA P el j).
  Definition m_a el j : R := fst (im_A (im_nd RA P el j)).        (* Re A at local node j *)
  Definition m_ai el j : R := snd (im_A (im_nd RA P el j)).       (* Im A *)
  Definition m_b el (j : nat) : R :=
    match j with 0%nat => m_y el 1 - m_y el 2 | 1%nat => m_y el 2 - m_y el 0 | _ => m_y el 0 - m_y el 1 end.
  Definition m_c el (j : nat) : R :=
    match j with 0%nat => m_x el 2 - m_x el 1 | 1%nat => m_x el 0 - m_x el 2 | _ => m_x el 1 - m_x el 0 end.
  Definition m_da el : R := m_b el 0 * m_c el 1 - m_b el 1 * m_c el 0.

  Lemma im_da_R el : im_da RA P el = m_da el.
  Proof. unfold im_da, im_geom, geom. cbn [gp gq]. unfold vget. cbn [nth]. ra_simpl. reflexivity. Qed.

  Lemma im_area_R el : im_area RA P el = im_lc P * im_lc P * (m_da el / 2).
  Proof.
    unfold im_area, im_geom, geom. cbn [ga gp gq]. unfold vget. cbn [nth]. ra_simpl.
    unfold m_da, m_b, m_c, m_x, m_y. field.
  Qed.

  Lemma im_R_R el : im_R RA P el = im_lc P * ((m_x el 0 + m_x el 1 + m_x el 2) / 3).
  Proof. unfold im_R, im_r, vget. cbn [nth]. ra_simpl. unfold m_x. field. Qed.

  Lemma im_vol_R el :
    im_vol RA P el =
    if im_axi P then 2 * PI * (im_lc P * ((m_x el 0 + m_x el 1 + m_x el 2) / 3)) * (im_lc P * im_lc P * (m_da el / 2))
    else im_depth RA P * (im_lc P * im_lc P * (m_da el / 2)).
  Proof. unfold im_vol. rewrite im_area_R, im_R_R. destruct (im_axi P); ra_simpl; ring. Qed.

  (* GetElementB, planar: B = curl of the P1 interpolant of A (tesla): B1 = dA/dy, B2 = -dA/dx *)
  Definition m_B1 el : R := (m_a el 0 * m_c el 0 + m_a el 1 * m_c el 1 + m_a el 2 * m_c el 2) / (m_da el * im_lc P).
  Definition m_B2 el : R := - (m_a el 0 * m_b el 0 + m_a el 1 * m_b el 1 + m_a el 2 * m_b el 2) / (m_da el * im_lc P).

  Lemma im_B_planar_re el : im_axi P = false ->
    fst (fst (im_B RA P el)) = m_B1 el /\ fst (snd (im_B RA P el)) = m_B2 el.
  Proof.
    intros Hp. unfold im_B. cbv zeta. rewrite Hp. cbn [negb]. rewrite im_da_R.
    unfold im_geom, geom. cbn [gp gq]. unfold vget. cbn [nth].
    unfold cadd, csub, cdivr, cmuld, cofd. cbn [fst snd]. ra_simpl.
    unfold m_B1, m_B2, m_a, m_b, m_c, m_x, m_y. unfold Rdiv. split; ring.
  Qed.

  Definition m_mat el : im_mat := im_mat_of RA P el.
  Definition m_mu1 el : R := 1 + im_lamfill (m_mat el) * (im_mux (m_mat el) - 1).
  Definition m_mu2 el : R := 1 + im_lamfill (m_mat el) * (im_muy (m_mat el) - 1).

  (* the curl-curl element matrix in SI units: vol/mu0 (dphi_j/dy dphi_k/dy / mu1 + dphi_j/dx dphi_k/dx / mu2) *)
  Definition m_K el (j k : nat) : R :=
    im_vol RA P el
    * (m_c el j * m_c el k / (m_mu1 el * im_muo P) + m_b el j * m_b el k / (m_mu2 el * im_muo P))
    / (m_da el * im_lc P) / (m_da el * im_lc P).
  Definition m_Ka el (j : nat) : R := m_K el j 0 * m_a el 0 + m_K el j 1 * m_a el 1 + m_K el j 2 * m_a el 2.
  Definition m_quad el : R := m_a el 0 * m_Ka el 0 + m_a el 1 * m_Ka el 1 + m_a el 2 * m_Ka el 2.

  (* block integral 2, planar, no magnet, LamType 0: (1/2 a^T K a, 0) *)
  Theorem im_energy_is_quadratic_form el :
    im_axi P = false -> im_Hc (m_mat el) = 0 -> im_lamtype (m_mat el) = 0%nat ->
    im_energy_term RA P el (im_B RA P el) = (m_quad el / 2, 0).
  Proof.
    intros Hp Hc Hl. destruct (im_B_planar_re el Hp) as [E1 E2].
    unfold im_energy_term. destruct (im_B RA P el) as [B1 B2]. cbn [fst snd] in E1, E2.
    fold (m_mat el). rewrite Hc. unfold aneb. ra_simpl.
    replace (Reqb 0 0) with true by (symmetry; apply Reqb_true; reflexivity). cbn [negb].
    rewrite do_energy_lam0 by exact Hl. rewrite E1, E2.
    unfold im_aecf. rewrite Hp. cbn [negb]. unfold cmuld, cofd. cbn [fst snd]. ra_simpl.
    f_equal; [|ring].
    unfold m_quad, m_Ka, m_K, m_B1, m_B2. fold (m_mu1 el) (m_mu2 el). unfold Rdiv. ring.
  Qed.

  (* the same as energy density x volume *)
  Theorem im_energy_density el :
    im_axi P = false -> im_Hc (m_mat el) = 0 -> im_lamtype (m_mat el) = 0%nat ->
    fst (im_energy_term RA P el (im_B RA P el))
    = im_vol RA P el * ((m_B1 el * m_B1 el / (m_mu1 el * im_muo P) + m_B2 el * m_B2 el / (m_mu2 el * im_muo P)) / 2).
  Proof.
    intros Hp Hc Hl. destruct (im_B_planar_re el Hp) as [E1 E2].
    unfold im_energy_term. destruct (im_B RA P el) as [B1 B2]. cbn [fst snd] in E1, E2.
    fold (m_mat el). rewrite Hc. unfold aneb. ra_simpl.
    replace (Reqb 0 0) with true by (symmetry; apply Reqb_true; reflexivity). cbn [negb].
    rewrite do_energy_lam0 by exact Hl. rewrite E1, E2.
    unfold im_aecf. rewrite Hp. cbn [negb]. unfold cmuld, cofd. cbn [fst snd]. ra_simpl.
    fold (m_mu1 el) (m_mu2 el). ring.
  Qed.
End ElemM.

(* ------------------------------------------------------------------------------------------ *)
(* the post-processor's element matrix is the one FSolver::Static2D assembles                  *)
(* ------------------------------------------------------------------------------------------ *)
Section LinkM.
  Variables (P : im_prob (F:=R)) (SP : mprob (F:=R)) (res : list (nat * R * R)) (u : R).

  (* element [sl] of the solver's problem is element [el] of the post-processor's; the solver's
     coordinates are the file's times u (centimetres per file unit) *)
  Definition same_melem (el : im_elem (F:=R)) (sl : melem (F:=R)) : Prop :=
    mp sl = im_p el /\
    (forall j, (j < 3)%nat ->
       mx (nth (tri_get (mp sl) j) (mnodes SP) (dmnode RA)) = u * m_x P el j /\
       my (nth (tri_get (mp sl) j) (mnodes SP) (dmnode RA)) = u * m_y P el j) /\
    bmux (nth (mblk sl) (mblocks SP) (dmblock RA)) = im_mux (m_mat P el) /\
    bmuy (nth (mblk sl) (mblocks SP) (dmblock RA)) = im_muy (m_mat P el) /\
    bLamType (nth (mblk sl) (mblocks SP) (dmblock RA)) = 0%nat /\
    bLamFill (nth (mblk sl) (mblocks SP) (dmblock RA)) = im_lamfill (m_mat P el).

  Theorem solver_matrix_is_m_K el sl j k :
    im_axi P = false -> same_melem el sl -> no_mixed_edge SP sl -> (j < 3)%nat -> (k < 3)%nat ->
    u <> 0 -> im_lc P <> 0 -> m_da P el <> 0 -> m_mu1 P el <> 0 -> m_mu2 P el <> 0 -> im_muo P <> 0 ->
    m_K P el j k = - (im_depth RA P / im_muo P) * m3get RA (fst (fst (melem_matrices RA SP res sl))) j k.
  Proof.
    intros Hp (Hmp & Hxy & Hmx & Hmy & Hlt & Hlf) He Hj Hk Hu Hlc Hda H1 H2 Hmu.
    destruct (melem_matrices_noedge SP res sl He) as (_ & HM & _). rewrite (HM j k Hj Hk). clear HM.
    unfold el_mu. rewrite Hlt, Hmx, Hmy, Hlf. cbn [Nat.eqb Nat.ltb Nat.leb]. ra_simpl. cbn [fst snd].
    unfold mel_geom.
    destruct (Hxy 0%nat ltac:(lia)) as [X0 Y0]. destruct (Hxy 1%nat ltac:(lia)) as [X1 Y1].
    destruct (Hxy 2%nat ltac:(lia)) as [X2 Y2]. rewrite X0, X1, X2, Y0, Y1, Y2.
    unfold m_K. rewrite im_vol_R, Hp. unfold m_mu1, m_mu2, m_da, m_b, m_c in *.
    unfold geom. cbn [gp gq ga]. unfold vget. ra_simpl.
    set (x0 := m_x P el 0) in *. set (x1 := m_x P el 1) in *. set (x2 := m_x P el 2) in *.
    set (y0 := m_y P el 0) in *. set (y1 := m_y P el 1) in *. set (y2 := m_y P el 2) in *.
    set (t := im_lamfill (m_mat P el)) in *. set (ux := im_mux (m_mat P el)) in *. set (uy := im_muy (m_mat P el)) in *.
    assert (Hda' : (u * y1 - u * y2) * (u * x0 - u * x2) - (u * y2 - u * y0) * (u * x2 - u * x1) <> 0).
    { replace ((u * y1 - u * y2) * (u * x0 - u * x2) - (u * y2 - u * y0) * (u * x2 - u * x1))
        with (u * u * ((y1 - y2) * (x0 - x2) - (y2 - y0) * (x2 - x1))) by ring.
      repeat apply Rmult_integral_contrapositive_currified; assumption. }
    assert (H1' : ux * t + (1 - t) <> 0) by (intro Hz; apply H1; lra).
    assert (H2' : uy * t + (1 - t) <> 0) by (intro Hz; apply H2; lra).
    destruct j as [|[|[|j]]]; try lia; destruct k as [|[|[|k]]]; try lia; cbn [nth];
      field; repeat split; assumption.
  Qed.
End LinkM.

(* ------------------------------------------------------------------------------------------ *)
(* GetJA and the A.J term, planar                                                              *)
(* ------------------------------------------------------------------------------------------ *)
Section AJ.
  Variable P : im_prob (F:=R).
  Implicit Type el : im_elem (F:=R).

  (* the element's total current density (A/m^2): source + circuit contribution *)
  Definition m_J el : R * R := fst (fst (im_JA RA P el)).

  Lemma im_JA_planar el : im_axi P = false ->
    im_JA RA P el = (m_J el, [m_J el; m_J el; m_J el],
                     [im_A (im_nd RA P el 0); im_A (im_nd RA P el 1); im_A (im_nd RA P el 2)]).
  Proof.
    intros Hp. unfold m_J, im_JA. cbv zeta. rewrite Hp. cbn [negb].
    destruct (im_circ (im_label_of RA P el)); [destruct (Nat.eqb (im_case (im_label_of RA P el)) 0)|]; reflexivity.
  Qed.

  (* PlnInt with a constant second factor: a/3 * v * (u0 + u1 + u2) *)
  Lemma pln_int_const a (u0 u1 u2 v : R * R) :
    pln_int RA a [u0; u1; u2] [v; v; v]
    = (a / 3 * (fst v * (fst u0 + fst u1 + fst u2) - snd v * (snd u0 + snd u1 + snd u2)),
       a / 3 * (fst v * (snd u0 + snd u1 + snd u2) + snd v * (fst u0 + fst u1 + fst u2))).
  Proof.
    unfold pln_int, cget, cadd, cmul, dmulc, cdivr, cofd. cbn [nth fst snd]. ra_simpl. f_equal; field.
  Qed.

  (* block integral 0, planar: depth x (exact integral of the P1 potential over the element) x conj(J) *)
  Theorem im_AJ_term_planar el B z : im_axi P = false ->
    im_term RA P 0 el B z
    = (fst z + im_depth RA P * im_area RA P el / 3
               * (fst (m_J el) * (m_a P el 0 + m_a P el 1 + m_a P el 2) + snd (m_J el) * (m_ai P el 0 + m_ai P el 1 + m_ai P el 2)),
       snd z + im_depth RA P * im_area RA P el / 3
               * (fst (m_J el) * (m_ai P el 0 + m_ai P el 1 + m_ai P el 2) - snd (m_J el) * (m_a P el 0 + m_a P el 1 + m_a P el 2))).
  Proof.
    intros Hp. unfold im_term. rewrite (im_JA_planar el Hp). rewrite Hp. cbn [negb map].
    rewrite pln_int_const. unfold cconj, cadd, cmuld. cbn [fst snd]. ra_simpl.
    unfold m_a, m_ai. f_equal; field.
  Qed.
End AJ.

(* ------------------------------------------------------------------------------------------ *)
(* every modelled integral type adds a term that does not depend on the running sum            *)
(* ------------------------------------------------------------------------------------------ *)
Section LoopM.
  Variable P : im_prob (F:=R).
  Variable sel : list bool.

  Definition m_delta (t : nat) (el : im_elem (F:=R)) (B : (R * R) * (R * R)) : R * R := im_term RA P t el B (0, 0).

  Lemma im_term_additive t el B z :
    im_term RA P t el B z = (fst z + fst (m_delta t el B), snd z + snd (m_delta t el B)).
  Proof.
    unfold m_delta, im_term. destruct (im_JA RA P el) as [[J Jn] Av]. destruct z as [zr zi].
    do 25 (destruct t as [|t];
           [ repeat match goal with |- context [if ?c then _ else _] => destruct c end;
             unfold cadd, caddd; cbn [fst snd]; ra_simpl; f_equal; ring | ]).
    cbn [fst snd]. f_equal; ring.
  Qed.

  Definition m_sel (el : im_elem (F:=R)) : bool := selected sel (im_lbl el).

  Lemma im_loop_gen t : forall els acc,
    fold_left (im_step RA P sel t) (combine els (map (im_B RA P) els)) acc
    = (fst acc + lsum (fun el => if m_sel el then fst (m_delta t el (im_B RA P el)) else 0) els,
       snd acc + lsum (fun el => if m_sel el then snd (m_delta t el (im_B RA P el)) else 0) els).
  Proof.
    induction els as [|el els IH]; intros [ar ai]; cbn [map combine fold_left lsum fst snd].
    - f_equal; lra.
    - rewrite IH. unfold im_step, m_sel. destruct (selected sel (im_lbl el)).
      + rewrite im_term_additive. cbn [fst snd]. f_equal; lra.
      + cbn [fst snd]. f_equal; lra.
  Qed.

  (* BlockIntegral(t) = component-wise sum over the elements of the selected labels of the element term *)
  Theorem im_loop_is_sum t :
    im_loop RA P (im_Bs RA P) sel t
    = (lsum (fun el => if m_sel el then fst (m_delta t el (im_B RA P el)) else 0) (im_elems P),
       lsum (fun el => if m_sel el then snd (m_delta t el (im_B RA P el)) else 0) (im_elems P)).
  Proof.
    unfold im_loop, im_Bs. rewrite im_loop_gen. unfold cofd. cbn [fst snd]. ra_simpl. f_equal; lra.
  Qed.

  Theorem im_block_integral_is_block_integral t : t <> 6%nat ->
    fst (im_block_integral RA P (im_Bs RA P) sel t)
    = block_integral RA sel (map (fun el => (im_lbl el, fst (m_delta t el (im_B RA P el)))) (im_elems P)) /\
    snd (im_block_integral RA P (im_Bs RA P) sel t)
    = block_integral RA sel (map (fun el => (im_lbl el, snd (m_delta t el (im_B RA P el)))) (im_elems P)).
  Proof.
    intros Ht. unfold im_block_integral. replace (Nat.eqb t 6) with false by (symmetry; apply Nat.eqb_neq; exact Ht).
    rewrite im_loop_is_sum. cbn [fst snd]. rewrite !block_integral_sum.
    split; induction (im_elems P) as [|el els IH]; cbn [map lsum sel_sum fst snd]; try reflexivity; rewrite IH; reflexivity.
  Qed.
End LoopM.

(* ------------------------------------------------------------------------------------------ *)
(* W = 1/2 A^T K A = 1/2 sum_i A_i R_i, and W = 1/2 int A.J when the nodal equations hold       *)
(* ------------------------------------------------------------------------------------------ *)
Section EnergyM.
  Variable P : im_prob (F:=R).

  Definition m_An (i : nat) : R := fst (im_A (nth i (im_nodes P) (im_dnode RA))).
  (* row i of (sum of the element matrices) times A *)
  Definition m_react (els : list (im_elem (F:=R))) (i : nat) : R := node_sum im_p (m_Ka P) els i.
  (* the nodal load of the current densities: depth x area x J / 3 from every element at the node *)
  Definition m_load (els : list (im_elem (F:=R))) (i : nat) : R :=
    node_sum im_p (fun el _ => im_depth RA P * im_area RA P el * fst (m_J P el) / 3) els i.

  (* planar, no magnet, laminations in-plane or none *)
  Definition m_ok (el : im_elem (F:=R)) : Prop := im_Hc (m_mat P el) = 0 /\ im_lamtype (m_mat P el) = 0%nat.
  Definition m_in_range (nn : nat) (el : im_elem (F:=R)) : Prop := tri_in_range im_p nn el.
  Definition m_W (el : im_elem (F:=R)) : R := fst (im_energy_term RA P el (im_B RA P el)).
  Definition m_AJ (el : im_elem (F:=R)) : R := fst (m_delta P 0 el (im_B RA P el)).

  Theorem m_energy_is_half_AtKA els nn :
    im_axi P = false -> Forall m_ok els -> Forall (m_in_range nn) els ->
    lsum m_W els = / 2 * rsum (fun i => m_An i * m_react els i) nn.
  Proof.
    intros Hp Hok Hr. unfold m_react.
    rewrite <- (weighted_interchange im_p (m_Ka P) m_An nn els Hr).
    rewrite <- lsum_scal. apply lsum_ext. intros el Hel.
    rewrite Forall_forall in Hok. destruct (Hok el Hel) as (Hc & Hl).
    unfold m_W. rewrite (im_energy_is_quadratic_form P el Hp Hc Hl). cbn [fst].
    unfold m_quad, m_a, m_An, im_nd. lra.
  Qed.

  Theorem m_AJ_is_load_work els nn :
    im_axi P = false -> Forall (fun el => snd (m_J P el) = 0) els -> Forall (m_in_range nn) els ->
    lsum m_AJ els = rsum (fun i => m_An i * m_load els i) nn.
  Proof.
    intros Hp Hj Hr. unfold m_load.
    rewrite <- (weighted_interchange im_p (fun el _ => im_depth RA P * im_area RA P el * fst (m_J P el) / 3) m_An nn els Hr).
    apply lsum_ext. intros el Hel. rewrite Forall_forall in Hj. specialize (Hj el Hel).
    unfold m_AJ, m_delta. rewrite (im_AJ_term_planar P el _ _ Hp). cbn [fst]. rewrite Hj.
    unfold m_a, m_An, im_nd. field.
  Qed.

  (* stored energy = 1/2 int A.J : planar, linear, in-plane laminations, real current densities, and
     at every node either A = 0 (the boundary) or the nodal equation  (K A)_i = load_i  holds
     (sources are J and circuits only: no magnet, no mixed boundary term) *)
  Theorem m_energy_is_half_AJ els nn :
    im_axi P = false -> Forall m_ok els -> Forall (fun el => snd (m_J P el) = 0) els -> Forall (m_in_range nn) els ->
    (forall i, (i < nn)%nat -> m_An i = 0 \/ m_react els i = m_load els i) ->
    lsum m_W els = / 2 * lsum m_AJ els.
  Proof.
    intros Hp Hok Hj Hr Heq.
    rewrite (m_energy_is_half_AtKA els nn Hp Hok Hr), (m_AJ_is_load_work els nn Hp Hj Hr).
    f_equal. apply rsum_ext. intros i Hi. destruct (Heq i Hi) as [H|H]; rewrite H; lra.
  Qed.

  (* in general: W - 1/2 int A.J = 1/2 sum_i A_i (R_i - F_i): the residuals of the nodal equations weighted
     by the potentials (prescribed non-zero A, mixed boundaries and magnets appear here) *)
  Theorem m_energy_minus_half_AJ els nn :
    im_axi P = false -> Forall m_ok els -> Forall (fun el => snd (m_J P el) = 0) els -> Forall (m_in_range nn) els ->
    lsum m_W els - / 2 * lsum m_AJ els = / 2 * rsum (fun i => m_An i * (m_react els i - m_load els i)) nn.
  Proof.
    intros Hp Hok Hj Hr.
    rewrite (m_energy_is_half_AtKA els nn Hp Hok Hr), (m_AJ_is_load_work els nn Hp Hj Hr).
    rewrite <- Rmult_minus_distr_l, <- rsum_minus. f_equal. apply rsum_ext. intros; lra.
  Qed.
End EnergyM.

(* ------------------------------------------------------------------------------------------ *)
(* circuits: flux linkage x conj(current) = int A.J over the circuit's blocks                  *)
(* ------------------------------------------------------------------------------------------ *)
Section FluxM.
  Variable P : im_prob (F:=R).

  Definition in_circuit (c : nat) (el : im_elem (F:=R)) : bool :=
    match im_circ (im_label_of RA P el) with Some k => Nat.eqb k c | None => false end.

  Lemma im_flux_step_spec c FL el : snd (im_o (im_label_of RA P el)) = 0 ->
    im_flux_step RA P c FL el
    = if in_circuit c el then (fst FL + fst (m_delta P 0 el (im_B RA P el)), snd FL + snd (m_delta P 0 el (im_B RA P el))) else FL.
  Proof.
    intros Ho. unfold im_flux_step, in_circuit.
    destruct (im_circ (im_label_of RA P el)) as [k|]; [|reflexivity].
    destruct (Nat.eqb k c); [|reflexivity].
    unfold m_delta, im_term. destruct (im_JA RA P el) as [[J Jn] Av].
    rewrite Ho. unfold aneb. ra_simpl.
    replace (Reqb 0 0) with true by (symmetry; apply Reqb_true; reflexivity). cbn [negb].
    unfold im_area. replace (ga (im_geom RA P el) * im_lc P * im_lc P) with (ga (im_geom RA P el) * (im_lc P * im_lc P)) by ring.
    destruct FL as [fr fi]. destruct (im_axi P); cbn [negb]; unfold cadd; cbn [fst snd]; ra_simpl; f_equal; ring.
  Qed.

  Lemma flux_fold c : (forall el, In el (im_elems P) -> snd (im_o (im_label_of RA P el)) = 0) ->
    forall els, incl els (im_elems P) -> forall FL,
    fold_left (im_flux_step RA P c) els FL
    = (fst FL + lsum (fun el => if in_circuit c el then fst (m_delta P 0 el (im_B RA P el)) else 0) els,
       snd FL + lsum (fun el => if in_circuit c el then snd (m_delta P 0 el (im_B RA P el)) else 0) els).
  Proof.
    intros Ho. induction els as [|el els IH]; intros Hin [fr fi]; cbn [fold_left lsum fst snd].
    - f_equal; lra.
    - rewrite im_flux_step_spec by (apply Ho, Hin; left; reflexivity).
      rewrite IH by (intros x Hx; apply Hin; right; exact Hx).
      destruct (in_circuit c el); cbn [fst snd]; f_equal; lra.
  Qed.

  (* GetFluxLinkage(c) x conj(Amps_c) = BlockIntegral(0) over the labels of circuit c
     (planar and axisymmetric; regions without the complex "local" conductivity term) *)
  Theorem flux_linkage_times_current c sel :
    (forall el, In el (im_elems P) -> snd (im_o (im_label_of RA P el)) = 0) ->
    (forall el, In el (im_elems P) -> selected sel (im_lbl el) = in_circuit c el) ->
    nth c (im_amps P) (0, 0) <> (0, 0) ->
    cmul RA (im_flux_linkage RA P c) (cconj RA (nth c (im_amps P) (0, 0))) = im_block_integral RA P (im_Bs RA P) sel 0.
  Proof.
    intros Ho Hsel Hamp. unfold im_flux_linkage. cbv zeta.
    rewrite cdiv_cmul.
    - unfold im_block_integral. cbn [Nat.eqb]. rewrite im_loop_is_sum.
      rewrite (flux_fold c Ho (im_elems P) (incl_refl _)). unfold cofd. cbn [fst snd]. ra_simpl.
      f_equal; rewrite Rplus_0_l; apply lsum_ext; intros el Hel; unfold m_sel; rewrite (Hsel el Hel); reflexivity.
    - destruct (nth c (im_amps P) (0, 0)) as [ar ai]. unfold cconj. cbn [fst snd]. ra_simpl.
      intro H. inversion H. apply Hamp. f_equal; lra.
  Qed.
End FluxM.

(* ------------------------------------------------------------------------------------------ *)
(* area (5) and volume (10) against the geometry, through IntegralsEProofs                     *)
(* ------------------------------------------------------------------------------------------ *)
Section GeomM.
  Variable P : im_prob (F:=R).

  Definition nview (n : im_node (F:=R)) : ie_node (F:=R) := mkIENode (im_x n) (im_y n) (fst (im_A n)) (-2)%Z.
  Definition elview (el : im_elem (F:=R)) : ie_elem := mkIEElem (im_p el) (im_lbl el) (im_blk el).
  Definition im_view : ie_prob (F:=R) :=
    mkIEProb (im_axi P) (im_lc P) (im_depth_file P) (im_extZo P) (im_extRo P) (im_extRi P) 1
             (map nview (im_nodes P)) (map elview (im_elems P)) [] [].

  Lemma nd_view el j : ie_nd RA im_view (elview el) j = nview (im_nd RA P el j).
  Proof.
    unfold ie_nd, im_nd. cbn [ie_nodes im_view ie_p elview].
    change (ie_dnode RA) with (nview (im_dnode RA)). apply map_nth.
  Qed.

  Lemma im_area_view el : im_area RA P el = ie_area RA im_view (elview el).
  Proof. unfold im_area, ie_area, im_geom, ie_geom. rewrite !nd_view. reflexivity. Qed.

  Lemma im_vol_view el : im_vol RA P el = ie_vol RA im_view (elview el).
  Proof.
    unfold im_vol, ie_vol. rewrite <- im_area_view. cbn [ie_axi im_view].
    unfold im_R, im_r, ie_R, vget. cbn [nth]. rewrite !nd_view. reflexivity.
  Qed.

  Definition m_X (i : nat) : R * R :=
    (im_x (nth i (im_nodes P) (im_dnode RA)), im_y (nth i (im_nodes P) (im_dnode RA))).

  Lemma e_X_view i : e_X im_view i = m_X i.
  Proof.
    unfold e_X, m_X. cbn [ie_nodes im_view]. change (ie_dnode RA) with (nview (im_dnode RA)).
    rewrite map_nth. reflexivity.
  Qed.

  Lemma lsum_rcross_ext l : lsum (rcross (e_X im_view)) l = lsum (rcross m_X) l.
  Proof. apply lsum_ext. intros e _. unfold rcross. rewrite !e_X_view. reflexivity. Qed.
  Lemma lsum_rrevol_ext l : lsum (rrevol (e_X im_view)) l = lsum (rrevol m_X) l.
  Proof. apply lsum_ext. intros e _. unfold rrevol. rewrite !e_X_view. reflexivity. Qed.

  Lemma map_p_view els : map ie_p (map elview els) = map im_p els.
  Proof. rewrite map_map. reflexivity. Qed.

  Theorem m_area_integral_is_shoelace els :
    NoDup (rall_dedges (map im_p els)) ->
    lsum (im_area RA P) els = im_lc P * im_lc P * (lsum (rcross m_X) (rboundary (map im_p els)) / 2).
  Proof.
    intros Hnd. pose proof (area_integral_is_shoelace im_view (map elview els)) as H.
    rewrite map_p_view in H. specialize (H Hnd). cbn [ie_lc im_view] in H. rewrite lsum_rcross_ext in H.
    rewrite <- H. rewrite lsum_map. apply lsum_ext. intros el _. apply im_area_view.
  Qed.

  Theorem m_volume_integral_planar els : im_axi P = false ->
    lsum (im_vol RA P) els = im_depth RA P * lsum (im_area RA P) els.
  Proof.
    intros Hp. rewrite <- lsum_scal. apply lsum_ext. intros el _. unfold im_vol. rewrite Hp. ra_simpl. ring.
  Qed.

  Theorem m_volume_integral_axisymmetric els : im_axi P = true ->
    NoDup (rall_dedges (map im_p els)) ->
    lsum (im_vol RA P) els = im_lc P * im_lc P * im_lc P * lsum (rrevol m_X) (rboundary (map im_p els)).
  Proof.
    intros Ha Hnd. pose proof (volume_integral_axisymmetric im_view (map elview els) Ha) as H.
    rewrite map_p_view in H. specialize (H Hnd). cbn [ie_lc im_view] in H. rewrite lsum_rrevol_ext in H.
    rewrite <- H. rewrite lsum_map. apply lsum_ext. intros el _. apply im_vol_view.
  Qed.

  (* what BlockIntegral adds for types 5, 10, 8, 9, 7 *)
  Lemma m_delta_area el B : m_delta P 5 el B = (im_area RA P el, 0).
  Proof. unfold m_delta, im_term. destruct (im_JA RA P el) as [[J Jn] Av]. unfold caddd. cbn [fst snd]. ra_simpl. f_equal; ring. Qed.
  Lemma m_delta_volume el B : m_delta P 10 el B = (im_vol RA P el, 0).
  Proof. unfold m_delta, im_term. destruct (im_JA RA P el) as [[J Jn] Av]. unfold caddd. cbn [fst snd]. ra_simpl. f_equal; ring. Qed.
  Lemma m_delta_B1 el B : m_delta P 8 el B = (im_vol RA P el * fst (fst B), im_vol RA P el * snd (fst B)).
  Proof. unfold m_delta, im_term. destruct (im_JA RA P el) as [[J Jn] Av]. unfold cadd, dmulc. cbn [fst snd]. ra_simpl. f_equal; ring. Qed.
  Lemma m_delta_B2 el B : m_delta P 9 el B = (im_vol RA P el * fst (snd B), im_vol RA P el * snd (snd B)).
  Proof. unfold m_delta, im_term. destruct (im_JA RA P el) as [[J Jn] Av]. unfold cadd, dmulc. cbn [fst snd]. ra_simpl. f_equal; ring. Qed.
  (* total current: cross-section area x average current density *)
  Lemma m_delta_current el B : m_delta P 7 el B = (im_area RA P el * fst (m_J P el), im_area RA P el * snd (m_J P el)).
  Proof.
    unfold m_delta, im_term, m_J. destruct (im_JA RA P el) as [[J Jn] Av]. unfold cadd, dmulc. cbn [fst snd]. ra_simpl. f_equal; ring.
  Qed.
  Lemma m_delta_energy el B : m_delta P 2 el B = im_energy_term RA P el B.
  Proof.
    unfold m_delta, im_term. destruct (im_JA RA P el) as [[J Jn] Av]. unfold cadd. cbn [fst snd]. ra_simpl.
    destruct (im_energy_term RA P el B). cbn [fst snd]. f_equal; ring.
  Qed.
End GeomM.

(* ------------------------------------------------------------------------------------------ *)
(* a concrete instance: the hypotheses of W = 1/2 int A.J are satisfiable, with W <> 0          *)
(* ------------------------------------------------------------------------------------------ *)
(* a unit square of air (mu_r = 1, mu0 := 1) carrying J = 1e-6 MA/m^2 = 1 A/m^2, A = 0 on the boundary,
   four elements around the centre node 4 whose potential 1/12 solves its nodal equation; metres, depth 1 *)
Definition ex_M : im_prob (F:=R) :=
  mkIMProb false 1 1 0 0 0 1
    [mkIMNode 0 0 (0, 0); mkIMNode 1 0 (0, 0); mkIMNode 1 1 (0, 0); mkIMNode 0 1 (0, 0); mkIMNode (1 / 2) (1 / 2) (1 / 12, 0)]
    [mkIMElem (0, 1, 4)%nat 0 0 (0, 0); mkIMElem (1, 2, 4)%nat 0 0 (0, 0); mkIMElem (2, 3, 4)%nat 0 0 (0, 0); mkIMElem (3, 0, 4)%nat 0 0 (0, 0)]
    [mkIMLabel None 0 (0, 0) (0, 0) 0 false (0, 0)]
    [mkIMMat 1 1 0 (1 / 1000000, 0) 0 0 0 1] [] false.

Lemma ex_M_depth : im_depth RA ex_M = 1.
Proof.
  unfold im_depth. cbn [im_depth_file im_lc ex_M]. ra_simpl.
  destruct (Reqb 1 (- (1))) eqn:E; [apply Reqb_true in E; lra|lra].
Qed.

Lemma ex_M_J el : In el (im_elems ex_M) -> m_J ex_M el = (1, 0).
Proof.
  intros H. unfold m_J, im_JA. cbn [im_axi ex_M negb].
  cbn in H. destruct H as [<-|[<-|[<-|[<-|[]]]]]; cbn; unfold cmuld; cbn [fst snd]; ra_simpl; f_equal; try field.
Qed.

Lemma ex_M_vol el : In el (im_elems ex_M) -> im_vol RA ex_M el = 1 / 4 /\ im_area RA ex_M el = 1 / 4.
Proof.
  intros H. rewrite im_vol_R, im_area_R. cbn [im_axi ex_M]. rewrite ex_M_depth.
  cbn in H. destruct H as [<-|[<-|[<-|[<-|[]]]]]; unfold m_da, m_b, m_c, m_x, m_y, im_nd; cbn; split; field.
Qed.

Lemma ex_M_hypotheses_hold :
  im_axi ex_M = false /\ Forall (m_ok ex_M) (im_elems ex_M) /\ Forall (fun el => snd (m_J ex_M el) = 0) (im_elems ex_M) /\
  Forall (m_in_range 5) (im_elems ex_M) /\
  (forall i, (i < 5)%nat -> m_An ex_M i = 0 \/ m_react ex_M (im_elems ex_M) i = m_load ex_M (im_elems ex_M) i).
Proof.
  split; [reflexivity|]. split. { repeat constructor. }
  split. { rewrite Forall_forall. intros el H. rewrite (ex_M_J el H). reflexivity. }
  split. { repeat constructor; cbn; lia. }
  intros i Hi. destruct i as [|[|[|[|[|i]]]]]; try lia; [left; reflexivity|left; reflexivity|left; reflexivity|left; reflexivity|].
  right. unfold m_react, m_load, node_sum. cbn [lsum im_elems ex_M im_p tri_get Nat.eqb].
  rewrite !ex_M_J by (cbn; tauto). rewrite ex_M_depth.
  unfold m_Ka, m_K.
  repeat match goal with |- context [im_vol RA ex_M ?e] => rewrite (proj1 (ex_M_vol e ltac:(cbn; tauto))) end.
  repeat match goal with |- context [im_area RA ex_M ?e] => rewrite (proj2 (ex_M_vol e ltac:(cbn; tauto))) end.
  unfold m_mu1, m_mu2, m_mat, im_mat_of, m_da, m_b, m_c, m_a, m_x, m_y, im_nd. cbn. field.
Qed.

Lemma ex_M_energy : lsum (m_W ex_M) (im_elems ex_M) = 1 / 72 /\ lsum (m_AJ ex_M) (im_elems ex_M) = 1 / 36.
Proof.
  destruct ex_M_hypotheses_hold as (Hp & Hok & Hj & Hr & Heq).
  assert (HAJ : lsum (m_AJ ex_M) (im_elems ex_M) = 1 / 36).
  { rewrite (m_AJ_is_load_work ex_M (im_elems ex_M) 5 Hp Hj Hr). cbn [rsum].
    unfold m_load, node_sum. cbn [lsum im_elems ex_M im_p tri_get Nat.eqb].
    rewrite !ex_M_J by (cbn; tauto). rewrite ex_M_depth.
    repeat match goal with |- context [im_area RA ex_M ?e] => rewrite (proj2 (ex_M_vol e ltac:(cbn; tauto))) end.
    unfold m_An. cbn. field. }
  split; [|exact HAJ].
  rewrite (m_energy_is_half_AJ ex_M (im_elems ex_M) 5 Hp Hok Hj Hr Heq), HAJ. field.
Qed.
