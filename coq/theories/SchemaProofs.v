(* SchemaProofs.v — proofs about the generic keyed-block model of Schema.v (property C14). *)
From Coq Require Import String Ascii List ZArith Bool Lia Reals Lra.
From Coq Require PrimFloat.
From XF Require Import Arith Schema.
Import ListNotations.
Local Open Scope string_scope.

(* ---- strings -------------------------------------------------------------------------------- *)
Lemma seqb_eq : forall a b : string, String.eqb a b = true <-> a = b.
Proof. intros; apply String.eqb_eq. Qed.
Lemma seqb_neq : forall a b : string, String.eqb a b = false <-> a <> b.
Proof. intros; apply String.eqb_neq. Qed.
Lemma seqb_refl : forall a : string, String.eqb a a = true.
Proof. intros; apply String.eqb_refl. Qed.

(* ---- records --------------------------------------------------------------------------------- *)
Section Rec.
  Context {F : Type} (A : Arith F).
  Local Notation value := (@value F).
  Local Notation record := (list (string * value)).
  Local Notation line := (string * value)%type.

  Lemma has_field_in : forall f (r : record), has_field f r = true <-> In f (map fst r).
  Proof.
    induction r as [|[g v] t IH]; simpl.
    - split; [discriminate | tauto].
    - rewrite orb_true_iff, IH, seqb_eq. split; intros [H|H]; auto.
  Qed.

  Lemma get_in : forall f (r : record), In f (map fst r) -> exists v, get f r = Some v.
  Proof.
    induction r as [|[g v] t IH]; simpl; intros H; [tauto|].
    destruct (String.eqb f g) eqn:E; [eauto|].
    destruct H as [H|H]; [subst; rewrite seqb_refl in E; discriminate | auto].
  Qed.

  Lemma get_some_in : forall f (r : record) v, get f r = Some v -> In f (map fst r).
  Proof.
    induction r as [|[g w] t IH]; simpl; intros v H; [discriminate|].
    destruct (String.eqb f g) eqn:E; [left; symmetry; apply seqb_eq; auto | right; eauto].
  Qed.

  Lemma map_fst_set : forall f v (r : record), map fst (set f v r) = map fst r.
  Proof.
    induction r as [|[g w] t IH]; simpl; auto.
    destruct (String.eqb f g); simpl; congruence.
  Qed.

  Lemma get_set_same : forall f v (r : record), In f (map fst r) -> get f (set f v r) = Some v.
  Proof.
    induction r as [|[g w] t IH]; simpl; intros H; [tauto|].
    destruct (String.eqb f g) eqn:E; simpl; rewrite E; auto.
    destruct H as [H|H]; [subst; rewrite seqb_refl in E; discriminate | auto].
  Qed.

  Lemma get_set_other : forall f g v (r : record), f <> g -> get f (set g v r) = get f r.
  Proof.
    induction r as [|[h w] t IH]; simpl; intros H; auto.
    destruct (String.eqb g h) eqn:E; simpl.
    - apply seqb_eq in E; subst h. destruct (String.eqb f g) eqn:E2; auto.
      apply seqb_eq in E2; congruence.
    - destruct (String.eqb f h); auto.
  Qed.

  (* records with the same duplicate-free field list and the same value for every field are equal *)
  Lemma record_ext : forall (r1 r2 : record),
    map fst r1 = map fst r2 -> NoDup (map fst r1) ->
    (forall f, In f (map fst r1) -> get f r1 = get f r2) -> r1 = r2.
  Proof.
    induction r1 as [|[g v] t IH]; intros [|[g2 v2] t2]; simpl; intros Hm Hn Hg; try discriminate; auto.
    injection Hm as Hg2 Hm; subst g2. inversion Hn as [|x l Hni Hnd]; subst.
    pose proof (Hg g (or_introl eq_refl)) as H0. rewrite seqb_refl in H0. injection H0 as H0; subst v2.
    f_equal. apply IH; auto. intros f Hf. pose proof (Hg f (or_intror Hf)) as H1.
    destruct (String.eqb f g) eqn:E; auto. apply seqb_eq in E; subst; contradiction.
  Qed.

  (* ---- defaults -------------------------------------------------------------------------------- *)
  Lemma defaults_acc_nodup : forall ps (acc : record),
    NoDup (map fst acc) -> NoDup (map fst (defaults_acc A ps acc)).
  Proof.
    induction ps as [|e t IH]; simpl; intros acc H; auto.
    destruct (String.eqb (pe_field e) "" || has_field (pe_field e) acc) eqn:E; auto.
    apply IH. rewrite map_app; simpl. apply orb_false_iff in E as [_ E].
    assert (~ In (pe_field e) (map fst acc)) by (intro K; apply has_field_in in K; congruence).
    clear E. induction (map fst acc) as [|a l IHl]; simpl.
    - constructor; [tauto | constructor].
    - inversion H as [|x y Hx Hy]; subst. constructor.
      + rewrite in_app_iff; simpl. intros [K|[K|[]]]; [auto | subst; apply H0; left; auto].
      + apply IHl; auto. intro K; apply H0; right; auto.
  Qed.
  Lemma defaults_nodup : forall ps, NoDup (map fst (defaults A ps)).
  Proof. intros; apply defaults_acc_nodup; constructor. Qed.

  (* ---- the reader, line by line ----------------------------------------------------------------- *)
  (* the value a line stores into field f, if it stores anything there *)
  Definition hits (ps : parse_schema) (f : string) (l : line) : option value :=
    match find_pe ps (lower (fst l)) with
    | Some e => if String.eqb (pe_field e) f && negb (String.eqb (pe_field e) "")
                then conv A (pe_kind e) (pe_tf e) (snd l) else None
    | None => None
    end.

  Lemma map_fst_parse_line : forall ps (r : record) l, map fst (parse_line A ps r l) = map fst r.
  Proof.
    intros. unfold parse_line. destruct (find_pe ps (lower (fst l))); auto.
    destruct (String.eqb (pe_field p) ""); auto.
    destruct (conv A (pe_kind p) (pe_tf p) (snd l)); auto. apply map_fst_set.
  Qed.

  Lemma map_fst_fold : forall ps L (r : record), map fst (fold_left (parse_line A ps) L r) = map fst r.
  Proof. induction L; simpl; intros; auto. rewrite IHL. apply map_fst_parse_line. Qed.

  Lemma get_parse_line_hit : forall ps (r : record) l f v,
    In f (map fst r) -> hits ps f l = Some v -> get f (parse_line A ps r l) = Some v.
  Proof.
    intros ps r l f v Hin H. unfold hits in H. unfold parse_line.
    destruct (find_pe ps (lower (fst l))) as [e|]; [|discriminate].
    destruct (String.eqb (pe_field e) f) eqn:E1; simpl in H; [|discriminate].
    destruct (String.eqb (pe_field e) "") eqn:E2; simpl in H; [discriminate|].
    rewrite H. apply seqb_eq in E1. rewrite E1. apply get_set_same; auto.
  Qed.

  Lemma get_parse_line_miss : forall ps (r : record) l f,
    hits ps f l = None -> get f (parse_line A ps r l) = get f r.
  Proof.
    intros ps r l f H. unfold hits in H. unfold parse_line.
    destruct (find_pe ps (lower (fst l))) as [e|]; auto.
    destruct (String.eqb (pe_field e) "") eqn:E2; auto.
    destruct (conv A (pe_kind e) (pe_tf e) (snd l)) as [v|] eqn:C; auto.
    destruct (String.eqb (pe_field e) f) eqn:E1; simpl in H; [discriminate|].
    apply get_set_other. apply seqb_neq in E1. congruence.
  Qed.

  (* if every line that stores into f stores x, and either f holds x initially or some line
     stores into f, then f holds x after the whole block *)
  Lemma get_fold_parse : forall ps f x L (r0 : record),
    In f (map fst r0) ->
    (forall l v, In l L -> hits ps f l = Some v -> v = x) ->
    (get f r0 = Some x \/ exists l, In l L /\ hits ps f l = Some x) ->
    get f (fold_left (parse_line A ps) L r0) = Some x.
  Proof.
    induction L as [|l L IH]; simpl; intros r0 Hin Hall Hex.
    - destruct Hex as [H|[l [[] _]]]; auto.
    - apply IH.
      + rewrite map_fst_parse_line; auto.
      + intros; eapply Hall; eauto.
      + destruct (hits ps f l) as [v|] eqn:Hh.
        * left. rewrite (get_parse_line_hit ps r0 l f v Hin Hh). f_equal. eapply Hall; eauto.
        * rewrite (get_parse_line_miss ps r0 l f Hh).
          destruct Hex as [H|[l' [[H|H] H2]]]; auto.
          -- subst l'. congruence.
          -- right; eauto.
  Qed.

  (* ---- the writer -------------------------------------------------------------------------------- *)
  Lemma in_print : forall pr (r : record) l,
    In l (print A pr r) -> exists w, In w pr /\ In l (print_entry A r w).
  Proof. intros pr r l H. unfold print in H. apply in_flat_map in H. exact H. Qed.

  Lemma print_entry_cases : forall (r : record) w l, In l (print_entry A r w) ->
    eval_cond A (we_cond w) r = true /\ fst l = we_key w /\
    ((exists f v, we_src w = SField f /\ get f r = Some v /\ snd l = tf_print A (we_tf w) (we_kind w) v) \/
     (exists c, const_value A (we_src w) = Some c /\ snd l = c)).
  Proof.
    intros r w l H. unfold print_entry in H.
    destruct (eval_cond A (we_cond w) r); [|destruct H]. split; auto.
    destruct (we_src w) as [f|z|m e|s] eqn:S; simpl.
    - destruct (get f r) as [v|] eqn:G; [|destruct H]. destruct H as [H|[]]; subst l; simpl.
      split; auto. left; eauto.
    - destruct H as [H|[]]; subst l; simpl. split; auto. right; eauto.
    - destruct H as [H|[]]; subst l; simpl. split; auto. right; eauto.
    - destruct H as [H|[]]; subst l; simpl. split; auto. right; eauto.
  Qed.

  (* what [compatible_modulo_gaps] gives for one entry *)
  Lemma entry_ok_field : forall ps w, entry_ok ps w = true ->
    exists e, find_pe ps (lower (we_key w)) = Some e /\
      (forall f, we_src w = SField f -> pe_field e = f \/ pe_field e = "").
  Proof.
    intros ps w H. unfold entry_ok in H. destruct (find_pe ps (lower (we_key w))) as [e|]; [|discriminate].
    exists e; split; auto. intros f S. rewrite S in H.
    apply andb_true_iff in H as [H _]. apply andb_true_iff in H as [_ H].
    apply orb_true_iff in H as [H|H]; apply seqb_eq in H; auto.
  Qed.

  Lemma compat_entries : forall ps pr, compatible_modulo_gaps ps pr = true ->
    forall w, In w pr -> entry_ok ps w = true.
  Proof.
    intros ps pr H w Hw. unfold compatible_modulo_gaps in H.
    apply andb_true_iff in H as [_ H]. rewrite forallb_forall in H. auto.
  Qed.

  Lemma lands_spec : forall ps w f, lands ps w = Some f <->
    exists e, find_pe ps (lower (we_key w)) = Some e /\ pe_field e = f /\ String.eqb f "" = false.
  Proof.
    intros. unfold lands. destruct (find_pe ps (lower (we_key w))) as [e|].
    - destruct (String.eqb (pe_field e) "") eqn:E; split.
      + discriminate.
      + intros [e' [H1 [H2 H3]]]. injection H1 as <-. subst f. congruence.
      + intros H; injection H as <-. eauto.
      + intros [e' [H1 [H2 H3]]]. injection H1 as <-. congruence.
    - split; [discriminate | intros [e' [H _]]; discriminate].
  Qed.

  (* ---- the round trip ---------------------------------------------------------------------------- *)
  Theorem parse_print_roundtrip_gen : forall ps pr,
    compatible_modulo_gaps ps pr = true ->
    forall r : record, in_domain A ps pr r -> parse A ps (print A pr r) = r.
  Proof.
    intros ps pr Hc r [Hshape [Hcodec [Hconst Hdef]]].
    pose proof (compat_entries ps pr Hc) as Hok.
    unfold parse. apply record_ext.
    - rewrite map_fst_fold. auto.
    - rewrite map_fst_fold. apply defaults_nodup.
    - intros f Hf. rewrite map_fst_fold in Hf.
      assert (Hfr : In f (map fst r)) by (rewrite Hshape; auto).
      destruct (get_in f r Hfr) as [x Hx]. rewrite Hx.
      (* every line of the output that stores into f stores x *)
      assert (Hall : forall l v, In l (print A pr r) -> hits ps f l = Some v -> v = x).
      { intros l v Hl Hh. destruct (in_print pr r l Hl) as [w [Hw Hlw]].
        destruct (print_entry_cases r w l Hlw) as [Hcnd [Hkey Hsrc]].
        unfold hits in Hh. rewrite Hkey in Hh.
        destruct (entry_ok_field ps w (Hok w Hw)) as [e [He Hfld]]. rewrite He in Hh.
        destruct (String.eqb (pe_field e) f) eqn:E1; simpl in Hh; [|discriminate].
        destruct (String.eqb (pe_field e) "") eqn:E2; simpl in Hh; [discriminate|].
        apply seqb_eq in E1.
        destruct Hsrc as [[g [v0 [S [G V]]]]|[c [C V]]].
        - destruct (Hfld g S) as [K|K]; [|rewrite K in E2; discriminate].
          assert (Hgf : g = f) by congruence. rewrite Hgf in *. clear Hgf K. rewrite Hx in G. injection G as <-.
          rewrite V in Hh. rewrite (Hcodec w f x e Hw Hcnd S Hx He) in Hh. congruence.
        - destruct (Hconst w c e Hw Hcnd C He E2) as [v' [C1 C2]].
          rewrite V in Hh. rewrite C1 in Hh. rewrite E1 in C2. congruence. }
      apply get_fold_parse; auto.
      (* either some active entry lands on f, or f is at its default *)
      destruct (existsb (fun w => eval_cond A (we_cond w) r &&
                  match lands ps w with Some g => String.eqb g f | None => false end) pr) eqn:EX.
      + right. apply existsb_exists in EX as [w [Hw Hb]].
        apply andb_true_iff in Hb as [Hcnd Hl].
        destruct (lands ps w) as [g|] eqn:Lw; [|discriminate]. apply seqb_eq in Hl; subst g.
        apply lands_spec in Lw as [e [He [Hef Hne]]].
        destruct (entry_ok_field ps w (Hok w Hw)) as [e' [He' Hfld]].
        rewrite He in He'. injection He' as <-.
        destruct (we_src w) as [g|z|m ee|s] eqn:S.
        * destruct (Hfld g eq_refl) as [K|K]; [|rewrite Hef in K; rewrite K in Hne; simpl in Hne; discriminate Hne].
          assert (Hgf : g = f) by congruence. rewrite Hgf in *. clear Hgf K.
          exists (we_key w, tf_print A (we_tf w) (we_kind w) x). split.
          -- unfold print. apply in_flat_map. exists w; split; auto.
             unfold print_entry. rewrite Hcnd, S, Hx. left; auto.
          -- unfold hits; simpl. rewrite He, Hef, seqb_refl, Hne; simpl.
             apply (Hcodec w f x e Hw Hcnd S Hx He).
        * destruct (Hconst w (VInt z) e Hw Hcnd) as [v' [C1 C2]]; [rewrite S; auto | auto | rewrite Hef; auto |].
          exists (we_key w, VInt z). split.
          -- unfold print. apply in_flat_map. exists w; split; auto.
             unfold print_entry. rewrite Hcnd, S. left; auto.
          -- unfold hits; simpl. rewrite He, Hef, seqb_refl, Hne; simpl. rewrite C1. rewrite Hef in C2. congruence.
        * destruct (Hconst w (VNum (adec A m ee)) e Hw Hcnd) as [v' [C1 C2]]; [rewrite S; auto | auto | rewrite Hef; auto |].
          exists (we_key w, VNum (adec A m ee)). split.
          -- unfold print. apply in_flat_map. exists w; split; auto.
             unfold print_entry. rewrite Hcnd, S. left; auto.
          -- unfold hits; simpl. rewrite He, Hef, seqb_refl, Hne; simpl. rewrite C1. rewrite Hef in C2. congruence.
        * destruct (Hconst w (VWord s) e Hw Hcnd) as [v' [C1 C2]]; [rewrite S; auto | auto | rewrite Hef; auto |].
          exists (we_key w, VWord s). split.
          -- unfold print. apply in_flat_map. exists w; split; auto.
             unfold print_entry. rewrite Hcnd, S. left; auto.
          -- unfold hits; simpl. rewrite He, Hef, seqb_refl, Hne; simpl. rewrite C1. rewrite Hef in C2. congruence.
      + left. rewrite <- Hx. symmetry. apply Hdef; auto.
        intros w Hw Hcnd Hl.
        assert (existsb (fun w => eval_cond A (we_cond w) r &&
                  match lands ps w with Some g => String.eqb g f | None => false end) pr = true).
        { apply existsb_exists. exists w; split; auto. rewrite Hcnd, Hl, seqb_refl. auto. }
        congruence.
  Qed.

  Lemma compatible_modulo : forall ps pr, compatible ps pr = true -> compatible_modulo_gaps ps pr = true.
  Proof. intros ps pr H. unfold compatible in H. apply andb_true_iff in H. tauto. Qed.

  Theorem parse_print_roundtrip : forall ps pr,
    wf_parse ps = true -> wf_print pr = true -> compatible ps pr = true ->
    forall r : record, in_domain A ps pr r -> parse A ps (print A pr r) = r.
  Proof. intros ps pr _ _ H. apply parse_print_roundtrip_gen. apply compatible_modulo; auto. Qed.

  Theorem print_parse_print_idempotent : forall ps pr,
    compatible_modulo_gaps ps pr = true ->
    forall r : record, in_domain A ps pr r ->
    print A pr (parse A ps (print A pr r)) = print A pr r.
  Proof. intros. rewrite parse_print_roundtrip_gen; auto. Qed.

  (* second load/save of ANY block b (also one not written by this writer): once the record read
     from b is in the domain, saving, loading and saving again reproduces the saved text *)
  Theorem save_load_save_fixpoint : forall ps pr,
    compatible_modulo_gaps ps pr = true ->
    forall b : list line, in_domain A ps pr (parse A ps b) ->
    print A pr (parse A ps (print A pr (parse A ps b))) = print A pr (parse A ps b).
  Proof. intros. apply print_parse_print_idempotent; auto. Qed.

  (* the shape condition of [in_domain] is met by whatever the reader returns *)
  Lemma parse_shape : forall ps (b : list line), map fst (parse A ps b) = map fst (defaults A ps).
  Proof. intros. unfold parse. apply map_fst_fold. Qed.

  (* unknown keys are skipped *)
  Lemma parse_unknown_key : forall ps (b : list line) k v,
    find_pe ps (lower k) = None -> parse A ps (b ++ [(k, v)]) = parse A ps b.
  Proof.
    intros. unfold parse. rewrite fold_left_app. simpl. unfold parse_line at 1. simpl. rewrite H. auto.
  Qed.
End Rec.

(* ---- no gaps: every stored field is written by some entry ------------------------------------------ *)
Lemma gap_free_covers : forall ps pr, gaps ps pr = [] ->
  forall e, In e ps -> pe_field e <> "" ->
  exists w, In w pr /\ exists e', find_pe ps (lower (we_key w)) = Some e' /\ pe_field e' = pe_field e.
Proof.
  intros ps pr H e He Hne. unfold gaps in H.
  assert (K : ~ In e (filter (fun e => negb (String.eqb (pe_field e) "") &&
                   negb (existsb (String.eqb (pe_field e)) (printed_fields ps pr))) ps)).
  { intro K. apply (in_map pe_key) in K. rewrite H in K. destruct K. }
  rewrite filter_In in K.
  destruct (existsb (String.eqb (pe_field e)) (printed_fields ps pr)) eqn:E.
  - apply existsb_exists in E as [g [Hg Hge]]. apply seqb_eq in Hge. subst g.
    unfold printed_fields in Hg. apply in_flat_map in Hg as [w [Hw Hg]].
    exists w; split; auto. destruct (find_pe ps (lower (we_key w))) as [e'|]; [|destruct Hg].
    destruct Hg as [Hg|[]]. eauto.
  - exfalso. apply K. split; auto. apply seqb_neq in Hne. rewrite Hne. auto.
Qed.

(* ---- refutation helper: a boolean inequality witness ---------------------------------------------- *)
Definition value_eqb (a b : @value PrimFloat.float) : bool :=
  match a, b with
  | VInt x, VInt y => Z.eqb x y
  | VNum x, VNum y => PrimFloat.eqb x y
  | VStr x, VStr y => String.eqb x y
  | VWord x, VWord y => String.eqb x y
  | VTab x, VTab y => (Nat.eqb (length x) (length y)) &&
                      forallb (fun p => PrimFloat.eqb (fst (fst p)) (fst (snd p)) && PrimFloat.eqb (snd (fst p)) (snd (snd p))) (combine x y)
  | _, _ => false
  end.
Definition ovalue_eqb (a b : option (@value PrimFloat.float)) : bool :=
  match a, b with Some x, Some y => value_eqb x y | None, None => true | _, _ => false end.

Lemma neq_by_eqb : forall (a b : option (@value PrimFloat.float)),
  ovalue_eqb a b = false -> ovalue_eqb b b = true -> a <> b.
Proof. intros a b H1 H2 E. subst. congruence. Qed.

(* ---- the MaxArea codec over the reals --------------------------------------------------------------- *)
Local Open Scope R_scope.
Lemma maxarea_roundtrip : forall d : R, d > 0 -> sqrt (4 * (PI * d ^ 2 / 4) / PI) = d.
Proof.
  intros d Hd. replace (4 * (PI * d ^ 2 / 4) / PI) with (d * d).
  - apply sqrt_square. lra.
  - field. apply PI_neq0.
Qed.

(* the other direction, as the code composes it: field A > 0 is written as d = sqrt(4A/PI) and
   read back as d * (PI * d / 4) *)
Lemma maxarea_field_roundtrip : forall a : R, 0 < a ->
  let d := sqrt (4 * a / PI) in d * (PI * d / 4) = a /\ 0 < d.
Proof.
  intros a Ha d. assert (Hp := PI_RGT_0).
  assert (Hq : 0 < 4 * a / PI) by (apply Rdiv_lt_0_compat; lra).
  split.
  - replace (d * (PI * d / 4)) with (PI / 4 * (d * d)) by field.
    unfold d. rewrite sqrt_sqrt by lra. field. lra.
  - apply sqrt_lt_R0; auto.
Qed.

(* ---- value codecs over the reals: well-typed values in range survive print/parse --------------------- *)
Definition value_ok (pk wk : kind) (pt wt : transform) (v : @value R) : Prop :=
  match wk, wt, v with
  | KInt, TId, VInt _ => pk = KInt /\ pt = TId
  | KInt, TOff k, VInt _ => pk = KInt /\ pt = TOff k
  | KInt, TBits m, VInt z => pk = KInt /\ pt = TBits m /\ Z.land z m = z
  | KBool, TId, VInt z => pk = KBool /\ (z = 0%Z \/ z = 1%Z)
  | KNum, TId, VNum _ => pk = KNum /\ pt = TId
  | KNum, TNegM1, VNum x => pk = KNum /\ pt = TId /\ (0 <= x \/ x = -1)
  | KNum, TMaxArea, VNum a => pk = KNum /\ pt = TMaxArea /\ 0 <= a
  | KStr, TId, VStr _ => pk = KStr
  | KTab _, TId, VTab l => match pk with
                           | KTab (Some n) => (length l <= n)%nat
                           | KTab None => True
                           | _ => False end
  | KEnum wm, TId, VWord en => exists w pm, pk = KEnum pm /\ lookup en wm = Some w /\ lookup w pm = Some en
  | _, _, _ => False
  end.

Lemma codec_R : forall pk wk pt wt v, value_ok pk wk pt wt v ->
  conv RA pk pt (tf_print RA wt wk v) = Some v.
Proof.
  intros pk wk pt wt v H.
  destruct wk as [| | | |wcap|wm]; destruct wt as [|k| | |msk]; destruct v as [z|x|s|wd|l]; simpl in H; try contradiction.
  - destruct H as [-> ->]. reflexivity.
  - destruct H as [-> ->]. simpl. f_equal. f_equal. lia.
  - destruct H as [-> [-> H]]. simpl. rewrite H. reflexivity.
  - destruct H as [-> ->]. reflexivity.
  - (* MaxArea *)
    destruct H as [-> [-> H]]. simpl. ra_simpl.
    destruct (Rltb 0 x) eqn:E.
    + apply Rltb_true in E. destruct (maxarea_field_roundtrip x E) as [H1 H2]. cbv zeta in H1, H2.
      assert (Rleb (sqrt (4 * x / PI)) 0 = false) as -> by (apply Rleb_false; lra).
      f_equal. f_equal. replace (IZR 4) with 4 by reflexivity. lra.
    + apply Rltb_false in E. assert (x = 0) by lra. subst x.
      match goal with |- context [Rleb ?a ?b] =>
        assert (Rleb a b = true) as -> by (apply Rleb_true; lra) end. reflexivity.
  - destruct H as [-> [-> H]]. simpl. ra_simpl. destruct (Rltb x 0) eqn:E.
    + apply Rltb_true in E. destruct H; [lra | subst; reflexivity].
    + reflexivity.
  - destruct H as [-> H]. simpl. destruct H as [-> | ->]; reflexivity.
  - rewrite H. reflexivity.
  - destruct pk as [| | | |pcap|pm]; try contradiction. destruct pcap as [n|]; simpl.
    + rewrite firstn_all2; auto.
    + reflexivity.
  - destruct H as [w0 [pm0 [-> [H1 H2]]]]. simpl. rewrite H1. simpl. rewrite H2. reflexivity.
Qed.

(* ---- quoting: the last quote of the line ends a name, so names with quotes inside survive ------------- *)
Local Open Scope string_scope.
Local Close Scope R_scope.

Lemma last_quote_app_quote : forall s, last_quote (s ++ String """"%char EmptyString) = Some (String.length s).
Proof.
  induction s as [|c r IH]; simpl; auto.
  rewrite IH. reflexivity.
Qed.

Lemma substring_prefix : forall s t, substring 0 (String.length s) (s ++ t) = s.
Proof. induction s as [|c r IH]; simpl; intros; [destruct t; auto | rewrite IH; auto]. Qed.

Lemma unquote_quote : forall s, unquote (quote s) = Some s.
Proof.
  intros s. unfold quote, unquote. rewrite Ascii.eqb_refl.
  rewrite last_quote_app_quote. rewrite substring_prefix. reflexivity.
Qed.

(* ---- gaps lose information: automatic witnesses (binary64 reading, decided by vm_compute) ------------ *)
Definition other_value (k : kind) (d : @value PrimFloat.float) : @value PrimFloat.float :=
  match k, d with
  | KBool, VInt z => VInt (if Z.eqb z 0 then 1 else 0)%Z
  | _, VInt z => VInt (z + 1)%Z
  | _, VNum x => VNum (PrimFloat.add x PrimFloat.one)
  | _, VStr s => VStr (s ++ "x")
  | _, VTab l => VTab ((PrimFloat.one, PrimFloat.two) :: l)
  | KEnum m, VWord w => match filter (fun p => negb (String.eqb (snd p) w)) m with
                        | p :: _ => VWord (snd p) | [] => VWord w end
  | _, VWord w => VWord (w ++ "x")
  end.

Fixpoint find_named (l : list named) (c : string) : option named :=
  match l with
  | [] => None
  | n :: t => if String.eqb (fst (fst n)) c then Some n else find_named t c
  end.

(* the record that differs from the constructor state only in the field stored by key [k] *)
Definition gap_witness (ps : parse_schema) (e : pentry) : list (string * @value PrimFloat.float) :=
  let d := defaults FA ps in
  match get (pe_field e) d with
  | Some v => set (pe_field e) (other_value (pe_kind e) v) d
  | None => d
  end.

Definition gap_check (l : list named) (g : string * string) : bool :=
  match find_named l (fst g) with
  | Some (_, ps, pr) =>
      match find_pe ps (snd g) with
      | Some e =>
          let r := gap_witness ps e in
          negb (ovalue_eqb (get (pe_field e) (parse FA ps (print FA pr r))) (get (pe_field e) r)) &&
          ovalue_eqb (get (pe_field e) r) (get (pe_field e) r)
      | None => false
      end
  | None => false
  end.

Definition gap_loses (l : list named) (g : string * string) : Prop :=
  exists ps pr e (r : list (string * @value PrimFloat.float)),
    In (fst g, ps, pr) l /\ find_pe ps (snd g) = Some e /\
    map fst r = map fst (defaults FA ps) /\
    (forall f, f <> pe_field e -> get f r = get f (defaults FA ps)) /\
    get (pe_field e) (parse FA ps (print FA pr r)) <> get (pe_field e) r.

Lemma find_named_in : forall l c n, find_named l c = Some n -> In n l /\ fst (fst n) = c.
Proof.
  induction l as [|m t IH]; simpl; intros c n H; [discriminate|].
  destruct (String.eqb (fst (fst m)) c) eqn:E.
  - injection H as <-. split; auto. apply String.eqb_eq; auto.
  - destruct (IH c n H); auto.
Qed.

Lemma gap_check_sound : forall l g, gap_check l g = true -> gap_loses l g.
Proof.
  intros l [c k] H. unfold gap_check in H. simpl in H.
  destruct (find_named l c) as [[[c' ps] pr]|] eqn:Fn; [|discriminate].
  destruct (find_named_in l c _ Fn) as [Hin Hc]. simpl in Hc. subst c'.
  destruct (find_pe ps k) as [e|] eqn:Fe; [|discriminate].
  apply andb_true_iff in H as [H1 H2]. apply negb_true_iff in H1.
  exists ps, pr, e, (gap_witness ps e). simpl. repeat split; auto.
  - unfold gap_witness. destruct (get (pe_field e) (defaults FA ps)); auto. apply map_fst_set.
  - intros f Hf. unfold gap_witness. destruct (get (pe_field e) (defaults FA ps)); auto.
    apply get_set_other; auto.
  - apply neq_by_eqb; auto.
Qed.

Lemma gap_checks_sound : forall l gs, forallb (gap_check l) gs = true -> forall g, In g gs -> gap_loses l g.
Proof. intros l gs H g Hg. rewrite forallb_forall in H. apply gap_check_sound; auto. Qed.
