(* Properties_C13_contour.v — theorem statements about the contour (line) integrals of the three post-processors
   (part of C13: contour length equals the drawn length, additivity, relation to the potentials).
   Model: ContourInt.v (ElectrostaticsPostProcessor::lineIntegral, HPProc::lineIntegral, FPProc::LineIntegral,
   PostProcessor::addContourPoint / bendContour); proofs: ContourIntProofs.v.
   All statements are about the real-number reading RA.  A contour is the list of its points; the point values
   of the samples are a table (one row per segment, one entry per sample, None = sample outside the mesh). *)
Set Warnings "-ambiguous-paths".
From Coquelicot Require Import Coquelicot.
From Coq Require Import ZArith List Bool Arith Lia Reals Lra.
From XF Require Import Arith Locate ContourInt ContourIntProofs.
Import ListNotations.
Local Open Scope R_scope.

Local Notation C := (R * R)%type.

(* ===================================== contour length ====================================== *)

(* integral type 2, first result (the same text in the three classes): LengthConv times the sum of the
   Euclidean lengths of the segments of the contour, planar and axisymmetric alike *)
Theorem C13_contour_length_is_sum_of_segment_lengths :
  forall (axi : bool) (lc depth : R) (c : list C),
  fst (line_length RA axi lc depth c) = Rsum (seg_lens c) * lc.
Proof. exact line_length_fst. Qed.
Print Assumptions C13_contour_length_is_sum_of_segment_lengths.

(* second result, planar: the length times Depth *)
Theorem C13_contour_planar_area_is_length_times_depth :
  forall (lc depth : R) (c : list C),
  snd (line_length RA false lc depth c) = Rsum (seg_lens c) * lc * depth.
Proof. exact line_length_snd_planar. Qed.
Print Assumptions C13_contour_planar_area_is_length_times_depth.

(* second result, axisymmetric: LengthConv^2 times the sum of pi (r_a + r_b) |b - a| ... *)
Theorem C13_contour_revolved_area_is_sum_of_frustums :
  forall (lc depth : R) (c : list C),
  snd (line_length RA true lc depth c) = Rsum (seg_areas c) * (lc * lc).
Proof. exact line_length_snd_axi. Qed.
Print Assumptions C13_contour_revolved_area_is_sum_of_frustums.

(* ... and pi (r_a + r_b) |b - a| is exactly the lateral area of the cone frustum the segment sweeps:
   the integral of 2 pi r ds along the segment *)
Theorem C13_frustum_term_is_the_revolved_segment_area :
  forall (a b : C),
  frustum a b = RInt (fun t => 2 * PI * (fst a + t * (fst b - fst a)) * seglen a b) 0 1.
Proof. exact frustum_is_integral. Qed.
Print Assumptions C13_frustum_term_is_the_revolved_segment_area.

(* a contour laid along drawn lines: adding the points of a polyline (no point repeated immediately) one by one
   through addContourPoint gives exactly that polyline, so that the contour length is the drawn length *)
Theorem C13_contour_along_drawn_points_is_the_polyline :
  forall (pts : list C), no_repeat pts -> fold_left (add_contour_point RA) pts [] = pts.
Proof. exact add_contour_points_polyline. Qed.
Print Assumptions C13_contour_along_drawn_points_is_the_polyline.

Theorem C13_contour_length_is_the_drawn_length :
  forall (axi : bool) (lc depth : R) (pts : list C), no_repeat pts ->
  fst (line_length RA axi lc depth (fold_left (add_contour_point RA) pts [])) = Rsum (seg_lens pts) * lc.
Proof. intros axi lc depth pts H. rewrite add_contour_points_polyline by exact H. apply line_length_fst. Qed.
Print Assumptions C13_contour_length_is_the_drawn_length.

(* intermediate contour points ON a drawn segment (a drawn line selected in several pieces) change neither
   the length nor the swept area *)
Theorem C13_contour_length_invariant_under_subdivision :
  forall (c1 c2 : list C) (a b : C) (s : R), 0 <= s <= 1 ->
  let p := (fst a + s * (fst b - fst a), snd a + s * (snd b - snd a)) in
  Rsum (seg_lens (c1 ++ a :: p :: b :: c2)) = Rsum (seg_lens (c1 ++ a :: b :: c2)).
Proof. exact seg_lens_insert. Qed.
Print Assumptions C13_contour_length_invariant_under_subdivision.

Theorem C13_contour_revolved_area_invariant_under_subdivision :
  forall (c1 c2 : list C) (a b : C) (s : R), 0 <= s <= 1 ->
  let p := (fst a + s * (fst b - fst a), snd a + s * (snd b - snd a)) in
  Rsum (seg_areas (c1 ++ a :: p :: b :: c2)) = Rsum (seg_areas (c1 ++ a :: b :: c2)).
Proof. exact seg_areas_insert. Qed.
Print Assumptions C13_contour_revolved_area_invariant_under_subdivision.

(* a contour built by addContourPoint alone has no zero-length segment (t/=abs(t) never divides by zero) *)
Theorem C13_add_contour_point_keeps_segments_nonzero :
  forall (c : list C) (p : C), no_repeat c -> no_repeat (add_contour_point RA c p).
Proof. exact add_contour_point_no_repeat. Qed.
Print Assumptions C13_add_contour_point_keeps_segments_nonzero.

(* ===================================== concatenation ======================================= *)
(* the contour c1 ++ j :: c2 is the contour c1 ++ [j] followed by the contour j :: c2; its table of sample
   values is the concatenation of theirs *)

Theorem C13_contour_length_and_area_additive :
  forall (axi : bool) (lc depth : R) (c1 c2 : list C) (j : C),
  line_length RA axi lc depth (c1 ++ j :: c2)
  = (fst (line_length RA axi lc depth (c1 ++ [j])) + fst (line_length RA axi lc depth (j :: c2)),
     snd (line_length RA axi lc depth (c1 ++ [j])) + snd (line_length RA axi lc depth (j :: c2))).
Proof. exact line_length_concat. Qed.
Print Assumptions C13_contour_length_and_area_additive.

(* electrostatics: the first result of every integral type (E.t, D.n, length, force x, torque) is additive;
   Vj is the potential at the joint *)
Theorem C13_E_line_integrals_additive :
  forall (N : nat) (axi : bool) (lc depth : R) (t : nat) (c1 c2 : list C) (j : C)
         (t1 t2 : list (list (option (C * C)))) (V0 Vj V1 : R),
  length t1 = length (pairs (c1 ++ [j])) ->
  fst (e_line RA N axi lc depth t (c1 ++ j :: c2) (t1 ++ t2) V0 V1)
  = fst (e_line RA N axi lc depth t (c1 ++ [j]) t1 V0 Vj) + fst (e_line RA N axi lc depth t (j :: c2) t2 Vj V1).
Proof. exact e_line_concat_fst. Qed.
Print Assumptions C13_E_line_integrals_additive.

(* ... the second result of types 2 (swept area) and 3 (force y) too; the second result of type 1 is the
   average D.n (a quotient), not additive *)
Theorem C13_E_line_integrals_additive_second :
  forall (N : nat) (axi : bool) (lc depth : R) (t : nat) (c1 c2 : list C) (j : C)
         (t1 t2 : list (list (option (C * C)))) (V0 Vj V1 : R),
  length t1 = length (pairs (c1 ++ [j])) -> (t = 2 \/ t = 3)%nat ->
  snd (e_line RA N axi lc depth t (c1 ++ j :: c2) (t1 ++ t2) V0 V1)
  = snd (e_line RA N axi lc depth t (c1 ++ [j]) t1 V0 Vj) + snd (e_line RA N axi lc depth t (j :: c2) t2 Vj V1).
Proof. exact e_line_concat_snd. Qed.
Print Assumptions C13_E_line_integrals_additive_second.

(* heat flow: G.t, F.n, length *)
Theorem C13_H_line_integrals_additive :
  forall (N : nat) (axi : bool) (lc depth : R) (t : nat) (c1 c2 : list C) (j : C)
         (t1 t2 : list (list (option (C * R)))) (T0 Tj T1 : R),
  length t1 = length (pairs (c1 ++ [j])) -> (t <> 3)%nat ->
  fst (h_line RA N axi lc depth t (c1 ++ j :: c2) (t1 ++ t2) T0 T1)
  = fst (h_line RA N axi lc depth t (c1 ++ [j]) t1 T0 Tj) + fst (h_line RA N axi lc depth t (j :: c2) t2 Tj T1).
Proof. exact h_line_concat_fst. Qed.
Print Assumptions C13_H_line_integrals_additive.

(* average temperature (type 3): the weights add, and the averages combine weighted *)
Theorem C13_H_average_temperature_combines_weighted :
  forall (N : nat) (axi : bool) (lc depth : R) (c1 c2 : list C) (j : C)
         (t1 t2 : list (list (option (C * R)))) (T0 Tj T1 : R),
  length t1 = length (pairs (c1 ++ [j])) ->
  let whole := h_line RA N axi lc depth 3 (c1 ++ j :: c2) (t1 ++ t2) T0 T1 in
  let p1 := h_line RA N axi lc depth 3 (c1 ++ [j]) t1 T0 Tj in
  let p2 := h_line RA N axi lc depth 3 (j :: c2) t2 Tj T1 in
  snd whole = snd p1 + snd p2 /\
  (snd whole <> 0 -> snd p1 <> 0 -> snd p2 <> 0 -> fst whole * snd whole = fst p1 * snd p1 + fst p2 * snd p2).
Proof. exact h_line3_concat. Qed.
Print Assumptions C13_H_average_temperature_combines_weighted.

(* magnetics (static and harmonic): z[0] of every integral type is additive (complex addition) *)
Theorem C13_M_line_integrals_additive :
  forall (N : nat) (axi : bool) (lc depth : R) (harm : bool) (t : nat) (c1 c2 : list C) (j : C)
         (t1 t2 : list (list (option ((C * C) * (C * C))))) (A0 Aj A1 : C) (zin : C * C * C * C),
  length t1 = length (pairs (c1 ++ [j])) -> (t <= 5)%nat ->
  m_z0 (m_line RA N axi lc depth harm t (c1 ++ j :: c2) (t1 ++ t2) A0 A1 zin)
  = cadd RA (m_z0 (m_line RA N axi lc depth harm t (c1 ++ [j]) t1 A0 Aj zin))
            (m_z0 (m_line RA N axi lc depth harm t (j :: c2) t2 Aj A1 zin)).
Proof. exact m_line_concat_z0. Qed.
Print Assumptions C13_M_line_integrals_additive.

(* ... and z[1], z[2], z[3] of the stress-tensor force *)
Theorem C13_M_force_components_additive :
  forall (N : nat) (axi : bool) (lc depth : R) (harm : bool) (c1 c2 : list C) (j : C)
         (t1 t2 : list (list (option ((C * C) * (C * C))))) (A0 Aj A1 : C) (zin : C * C * C * C),
  length t1 = length (pairs (c1 ++ [j])) ->
  let whole := m_line RA N axi lc depth harm 3 (c1 ++ j :: c2) (t1 ++ t2) A0 A1 zin in
  let p1 := m_line RA N axi lc depth harm 3 (c1 ++ [j]) t1 A0 Aj zin in
  let p2 := m_line RA N axi lc depth harm 3 (j :: c2) t2 Aj A1 zin in
  m_z1 whole = cadd RA (m_z1 p1) (m_z1 p2) /\ m_z2 whole = cadd RA (m_z2 p1) (m_z2 p2) /\ m_z3 whole = cadd RA (m_z3 p1) (m_z3 p2).
Proof. exact m_line_concat_force. Qed.
Print Assumptions C13_M_force_components_additive.

(* ======================================== reversal ========================================= *)

(* length and swept area do not depend on the direction of travel *)
Theorem C13_contour_length_and_area_unchanged_by_reversal :
  forall (axi : bool) (lc depth : R) (c : list C),
  line_length RA axi lc depth (rev c) = line_length RA axi lc depth c.
Proof. exact line_length_rev. Qed.
Print Assumptions C13_contour_length_and_area_unchanged_by_reversal.

(* E.t / G.t (type 0) is the potential at the first point minus the potential at the last point: it changes
   sign when the ends are exchanged *)
Theorem C13_E_tangential_integral_is_potential_drop :
  forall (N : nat) (axi : bool) (lc depth : R) (c : list C) tab (V0 V1 : R),
  fst (e_line RA N axi lc depth 0 c tab V0 V1) = V0 - V1 /\
  fst (e_line RA N axi lc depth 0 (rev c) tab V1 V0) = - fst (e_line RA N axi lc depth 0 c tab V0 V1).
Proof. intros. cbn [e_line fst]. ra_simpl. split; ring. Qed.
Print Assumptions C13_E_tangential_integral_is_potential_drop.

(* the sampled integrals use the LEFT unit normal n = I*t of the direction of travel ... *)
Theorem C13_normal_is_the_left_unit_normal :
  forall (a b : C), a <> b ->
  seg_n RA a b = (- ((snd b - snd a) / seglen a b), (fst b - fst a) / seglen a b) /\
  fst (seg_n RA a b) * fst (seg_n RA a b) + snd (seg_n RA a b) * snd (seg_n RA a b) = 1.
Proof. intros a b H. split; [apply seg_n_real|apply seg_n_unit; exact H]. Qed.
Print Assumptions C13_normal_is_the_left_unit_normal.

(* ... so that the D.n integral of a uniform flux density over the reversed segment is the negative (planar;
   in an axisymmetric problem the weight 2 pi r is taken at the sample points, which are shifted by 1e-6 to the
   left of the direction of travel, and the two values differ in that term, see the axisymmetric closed form) *)
Theorem C13_E_flux_changes_sign_under_reversal_planar :
  forall (N : nat) (lc depth : R) (a b : C) (v : C * C), N <> 0%nat -> a <> b ->
  seg_sum Rplus N (e_dn_term RA N false lc depth b a) (repeat (Some v) N) 0
  = - seg_sum Rplus N (e_dn_term RA N false lc depth a b) (repeat (Some v) N) 0.
Proof. exact e_dn_segment_reversed. Qed.
Print Assumptions C13_E_flux_changes_sign_under_reversal_planar.

(* ==================================== the sampling ========================================= *)

(* every segment gets exactly N = d_LineIntegralPoints samples (400 after construction), whatever its
   length, and the run has one row per segment; any reading *)
Theorem C13_sampling_count :
  forall {F : Type} (A : Arith F) (N : nat) (M : mesh F) (test : mesh F -> F -> F -> Z -> bool) (con : list (list Z))
         (shift : bool) (ps : list ((F * F) * (F * F))) (k : Z),
  length (contour_run A N M test con shift ps k) = length ps /\
  List.Forall (fun row => length row = N) (contour_run A N M test con shift ps k).
Proof. exact @contour_run_shape. Qed.
Print Assumptions C13_sampling_count.

(* the samples sit at the mid-points of N equal pieces of the segment: u_i = (i + 1/2)/N in (0,1) ... *)
Theorem C13_sample_parameters_are_midpoints :
  forall (N i : nat), (i < N)%nat ->
  samp_u RA N i = (INR i + / 2) / INR N /\ 0 < samp_u RA N i < 1.
Proof. intros N i H. split; [apply samp_u_real|apply samp_u_in_unit; exact H]. Qed.
Print Assumptions C13_sample_parameters_are_midpoints.

(* ... moved by 1e-6 drawing units along the left normal *)
Theorem C13_sample_points :
  forall (N : nat) (a b : C) (i : nat),
  samp_pt RA N a b i
  = (fst a + samp_u RA N i * (fst b - fst a) + fst (seg_n RA a b) * adec RA 1 (-6),
     snd a + samp_u RA N i * (snd b - snd a) + snd (seg_n RA a b) * adec RA 1 (-6)).
Proof. intros. rewrite samp_pt_real, samp_base_real. reflexivity. Qed.
Print Assumptions C13_sample_points.

(* mid-point rule exact for a field that is the same at all samples of a segment (planar D.n):
   (D x (b - a)) Depth LengthConv, independent of N *)
Theorem C13_E_flux_of_uniform_field_exact_planar :
  forall (N : nat) (lc depth : R) (a b : C) (v : C * C), N <> 0%nat -> a <> b ->
  seg_sum Rplus N (e_dn_term RA N false lc depth a b) (repeat (Some v) N) 0
  = (snd (fst v) * (fst b - fst a) - fst (fst v) * (snd b - snd a)) * (depth * lc).
Proof. exact e_dn_segment_exact. Qed.
Print Assumptions C13_E_flux_of_uniform_field_exact_planar.

(* axisymmetric: the mid-point rule is exact for the linear weight 2 pi r as well; the radius is that of the
   shifted sample points *)
Theorem C13_E_flux_of_uniform_field_exact_axisymmetric :
  forall (N : nat) (lc depth : R) (a b : C) (v : C * C), N <> 0%nat -> a <> b ->
  seg_sum Rplus N (e_dn_term RA N true lc depth a b) (repeat (Some v) N) 0
  = (snd (fst v) * (fst b - fst a) - fst (fst v) * (snd b - snd a))
    * (2 * PI * ((fst a + fst b) / 2 + fst (seg_n RA a b) * adec RA 1 (-6)) * (lc * lc)).
Proof. exact e_dn_segment_exact_axi. Qed.
Print Assumptions C13_E_flux_of_uniform_field_exact_axisymmetric.

(* ============================ magnetics: B.n and the potential ============================== *)

(* what the code returns for B.n (type 0): no sampling, the difference of A at the ends; planar
   (A(first) - A(last)) Depth, axisymmetric A(last) - A(first) with A = 2 pi r A_phi *)
Theorem C13_M_normal_flux_is_potential_difference :
  forall (N : nat) (lc depth : R) (harm : bool) (c : list C) tab (A0 A1 : C) zin,
  m_z0 (m_line RA N false lc depth harm 0 c tab A0 A1 zin) = ((fst A0 - fst A1) * depth, (snd A0 - snd A1) * depth) /\
  m_z0 (m_line RA N true lc depth harm 0 c tab A0 A1 zin) = (fst A1 - fst A0, snd A1 - snd A0).
Proof. intros. split; [apply m_line0_planar|apply m_line0_axi]. Qed.
Print Assumptions C13_M_normal_flux_is_potential_difference.

(* the mid-point sum of (B.n) dl Depth over a segment inside ONE element (B = curl of an affine A with gradient
   g per drawing unit, n and dz as the code computes them) is exactly Depth (A(a) - A(b)) *)
Theorem C13_M_sampled_flux_of_curl_of_affine_potential :
  forall (N : nat) (lc depth : R) (a b : C) (g : R * R), N <> 0%nat -> a <> b -> lc <> 0 ->
  seg_sum Rplus N (bn_flux_term N lc depth a b) (repeat (Some (B_of_grad lc g)) N) 0
  = depth * - (fst g * (fst b - fst a) + snd g * (snd b - snd a)).
Proof. exact m_bn_segment_exact. Qed.
Print Assumptions C13_M_sampled_flux_of_curl_of_affine_potential.

(* telescoping: along any contour every segment of which lies in one element of a continuous piecewise-affine
   potential Af (and whose samples see that element), the sampled flux is Depth (Af(first) - Af(last)) — the value
   the code returns for type 0 when its end-point values are Af's *)
Theorem C13_M_sampled_flux_telescopes_to_potential_difference :
  forall (N : nat) (lc depth : R) (harm : bool) (Af : C -> R) (d : C) (c : list C) (grads : list (R * R)) tab zin,
  N <> 0%nat -> lc <> 0 ->
  Forall2 (fun (p : C * C) (g : R * R) =>
             fst p <> snd p /\ Af (snd p) - Af (fst p) = fst g * (fst (snd p) - fst (fst p)) + snd g * (snd (snd p) - snd (fst p)))
          (pairs c) grads ->
  cont_sum Rplus N (bn_flux_term N lc depth) (pairs c) (map (fun g => repeat (Some (B_of_grad lc g)) N) grads) 0
  = fst (m_z0 (m_line RA N false lc depth harm 0 c tab (Af (hd d c), 0) (Af (last c d), 0) zin)).
Proof.
  intros N lc depth harm Af d c grads tab zin HN Hlc H.
  rewrite m_line0_planar. cbn [fst]. rewrite (m_bn_contour_telescopes N lc depth Af d c grads HN Hlc H). ring.
Qed.
Print Assumptions C13_M_sampled_flux_telescopes_to_potential_difference.

(* ===================================== bendContour ========================================= *)

(* bendContour replaces the last point by one point per step; each inserted point is centre + (a0 - centre) e_k *)
Theorem C13_bend_contour_shape :
  forall (pre : list C) (a0 a1 : C) (angle sn : R) (e0 : C) (es : list C),
  angle <> 0 -> -180 <= angle <= 180 ->
  bend_contour RA (pre ++ [a0; a1]) angle sn e0 es
  = pre ++ a0 :: map (fun e => cadd RA (bend_centre a0 a1 sn e0) (cmul RA (csub RA a0 (bend_centre a0 a1 sn e0)) e)) es.
Proof. exact bend_contour_shape. Qed.
Print Assumptions C13_bend_contour_shape.

(* ... on the circle through a0 about that centre whenever exp(k I dtta) has modulus one *)
Theorem C13_bend_points_on_circle :
  forall (ctr a0 e : C), fst e * fst e + snd e * snd e = 1 ->
  let p := cadd RA ctr (cmul RA (csub RA a0 ctr) e) in
  (fst p - fst ctr) * (fst p - fst ctr) + (snd p - snd ctr) * (snd p - snd ctr)
  = (fst a0 - fst ctr) * (fst a0 - fst ctr) + (snd a0 - snd ctr) * (snd a0 - snd ctr).
Proof. exact bend_point_on_circle. Qed.
Print Assumptions C13_bend_points_on_circle.

(* ============================ the hypotheses are satisfiable =============================== *)
Example no_repeat_example : no_repeat [(0, 0); (1, 0); (1, 2)].
Proof. cbn. repeat split; intro H; inversion H; lra. Qed.

Example subdivision_example : 0 <= / 2 <= 1.
Proof. lra. Qed.

Example concat_table_example :
  length [[Some ((1, 0), (2, 0))]] = length (pairs ([(0, 0)] ++ [(1, 0)])).
Proof. reflexivity. Qed.

Example telescoping_hypothesis_example :
  let Af := fun p : C => 3 * fst p + 5 * snd p in
  Forall2 (fun (p : C * C) (g : R * R) =>
             fst p <> snd p /\ Af (snd p) - Af (fst p) = fst g * (fst (snd p) - fst (fst p)) + snd g * (snd (snd p) - snd (fst p)))
          (pairs [(0, 0); (1, 0); (1, 2)]) [(3, 5); (3, 5)].
Proof.
  cbv zeta. cbn [pairs]. repeat constructor; cbn [fst snd]; try ring; intro H; inversion H; lra.
Qed.

Example bend_hypothesis_example : (90 <> 0) /\ (-180 <= 90 <= 180).
Proof. lra. Qed.

Example unit_value_example : fst (0, 1) * fst (0, 1) + snd (0, 1) * snd (0, 1) = 1.
Proof. cbn. ring. Qed.
