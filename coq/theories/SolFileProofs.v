(* SolFileProofs.v — proofs about SolFile.v (the [Solution] part of result files, property C14):
   (a) generic round trip: for every compatible pair of schemas, reading what was written succeeds
       and yields every consumed field as printed-and-converted ([through_solution]); with no
       scaling and equal shapes this is the written data itself;
   (b) the boolean checker [compatible] (and the diagnosis [diagnose]) is sound for the hypothesis
       of (a);
   (c) coordinates: a coordinate x0 of the mesh is loaded as x0*l[u], printed as x0*l[u]/w[u] and
       kept as read; with l[u] = w[u] (checked on the regenerated tables) that is x0 over the reals. *)
From Coq Require Import String List ZArith Bool QArith Qreals Reals Lia Lra.
From XF Require Import Arith SolFile.
Import ListNotations.
Local Open Scope list_scope.

Section Generic.
  Context {F : Type} (A : Arith F).
  Local Notation tok := (@tok F).
  Local Notation line := (list tok).
  Local Notation env := (list (string * F)).

  (* printing without the separator bookkeeping *)
  Fixpoint print_plain (e : env) (fs : list field) (vs : line) : line :=
    match fs, vs with
    | f :: fs', v :: vs' => print_tok A e f v :: print_plain e fs' vs'
    | _, _ => []
    end.

  Lemma emit_noglue e fs : (forall f, In f fs -> f_glued f = false) ->
    forall vs acc, emit A e fs vs acc = rev acc ++ print_plain e fs vs.
  Proof.
    induction fs as [|f fs IH]; intros Hg vs acc; cbn [emit print_plain].
    - now rewrite app_nil_r.
    - destruct vs as [|v vs].
      + now rewrite app_nil_r.
      + rewrite (Hg f (or_introl eq_refl)).
        rewrite IH by (intros g Hin; apply Hg; now right).
        cbn [rev]. now rewrite <- app_assoc.
  Qed.

  Lemma print_line_noglue e fs vs : (forall f, In f fs -> f_glued f = false) ->
    print_line A e fs vs = print_plain e fs vs.
  Proof. intros Hg. unfold print_line. now rewrite emit_noglue. Qed.

  Lemma conv_through e r w v : type_ok (f_ty r) (f_ty w) = true -> tok_typed w v ->
    conv A e r (print_tok A e w v) = Some (through A e r w v).
  Proof.
    unfold through, conv, print_tok, tok_typed, type_ok.
    destruct (f_ty r), (f_ty w), v; intros; try discriminate; try contradiction; reflexivity.
  Qed.

  Lemma parse_fields_print e m rf wf : FieldsOK m rf wf -> forall vs, line_typed wf vs ->
    forall l, parse_fields A e m l rf (print_plain e wf vs) = Some (through_line A e rf wf vs).
  Proof.
    intros H vs Hty l. revert vs Hty. induction H as [|w wf Hm|r w rf wf Hn Ht Hok IH].
    - intros vs Hty. inversion Hty; subst. destruct m; reflexivity.
    - intros vs Hty. subst m. reflexivity.
    - intros vs Hty. inversion Hty as [|f v fs' vs' Hv Hrest]; subst.
      cbn [print_plain parse_fields through_line].
      rewrite (conv_through e r w v Ht Hv), (IH _ Hrest). reflexivity.
  Qed.

  Lemma parse_line_print e r w vs : SectionOK r w -> line_typed (s_fields w) vs ->
    parse_line A e r (print_line A e (s_fields w) vs) = Some (through_line A e (s_fields r) (s_fields w) vs).
  Proof.
    intros (Hg & Hc & Hf) Hty. unfold parse_line. rewrite Hc, (print_line_noglue e _ vs Hg).
    now apply parse_fields_print.
  Qed.

  Lemma parse_lines_print e r w recs : SectionOK r w -> Forall (line_typed (s_fields w)) recs ->
    parse_lines A e r (map (print_line A e (s_fields w)) recs) =
    Some (map (through_line A e (s_fields r) (s_fields w)) recs).
  Proof.
    intros Hok. induction recs as [|vs recs IH]; intros Hty; cbn [map parse_lines].
    - reflexivity.
    - inversion Hty; subst. rewrite (parse_line_print e r w vs Hok) by assumption.
      rewrite IH by assumption. reflexivity.
  Qed.

  Lemma parse_section_print e r w recs rest : SectionOK r w -> Forall (line_typed (s_fields w)) recs ->
    parse_section A e r (print_section A e w recs ++ rest) =
    Some (map (through_line A e (s_fields r) (s_fields w)) recs, rest).
  Proof.
    intros Hok Hty. unfold print_section, parse_section. cbn [app].
    assert (Hn : (Z.of_nat (length recs) <? 0)%Z = false) by (apply Z.ltb_ge; lia).
    rewrite Hn, Nat2Z.id.
    set (L := map (print_line A e (s_fields w)) recs).
    assert (HL : length L = length recs) by apply map_length.
    assert (Hlt : Nat.ltb (length (L ++ rest)) (length recs) = false).
    { apply Nat.ltb_ge. rewrite app_length. lia. }
    rewrite Hlt. rewrite <- HL.
    rewrite firstn_app, skipn_app, Nat.sub_diag, firstn_all, skipn_all.
    cbn [firstn skipn app]. rewrite app_nil_r. unfold L.
    rewrite (parse_lines_print e r w recs Hok Hty). reflexivity.
  Qed.

  (* (a) the generic round trip, with whatever follows the sections the reader knows *)
  Theorem parse_print_roundtrip_k e rs ws : Compatible rs ws -> forall sol tail, sol_typed ws sol ->
    parse_solution_k A e rs (print_solution A e ws sol ++ tail) =
    Some (through_solution A e rs ws sol,
          print_solution A e (skipn (length rs) ws) (skipn (length rs) sol) ++ tail).
  Proof.
    induction 1 as [ws|r w rs ws Hsec Hc IH]; intros sol tail Hty.
    - reflexivity.
    - inversion Hty as [|w' recs ws' sol' Hrecs Hrest]; subst.
      cbn [print_solution parse_solution_k through_solution length skipn].
      rewrite <- app_assoc.
      rewrite (parse_section_print e r w recs _ Hsec Hrecs), (IH _ tail Hrest). reflexivity.
  Qed.

  Theorem parse_print_roundtrip e rs ws : Compatible rs ws -> forall sol, sol_typed ws sol ->
    parse_solution A e rs (print_solution A e ws sol) = Some (through_solution A e rs ws sol).
  Proof.
    intros Hc sol Hty. unfold parse_solution.
    pose proof (parse_print_roundtrip_k e rs ws Hc sol [] Hty) as H. rewrite app_nil_r in H.
    rewrite app_nil_r in H. rewrite H. reflexivity.
  Qed.

  (* what [through] is, field by field *)
  Lemma through_dbl e r w x : f_ty r = TDbl -> f_ty w = TDbl ->
    through A e r w (TD x) = TD (apply_scale A e (f_scale r) (apply_scale A e (f_scale w) x)).
  Proof. intros Hr Hw. unfold through, conv, print_tok. now rewrite Hr, Hw. Qed.
  Lemma through_int e r w z : f_ty r = TInt -> f_ty w = TInt -> through A e r w (TI z) = TI z.
  Proof. intros Hr Hw. unfold through, conv, print_tok. now rewrite Hr, Hw. Qed.
  Lemma through_int_as_dbl e r w z : f_ty r = TDbl -> f_ty w = TInt ->
    through A e r w (TI z) = TD (apply_scale A e (f_scale r) (aofZ A z)).
  Proof. intros Hr Hw. unfold through, conv, print_tok. now rewrite Hr, Hw. Qed.

  Lemma through_plain e r w v : plain_field r w = true -> tok_typed w v -> through A e r w v = v.
  Proof.
    unfold plain_field, through, conv, print_tok, tok_typed.
    destruct (f_ty r), (f_ty w), (f_scale r), (f_scale w), v; cbn; intros; try discriminate; try contradiction; reflexivity.
  Qed.
  Lemma through_line_plain e rf : forall wf vs, plain_fields rf wf = true -> line_typed wf vs ->
    through_line A e rf wf vs = vs.
  Proof.
    induction rf as [|r rf IH]; intros [|w wf] vs Hp Hty; cbn in Hp; try discriminate.
    - inversion Hty; subst. reflexivity.
    - apply andb_true_iff in Hp as [Hp1 Hp2]. inversion Hty as [|f v fs' vs' Hv Hrest]; subst.
      cbn [through_line]. now rewrite (through_plain e r w v Hp1 Hv), (IH wf vs' Hp2 Hrest).
  Qed.
  Lemma through_lines_plain e rf wf recs : plain_fields rf wf = true -> Forall (line_typed wf) recs ->
    map (through_line A e rf wf) recs = recs.
  Proof.
    intros Hp. induction recs as [|vs recs IHr]; intros Hrecs; [reflexivity|].
    inversion Hrecs; subst. cbn [map]. rewrite (through_line_plain e rf wf vs Hp) by assumption.
    now rewrite IHr.
  Qed.
  Lemma through_solution_plain e rs : forall ws sol, lossless rs ws = true -> sol_typed ws sol ->
    through_solution A e rs ws sol = sol.
  Proof.
    induction rs as [|r rs IH]; intros [|w ws] sol Hp Hty; cbn in Hp; try discriminate.
    - inversion Hty; subst. reflexivity.
    - apply andb_true_iff in Hp as [Hp1 Hp2]. inversion Hty as [|w' recs ws' sol' Hrecs Hrest]; subst.
      cbn [through_solution]. rewrite (IH ws sol' Hp2 Hrest).
      now rewrite (through_lines_plain e _ _ recs Hp1 Hrecs).
  Qed.

  (* a single line kind *)
  Theorem line_roundtrip e rf wf vs : line_compatible rf wf = true -> line_typed wf vs ->
    forall l, parse_fields A e ByLine l rf (print_line A e wf vs) = Some (through_line A e rf wf vs).
  Proof.
    unfold line_compatible. intros H Hty l. apply andb_true_iff in H as [Hg Hf].
    assert (Hg' : forall f, In f wf -> f_glued f = false).
    { intros f Hin. unfold no_glue in Hg. rewrite forallb_forall in Hg. specialize (Hg f Hin).
      now apply negb_true_iff in Hg. }
    rewrite (print_line_noglue e wf vs Hg'). apply parse_fields_print; [|assumption].
    clear Hg Hg' Hty vs. revert wf Hf. induction rf as [|r rf IH]; intros [|w wf] Hf; cbn in Hf; try discriminate.
    - constructor.
    - now constructor.
    - apply andb_true_iff in Hf as [H1 H2]. unfold field_ok in H1. apply andb_true_iff in H1 as [Hn Ht].
      apply String.eqb_eq in Hn. constructor; auto.
  Qed.
End Generic.

(* ---- (b) soundness of the checker ------------------------------------------------------------------- *)
Lemma fields_ok_sound m rf : forall wf, fields_ok m rf wf = true -> FieldsOK m rf wf.
Proof.
  induction rf as [|r rf IH]; intros [|w wf] H; cbn in H; try discriminate.
  - constructor.
  - destruct m; [now constructor | discriminate].
  - apply andb_true_iff in H as [H1 H2]. unfold field_ok in H1. apply andb_true_iff in H1 as [Hn Ht].
    apply String.eqb_eq in Hn. constructor; auto.
Qed.

Lemma section_ok_sound r w : section_ok r w = true -> SectionOK r w.
Proof.
  unfold section_ok. intros H.
  apply andb_true_iff in H as [H Hf]. apply andb_true_iff in H as [H Hc]. apply andb_true_iff in H as [_ Hg].
  split; [|split].
  - intros f Hin. unfold no_glue in Hg. rewrite forallb_forall in Hg. specialize (Hg f Hin).
    now apply negb_true_iff in Hg.
  - exact Hc.
  - now apply fields_ok_sound.
Qed.

Theorem compatible_sound rs : forall ws, compatible rs ws = true -> Compatible rs ws.
Proof.
  induction rs as [|r rs IH]; intros [|w ws] H; cbn in H; try discriminate; try constructor.
  - apply andb_true_iff in H as [H1 H2]. now apply section_ok_sound.
  - apply andb_true_iff in H as [H1 H2]. now apply IH.
Qed.


(* ---- the air-gap block and whole .ans files -------------------------------------------------------------- *)
Section Ages.
  Context {F : Type} (A : Arith F).
  Local Notation tok := (@tok F).
  Local Notation line := (list tok).
  Local Notation env := (list (string * F)).

  Lemma field_value_through e m rf wf : FieldsOK m rf wf -> forall (vs : line) nm n, line_typed wf vs ->
    has_int_field rf nm = true -> field_value wf vs nm = Some (TI n) ->
    field_value rf (through_line A e rf wf vs) nm = Some (TI n).
  Proof.
    induction 1 as [|w wf Hm|r w rf wf Hn Ht Hok IH]; intros vs nm n Hty Hi Hv.
    - discriminate Hi.
    - discriminate Hi.
    - inversion Hty as [|f v fs' vs' Hv1 Hrest]; subst.
      cbn [has_int_field] in Hi. cbn [field_value through_line] in *.
      rewrite <- Hn in Hv. destruct (String.eqb (f_name r) nm).
      + injection Hv as ->. destruct (f_ty r) eqn:Er; [|discriminate].
        destruct (f_ty w) eqn:Ew; [|discriminate].
        now rewrite (through_int A e r w n Er Ew).
      + now apply IH.
  Qed.

  Lemma parse_plain_lines_print e rq wq (qs : list line) : (forall f, In f wq -> f_glued f = false) ->
    FieldsOK ByLine rq wq -> Forall (line_typed wq) qs ->
    parse_plain_lines A e rq (map (print_line A e wq) qs) = Some (map (through_line A e rq wq) qs).
  Proof.
    intros Hg Hok. induction qs as [|vs qs IH]; intros Hty; cbn [map parse_plain_lines].
    - reflexivity.
    - inversion Hty; subst. rewrite (print_line_noglue A e wq vs Hg).
      rewrite (parse_fields_print A e ByLine rq wq Hok vs) by assumption.
      rewrite IH by assumption. reflexivity.
  Qed.

  Definition AgesOK (rp wp rq wq : list field) : Prop :=
    (forall f, In f wp -> f_glued f = false) /\ FieldsOK ByLine rp wp /\
    (forall f, In f wq -> f_glued f = false) /\ FieldsOK ByLine rq wq /\
    has_int_field rp arc_field = true.

  Lemma parse_age_print e rp wp rq wq (a : @age F) rest : AgesOK rp wp rq wq -> age_ok wp wq a ->
    parse_age A e rp rq (print_age A e wp wq a ++ rest) = Some (through_age A e rp wp rq wq a, rest).
  Proof.
    intros (Hgp & Hp & Hgq & Hq & Hi) (Htp & Htq & Hn & Hne).
    unfold print_age, parse_age. cbn [app].
    rewrite (print_line_noglue A e wp _ Hgp), (parse_fields_print A e ByLine rp wp Hp _ Htp).
    rewrite (field_value_through e ByLine rp wp Hp _ _ _ Htp Hi Hn).
    set (n := length (a_quads a)).
    assert (Hn1 : (1 <= n)%nat). { unfold n. destruct (a_quads a); [congruence | cbn; lia]. }
    assert (Hz : (Z.of_nat n - 1 <? 0)%Z = false) by (apply Z.ltb_ge; lia).
    rewrite Hz.
    assert (Hk : S (Z.to_nat (Z.of_nat n - 1)) = n) by lia. rewrite Hk.
    set (L := map (print_line A e wq) (a_quads a)).
    assert (HL : length L = n) by (unfold L, n; apply map_length).
    assert (Hlt : Nat.ltb (length (L ++ rest)) n = false). { apply Nat.ltb_ge. rewrite app_length. lia. }
    rewrite Hlt. rewrite <- HL.
    rewrite firstn_app, skipn_app, Nat.sub_diag, firstn_all, skipn_all.
    cbn [firstn skipn app]. rewrite app_nil_r. unfold L.
    rewrite (parse_plain_lines_print e rq wq _ Hgq Hq Htq). reflexivity.
  Qed.

  Lemma parse_ages_n_print e rp wp rq wq (l : list (@age F)) : AgesOK rp wp rq wq -> Forall (age_ok wp wq) l ->
    forall rest, parse_ages_n A e rp rq (length l) (flat_map (print_age A e wp wq) l ++ rest) =
                 Some (map (through_age A e rp wp rq wq) l, rest).
  Proof.
    intros Hok. induction l as [|a l IH]; intros Hl rest; cbn [length flat_map parse_ages_n map].
    - reflexivity.
    - inversion Hl; subst. rewrite <- app_assoc.
      rewrite (parse_age_print e rp wp rq wq a _ Hok) by assumption.
      rewrite IH by assumption. reflexivity.
  Qed.

  Theorem ages_roundtrip e rp wp rq wq (l : list (@age F)) rest : AgesOK rp wp rq wq -> Forall (age_ok wp wq) l ->
    parse_ages A e rp rq (print_ages A e wp wq l ++ rest) = Some (map (through_age A e rp wp rq wq) l, rest).
  Proof.
    intros Hok Hl. unfold print_ages, parse_ages. cbn [app].
    assert (Hz : (Z.of_nat (length l) <? 0)%Z = false) by (apply Z.ltb_ge; lia).
    rewrite Hz, Nat2Z.id. now apply parse_ages_n_print.
  Qed.

  Lemma ages_compatible_sound rp wp rq wq : ages_compatible rp wp rq wq = true -> AgesOK rp wp rq wq.
  Proof.
    unfold ages_compatible, line_compatible. intros H.
    apply andb_true_iff in H as [H Hi]. apply andb_true_iff in H as [H1 H2].
    apply andb_true_iff in H1 as [Hg1 Hf1]. apply andb_true_iff in H2 as [Hg2 Hf2].
    assert (G : forall wf, no_glue wf = true -> forall f, In f wf -> f_glued f = false).
    { intros wf Hg f Hin. unfold no_glue in Hg. rewrite forallb_forall in Hg. specialize (Hg f Hin).
      now apply negb_true_iff in Hg. }
    split; [exact (G wp Hg1)|]. split; [now apply fields_ok_sound|]. split; [exact (G wq Hg2)|].
    split; [now apply fields_ok_sound | exact Hi].
  Qed.

  (* a whole .ans solution part: the reader knows every section of the writer, then the air-gap block *)
  Theorem ans_roundtrip e rs ws rp wp rq wq : compatible rs ws = true -> length rs = length ws ->
    ages_compatible rp wp rq wq = true ->
    forall sol (ags : list (@age F)), sol_typed ws sol -> Forall (age_ok wp wq) ags ->
    parse_ans A e rs rp rq (print_ans A e ws wp wq sol ags) =
    Some (through_solution A e rs ws sol, map (through_age A e rp wp rq wq) ags).
  Proof.
    intros Hc Hlen Ha sol ags Hty Hags. unfold print_ans, parse_ans.
    rewrite (parse_print_roundtrip_k A e rs ws (compatible_sound rs ws Hc) sol _ Hty).
    rewrite Hlen, skipn_all. cbn [print_solution app].
    pose proof (ages_roundtrip e rp wp rq wq ags [] (ages_compatible_sound _ _ _ _ Ha) Hags) as H.
    rewrite app_nil_r in H. rewrite H. reflexivity.
  Qed.

  Corollary ans_pair_roundtrip e name rs ws rp wp rq wq : ans_pair_ok (name, rs, ws, rp, wp, rq, wq) = true ->
    forall sol (ags : list (@age F)), sol_typed ws sol -> Forall (age_ok wp wq) ags ->
    parse_ans A e rs rp rq (print_ans A e ws wp wq sol ags) =
    Some (through_solution A e rs ws sol, map (through_age A e rp wp rq wq) ags).
  Proof.
    cbn [ans_pair_ok]. intros H. apply andb_true_iff in H as [H Ha]. apply andb_true_iff in H as [Hc Hl].
    apply Nat.eqb_eq in Hl. now apply ans_roundtrip.
  Qed.
End Ages.

Lemma diag_fields_nil m sec rf : forall wf, diag_fields m sec rf wf = [] -> fields_ok m rf wf = true.
Proof.
  induction rf as [|r rf IH]; intros [|w wf] H; cbn in H |- *; try discriminate; try reflexivity.
  - destruct m; [reflexivity | discriminate].
  - apply app_eq_nil in H as [H1 H2]. destruct (field_ok r w); [|discriminate]. cbn. now apply IH.
Qed.

Theorem diagnose_nil_compatible rs : forall ws, diagnose rs ws = [] -> compatible rs ws = true.
Proof.
  induction rs as [|r rs IH]; intros [|w ws] H; cbn in H |- *; try discriminate; try reflexivity.
  apply app_eq_nil in H as [H1 H2]. rewrite (IH ws H2), andb_true_r.
  unfold diag_section in H1. unfold section_ok.
  apply app_eq_nil in H1 as [Ha H1]. apply app_eq_nil in H1 as [Hb H1]. apply app_eq_nil in H1 as [Hc Hd].
  destruct (name_ok r w); [|discriminate]. destruct (no_glue (s_fields w)); [|discriminate].
  destruct (check_passes (s_check r) (length (s_fields r))); [|discriminate].
  cbn. now apply (diag_fields_nil _ (s_name w)).
Qed.

Corollary roundtrip_checked {F} (A : Arith F) e rs ws : compatible rs ws = true ->
  forall sol, sol_typed ws sol ->
  parse_solution A e rs (print_solution A e ws sol) = Some (through_solution A e rs ws sol).
Proof. intros H. apply parse_print_roundtrip. now apply compatible_sound. Qed.

Corollary roundtrip_lossless {F} (A : Arith F) e rs ws : compatible rs ws = true -> lossless rs ws = true ->
  forall sol, sol_typed ws sol -> parse_solution A e rs (print_solution A e ws sol) = Some sol.
Proof.
  intros Hc Hl sol Hty. rewrite (roundtrip_checked A e rs ws Hc sol Hty).
  now rewrite (through_solution_plain A e rs ws sol Hl Hty).
Qed.

Theorem sound_pairs_roundtrip pairs name r w : In (name, r, w) (sound_pairs pairs) ->
  forall {F} (A : Arith F) e sol, sol_typed w sol ->
  parse_solution A e r (print_solution A e w sol) = Some (through_solution A e r w sol).
Proof.
  unfold sound_pairs. intros Hin F A e sol Hty. apply filter_In in Hin as [_ Hd]. cbn in Hd.
  apply roundtrip_checked; [|assumption]. apply diagnose_nil_compatible.
  destruct (diagnose r w); [reflexivity | discriminate].
Qed.

(* ---- record variants ----------------------------------------------------------------------------------- *)
Lemma variants_ok_sound rv wv : variants_ok rv wv = true ->
  forall tag m, In (tag, m) wv -> reader_dest rv tag = m.
Proof.
  unfold variants_ok. intros H tag m Hin. rewrite forallb_forall in H.
  specialize (H _ Hin). cbn in H. now apply String.eqb_eq in H.
Qed.

(* ---- (c) coordinates come back in the declared unit ---------------------------------------------------- *)
Lemma all2_nth {X} (p : X -> X -> bool) d : forall a b, all2 p a b = true ->
  forall u, (u < length a)%nat -> p (nth u a d) (nth u b d) = true.
Proof.
  induction a as [|x a IH]; intros [|y b] H u Hu; cbn in *; try discriminate; try lia.
  apply andb_true_iff in H as [H1 H2]. destruct u; [exact H1|]. apply IH; [exact H2 | lia].
Qed.

Local Open Scope R_scope.
Lemma scaled_back_R (l w : Q) (x0 : R) : Qeq_bool l w = true -> Qeq_bool w 0 = false ->
  x0 * Q2R l / Q2R w = x0.
Proof.
  intros Hlw Hw. apply Qeq_bool_iff in Hlw. apply Qeq_eqR in Hlw. rewrite Hlw.
  assert (Hnz : Q2R w <> 0).
  { intro E. assert (Hq : (w == 0)%Q) by (apply eqR_Qeq; rewrite E; unfold Q2R; cbn; lra).
    apply Qeq_bool_iff in Hq. congruence. }
  field. exact Hnz.
Qed.

Theorem tables_agree_R lw : tables_agree lw = true ->
  forall name l w, In (name, l, w) lw -> forall u, (u < 6)%nat -> forall x0 : R,
  x0 * Q2R (nth u l 0%Q) / Q2R (nth u w 0%Q) = x0.
Proof.
  unfold tables_agree. intros H name l w Hin u Hu x0. rewrite forallb_forall in H.
  specialize (H _ Hin). cbn in H. unfold table_pair_ok in H. apply andb_true_iff in H as [Hlen H].
  apply Nat.eqb_eq in Hlen.
  pose proof (all2_nth _ 0%Q l w H u ltac:(lia)) as Hp. cbn in Hp.
  apply andb_true_iff in Hp as [Hp1 Hp2]. apply negb_true_iff in Hp2.
  now apply scaled_back_R.
Qed.

(* the model-level statement: a coordinate field printed with  / w[u]  and read without scaling holds
   x0 again when it was loaded as  x0 * l[u] *)
Theorem coordinate_through_R (e : list (string * R)) (r w : field) (t : string) (l wq : Q) (x0 : R) :
  f_ty r = TDbl -> f_ty w = TDbl -> f_scale r = SNone -> f_scale w = SDiv t ->
  tabval RA e t = Q2R wq -> Qeq_bool l wq = true -> Qeq_bool wq 0 = false ->
  through RA e r w (TD (x0 * Q2R l)) = TD x0.
Proof.
  intros Hr Hw Hsr Hsw Ht Hl Hz. rewrite (through_dbl RA e r w _ Hr Hw), Hsr, Hsw.
  cbn [apply_scale]. rewrite Ht. ra_simpl. f_equal. now apply scaled_back_R.
Qed.
Local Close Scope R_scope.
