(* Properties_C05.v — theorem statements for C05 (static and time-harmonic magnetic solutions satisfy
   the discrete field equations).  Models: AsmM.v (FSolver::Static2D, WriteStatic2D), AsmMH.v
   (FSolver::Harmonic2D, WriteHarmonic2D).  Proofs: AsmOpsProofs.v, AsmMProofs.v, AsmMHProofs.v.
   Real-number reading; complex numbers are pairs of reals.  Units: lengths in cm, V = A/c with
   c = 4 pi 1e-5, J in MA/m^2, so that  J*a*100  is in Amps. *)
From Coq Require Import ZArith List Bool Arith Lia Reals Lra.
From XF Require Import Arith Sparse CSparse SparseProofs AsmOps AsmOpsProofs AsmE AsmEProofs
  AsmM AsmMProofs AsmMH AsmMHProofs.
Import ListNotations.
Local Open Scope R_scope.

(* (a1) Static2D's scatter statements  L.AddTo(-Me[j][k],n[j],n[k]);  L.b[n[j]] -= be[j]  are
   "add a contribution" operations, so AsmOpsProofs.assembled_rows applies to them. *)
Theorem C05_scatter_is_sum_of_contributions :
  forall (n : nat * nat * nat) (Me be : vecT R) (M : matrixT R) (b : vecT R),
  mscatter RA n Me be M b = (apply_mops RA M (mscatter_mops n Me), apply_bops RA b (mscatter_bops n be)).
Proof. exact mscatter_as_ops. Qed.
Print Assumptions C05_scatter_is_sum_of_contributions.

(* (a2) The element loop of Static2D, all meshes and element orders: row i of the assembled residual
   M U - b is the initial row minus the sum over the elements, and their local rows assembled into
   row i, of the local residual  sum_b Me[a][b] U[n_b] - be[a]. *)
Theorem C05_static_element_loop_rows :
  forall (P : mprob (F:=R)) (res : list (nat * R * R)) (U : vecT R) (els : list (melem (F:=R)))
         (M : matrixT R) (b : vecT R),
  mat_wf M -> length b = length M -> Forall (elem_okM (length M)) els ->
  let s' := fold_left (melem_step RA P res) els (M, b) in
  mat_wf (fst s') /\ length (fst s') = length M /\ length (snd s') = length b /\
  forall i, (i < length M)%nat ->
    Ax (fst s') U i - vget RA (snd s') i = (Ax M U i - vget RA b i) - mloop_resid P res els U i.
Proof. exact mloop_rows. Qed.
Print Assumptions C05_static_element_loop_rows.

(* (a2') HEADLINE: on every mesh whose elements are non-degenerate, have non-zero effective permeabilities
   and no mixed-boundary edge, the rows assembled by the element loop ARE the linear-triangle Galerkin
   equations of curl(nu curl A) = J + curl(Hc): row i of M U - b is the initial row plus the sum, over the
   elements around node i, of  sum_b K_ab U_b - (J + t) a/3 - 0.0001 a (Hc x grad phi_a)  with K the Galerkin
   matrix of (b).  (Mixed-boundary edges add the terms of (b''), point currents those of (a3), prescribed
   values act through (f).) *)
Theorem C05_static_rows_are_galerkin :
  forall (P : mprob (F:=R)) (res : list (nat * R * R)) (U : vecT R) (els : list (melem (F:=R)))
         (M : matrixT R) (b : vecT R),
  mat_wf M -> length b = length M -> Forall (elem_okM (length M)) els -> Forall (el_regular P) els ->
  let s' := fold_left (melem_step RA P res) els (M, b) in
  forall i, (i < length M)%nat ->
    Ax (fst s') U i - vget RA (snd s') i = (Ax M U i - vget RA b i) + lsum (fun el => el_galerkin P res el U i) els.
Proof. exact static_rows_are_galerkin. Qed.
Print Assumptions C05_static_rows_are_galerkin.

(* (a3) point currents are "b[i] += 0.01*I" operations *)
Theorem C05_point_currents_are_contributions :
  forall (P : mprob (F:=R)) (b : vecT R),
  point_currents RA P b = apply_bops RA b (point_bops P (combine (seq 0 (length (mnodes P))) (mnodes P))).
Proof. exact point_currents_as_bops. Qed.
Print Assumptions C05_point_currents_are_contributions.

(* (b) Mel_is_curlcurl: the element matrix is minus the linear-triangle Galerkin matrix of
   curl(nu curl A):  area*(nu_y dphi_j/dx dphi_k/dx + nu_x dphi_j/dy dphi_k/dy), nu_x = 1/mu1 with mu1
   the effective mu_x (B_x = dA/dy), nu_y = 1/mu2 with mu2 the effective mu_y (B_y = -dA/dx): the
   code's Mx/mu2 + My/mu1 is the physically correct pairing. *)
Theorem C05_Mel_is_curlcurl :
  forall (P : mprob (F:=R)) (res : list (nat * R * R)) (el : melem (F:=R)) (j k : nat),
  no_mixed_edge P el -> (j < 3)%nat -> (k < 3)%nat ->
  let g := mel_geom RA P el in
  let mu := el_mu RA (nth (mblk el) (mblocks P) (dmblock RA)) in
  ga g <> 0 -> fst mu <> 0 -> snd mu <> 0 ->
  m3get RA (fst (fst (melem_matrices RA P res el))) j k = - curlcurl_K (1 / fst mu) (1 / snd mu) g j k.
Proof. exact Mel_is_curlcurl. Qed.
Print Assumptions C05_Mel_is_curlcurl.

(* (b'') the mixed boundary condition (BdryFormat 2) of one edge: Me += K [2 1; 1 2] on the edge's nodes with
   K = -0.0001*c*c0*l/6, i.e. c0 times the P1 edge mass matrix l/6 [2 1; 1 2], and be += 0.0001*c1*l/2;
   edges with prescribed A, periodic or no condition do not enter the element matrices (no_mixed_edge). *)
Theorem C05_mixed_boundary_edge_terms :
  forall (P : mprob (F:=R)) (g : egeom (F:=R)) (el : melem (F:=R)) (Me be : vecT R) (j s : nat),
  tri_get (me el) j = Some s -> mlfmt (nth s (mlines P) (dmline RA)) = 2%nat ->
  (j < 3)%nat -> length Me = 9%nat -> length be = 3%nat ->
  let lp := nth s (mlines P) (dmline RA) in
  let K := - e4 RA * c4pi RA * lc0re lp * vget RA (gl g) j / 6 in
  let r := mixed_step RA P g el (Me, be) j in
  (forall a b, (a < 3)%nat -> (b < 3)%nat ->
     m3get RA (fst r) a b = m3get RA Me a b
       + (if on_edge j a && on_edge j b then (if Nat.eqb a b then 2 * K else K) else 0)) /\
  (forall a, (a < 3)%nat ->
     vget RA (snd r) a = vget RA be a + (if on_edge j a then lc1re lp * vget RA (gl g) j / 2 * e4 RA else 0)).
Proof. exact mixed_step_adds. Qed.
Print Assumptions C05_mixed_boundary_edge_terms.

(* (c1) current_rhs and magnet term together: be_j = -( (J + t) a/3 + 0.0001 * a * (Hc x grad phi_j) ),
   Hc = H_c (cos t, sin t); t is the circuit part of the current density. *)
Theorem C05_current_and_magnet_rhs :
  forall (P : mprob (F:=R)) (res : list (nat * R * R)) (el : melem (F:=R)) (j : nat),
  no_mixed_edge P el -> (j < 3)%nat ->
  let g := mel_geom RA P el in
  let blk := nth (mblk el) (mblocks P) (dmblock RA) in
  ga g <> 0 ->
  vget RA (snd (fst (melem_matrices RA P res el))) j =
    - ((bJre blk + circ_t RA P res el) * ga g / 3
       + e4 RA * (ga g * (bHc blk * mcos el * dphidy g j - bHc blk * msin el * dphidx g j))).
Proof. exact current_and_magnet_rhs. Qed.
Print Assumptions C05_current_and_magnet_rhs.

(* (c2) current_rhs: without a magnet  be_j = -(J + t) a / 3  (any mesh, also a = 0) *)
Theorem C05_current_rhs :
  forall (P : mprob (F:=R)) (res : list (nat * R * R)) (el : melem (F:=R)) (j : nat),
  no_mixed_edge P el -> (j < 3)%nat ->
  let blk := nth (mblk el) (mblocks P) (dmblock RA) in
  bHc blk = 0 ->
  vget RA (snd (fst (melem_matrices RA P res el))) j = - (bJre blk + circ_t RA P res el) * ga (mel_geom RA P el) / 3.
Proof. exact current_rhs. Qed.
Print Assumptions C05_current_rhs.

(* (c3) magnet_rhs_is_curl_Hc: the two edge terms 0.0001*H_c*(cos t dx + sin t dy)/2 a node receives
   are minus the Galerkin load of curl(Hc), the integral of Hc x grad(phi_j) over the element. *)
Theorem C05_magnet_rhs_is_curl_Hc :
  forall (P : mprob (F:=R)) (el : melem (F:=R)) (j : nat),
  (j < 3)%nat -> let g := mel_geom RA P el in let blk := nth (mblk el) (mblocks P) (dmblock RA) in
  ga g <> 0 ->
  Kmag P el j + Kmag P el (prv j) = - (e4 RA * (ga g * (bHc blk * mcos el * dphidy g j - bHc blk * msin el * dphidx g j))).
Proof. exact magnet_rhs_is_curl_Hc. Qed.
Print Assumptions C05_magnet_rhs_is_curl_Hc.

(* (d) eddy_mass_consistent: Harmonic2D's eddy term is -j*omega*sigma*c times the consistent mass matrix
   a/12 [2 1 1; 1 2 1; 1 1 2] (not for wound regions and in-plane laminated blocks, see (d')). *)
Theorem C05_eddy_mass_consistent :
  forall (P : mprob (F:=R)) (w : R) (el : melem (F:=R)) (a : R) (j k : nat),
  let blk := nth (mblk el) (mblocks P) (dmblock RA) in
  (j < 3)%nat -> (k < 3)%nat ->
  is_wound RA P (nth (mlbl el) (mlabels P) dmlabel) = false ->
  (bLamType blk <> 0%nat \/ ~ (0 < bLamd blk)) ->
  h3get RA (eddy_add RA (repeat (0, 0) 9) (eddy_K RA P w el a)) j k
    = Cscal (- (w * bCduct blk * c4pi RA) * (a / 12 * (if Nat.eqb j k then 2 else 1))) Cj.
Proof. exact eddy_mass_consistent. Qed.
Print Assumptions C05_eddy_mass_consistent.

Theorem C05_eddy_term_absent_when_wound_or_laminated :
  forall (P : mprob (F:=R)) (w : R) (el : melem (F:=R)) (a : R),
  let blk := nth (mblk el) (mblocks P) (dmblock RA) in
  (is_wound RA P (nth (mlbl el) (mlabels P) dmlabel) = true \/ (bLamType blk = 0%nat /\ 0 < bLamd blk)) ->
  eddy_K RA P w el a = (0, 0).
Proof. exact eddy_K_zero. Qed.
Print Assumptions C05_eddy_term_absent_when_wound_or_laminated.

(* (b') harmonic element matrix: eddy term minus the Galerkin matrix of curl(nu curl A) with the complex
   reluctivities 1/mu1, 1/mu2 (CComplex::operator/ is the complex inverse in both of its branches). *)
Theorem C05_harmonic_Mel_is_curlcurl :
  forall (P : mprob (F:=R)) (X : list (hexp (F:=R))) (w : R) (res : list (nat * (R * R) * (R * R)))
         (el : melem (F:=R)) (j k : nat),
  no_mixed_edge P el -> (j < 3)%nat -> (k < 3)%nat ->
  let g := mel_geom RA P el in
  let blk := nth (mblk el) (mblocks P) (dmblock RA) in
  let mu := block_mu RA w blk (nth (mblk el) X (dhexp RA)) in
  ga g <> 0 -> fst mu <> (0, 0) -> snd mu <> (0, 0) ->
  h3get RA (fst (fst (fst (helem_matrices RA P X w res el)))) j k =
    Cadd (h3get RA (eddy_add RA (repeat (0, 0) 9) (eddy_K RA P w el (ga g))) j k)
         (Cscal (- ga g) (Cadd (Cscal (dphidx g j * dphidx g k) (Cinv (snd mu)))
                               (Cscal (dphidy g j * dphidy g k) (Cinv (fst mu))))).
Proof. exact hMel_is_curlcurl. Qed.
Print Assumptions C05_harmonic_Mel_is_curlcurl.

Theorem C05_complex_division_is_inverse :
  forall x z : R * R, z <> (0, 0) -> cdiv RA x z = Cmul x (Cinv z) /\ Cmul z (Cinv z) = (1, 0).
Proof. intros x z Hz. split; [apply cdiv_spec; exact Hz|apply Cmul_inv; exact Hz]. Qed.
Print Assumptions C05_complex_division_is_inverse.

(* (e1) circuit_current_reproduced: a circuit with prescribed total current and no effective conductivity
   (Case 1; a series circuit is one such circuit per block label with Amps*Turns, fsolver.cpp:298-317):
   the applied density integrates to the prescribed Amps over the circuit's elements, on every mesh. *)
Theorem C05_circuit_current_reproduced :
  forall (P : mprob (F:=R)) (i : nat),
  (i < length (mcircs P))%nat ->
  let c := nth i (mcircs P) (dmcirc RA) in
  cType c = 0%nat -> I2 P i = 0 -> I1 P i <> 0 ->
  let res := circ_results RA P in
  fst (fst (nth i res (dres RA))) = 1%nat /\
  csum P (fun el => (bJre (el_blk P el) + circ_t RA P res el) * el_area P el * 100) i (melems P) = cAre c.
Proof. exact circuit_current_reproduced. Qed.
Print Assumptions C05_circuit_current_reproduced.

(* (e2) the dV analogue (Case 0, conducting regions in parallel): exact total of the applied density *)
Theorem C05_circuit_current_case0 :
  forall (P : mprob (F:=R)) (i : nat),
  (i < length (mcircs P))%nat ->
  let c := nth i (mcircs P) (dmcirc RA) in
  cType c = 0%nat -> I2 P i <> 0 ->
  let res := circ_results RA P in
  fst (fst (nth i res (dres RA))) = 0%nat /\
  csum P (fun el => (bJre (el_blk P el) + circ_t RA P res el) * el_area P el * 100) i (melems P)
    = I3 P i + (cAre c - I3 P i) * I2full P i / I2 P i.
Proof. exact circuit_current_case0. Qed.
Print Assumptions C05_circuit_current_case0.

(* ... which is the prescribed current when no wound region of the circuit is conducting ... *)
Theorem C05_circuit_current_case0_reproduced_partial :
  forall (P : mprob (F:=R)) (i : nat),
  (i < length (mcircs P))%nat ->
  let c := nth i (mcircs P) (dmcirc RA) in
  cType c = 0%nat -> I2 P i <> 0 ->
  (forall el, In el (melems P) -> in_circ P el i = true -> el_wound P el = true -> bCduct (el_blk P el) = 0) ->
  csum P (fun el => (bJre (el_blk P el) + circ_t RA P (circ_results RA P) el) * el_area P el * 100) i (melems P) = cAre c.
Proof. exact circuit_current_case0_reproduced. Qed.
Print Assumptions C05_circuit_current_case0_reproduced_partial.

(* ... and is NOT in general: a parallel circuit of a wound (|Turns| > 1) and a solid conducting region
   carries 2 A for a prescribed 1 A (CircInt2 zeroes the wound region's conductivity, the right-hand
   side static2d.cpp:497 does not).  findings/C05-1.diff *)
Theorem C05_circuit_current_case0_refuted :
  exists (P : mprob (F:=R)) (i : nat),
    (i < length (mcircs P))%nat /\ cType (nth i (mcircs P) (dmcirc RA)) = 0%nat /\ I2 P i <> 0 /\
    csum P (fun el => (bJre (el_blk P el) + circ_t RA P (circ_results RA P) el) * el_area P el * 100) i (melems P)
      <> cAre (nth i (mcircs P) (dmcirc RA)).
Proof. exact circuit_current_case0_refuted. Qed.
Print Assumptions C05_circuit_current_case0_refuted.

(* (e3) written_circuit_data_matches_applied: what WriteStatic2D prints for a block label — (1, J) or
   (0, dV) — reproduces the current density the right-hand side used for every element of that label. *)
Theorem C05_written_circuit_data_matches_applied :
  forall (P : mprob (F:=R)) (el : melem (F:=R)),
  let res := circ_results RA P in
  circ_t RA P res el
    = applied_from_written (written_label RA res (nth (mlbl el) (mlabels P) dmlabel)) (bCduct (el_blk P el)).
Proof. exact written_circuit_data_matches_applied. Qed.
Print Assumptions C05_written_circuit_data_matches_applied.

(* (e4) the same line as the postprocessor reads it (a voltage gradient drives no bulk current in a wound
   region, fpproc.cpp:3630): reproduces the applied density unless the element lies in a wound AND conducting
   region of a Case-0 circuit ... *)
Theorem C05_written_matches_postprocessor_partial :
  forall (P : mprob (F:=R)) (el : melem (F:=R)),
  (el_wound P el = false \/ bCduct (el_blk P el) = 0) ->
  let res := circ_results RA P in
  circ_t RA P res el
    = applied_from_written_pp (written_label RA res (nth (mlbl el) (mlabels P) dmlabel)) (bCduct (el_blk P el)) (el_wound P el).
Proof. exact written_matches_postprocessor. Qed.
Print Assumptions C05_written_matches_postprocessor_partial.

(* ... where it does not (findings/C05-1.diff) *)
Theorem C05_written_matches_postprocessor_refuted :
  exists (P : mprob (F:=R)) (el : melem (F:=R)), In el (melems P) /\
    circ_t RA P (circ_results RA P) el
      <> applied_from_written_pp (written_label RA (circ_results RA P) (nth (mlbl el) (mlabels P) dmlabel))
                                 (bCduct (el_blk P el)) (el_wound P el).
Proof. exact written_matches_postprocessor_refuted. Qed.
Print Assumptions C05_written_matches_postprocessor_refuted.

(* (f) prescribed-A rows: L.SetValue(i, a/c) makes every solution of the constrained system write the
   prescribed a for node i and leaves all other equations as they were (corollary of C09's
   setvalue_equiv); the value along a BdryFormat-0 segment is (A0 + A1 x + A2 y) cos(phi). *)
Theorem C05_setvalue_prescribes :
  forall (L : lin (F:=R)) (i : nat) (a : R) (V : vecT R),
  mat_wf (lM L) -> ln L = length (lM L) -> length (lb L) = length (lM L) ->
  (i < length (lM L))%nat -> sv_covered L i -> mget RA (lM L) i i <> 0 ->
  let L' := setvalue RA L i (a / c4pi RA) in
  (forall k, (k < length (lM L))%nat -> Ax (lM L') V k = vget RA (lb L') k) ->
  vget RA (written_A RA V) i = a /\
  forall k, (k < length (lM L))%nat -> k <> i -> Ax (lM L) V k = vget RA (lb L) k.
Proof. exact setvalue_prescribes. Qed.
Print Assumptions C05_setvalue_prescribes.

Theorem C05_segment_value_formula :
  forall (P : mprob (F:=R)) (lp : mline (F:=R)) (nd : mnode (F:=R)),
  let u := nth (unit_idx P) (munits RA) 1 in
  seg_value RA P lp nd = (lA0 lp + mx nd / u * lA1 lp + my nd / u * lA2 lp) * lcosphi lp.
Proof. exact seg_value_formula. Qed.
Print Assumptions C05_segment_value_formula.

(* (f') periodic / antiperiodic pairs: C09's tie_system_equiv applies verbatim to L.Periodicity /
   L.AntiPeriodicity as called by mapply_pbcs (same functions of Sparse.v). *)

(* (g) lamination mixing: LamType 0 mixes both directions in parallel, LamType 1 (2) mixes mu_x (mu_y) in
   parallel along x (y) and in series across. *)
Theorem C05_lam_mixing_series_parallel :
  forall b : mblock (F:=R),
  (bLamType b = 0%nat -> el_mu RA b = (mu_par (bLamFill b) (bmux b), mu_par (bLamFill b) (bmuy b))) /\
  (bLamType b = 1%nat -> bmux b <> 0 -> bLamFill b + bmux b * (1 - bLamFill b) <> 0 ->
     el_mu RA b = (mu_par (bLamFill b) (bmux b), mu_ser (bLamFill b) (bmux b))) /\
  (bLamType b = 2%nat -> bmuy b <> 0 -> bLamFill b + bmuy b * (1 - bLamFill b) <> 0 ->
     el_mu RA b = (mu_ser (bLamFill b) (bmuy b), mu_par (bLamFill b) (bmuy b))) /\
  ((2 < bLamType b)%nat -> el_mu RA b = (1, 1)).
Proof. exact lam_mixing_series_parallel. Qed.
Print Assumptions C05_lam_mixing_series_parallel.

(* (g') harmonic: complex permeability of a LamType-0 block, as computed *)
Theorem C05_harmonic_lam_mixing :
  forall (w : R) (b : mblock (F:=R)) (x : hexp (F:=R)),
  bLamType b = 0%nat ->
  (bLamd b = 0 -> block_mu RA w b x = (Cscal (bmux b) (hex x), Cscal (bmuy b) (hey x))) /\
  (bLamd b <> 0 -> bCduct b = 0 ->
     block_mu RA w b x = (Cadd (Cscal (bLamFill b) (Cscal (bmux b) (hex x))) (1 - bLamFill b, 0),
                          Cadd (Cscal (bLamFill b) (Cscal (bmuy b) (hey x))) (1 - bLamFill b, 0))) /\
  (bLamd b <> 0 -> bCduct b <> 0 ->
     block_mu RA w b x = (lam_mix RA b (cmuld RA (hex x) (bmux b)) (htx x) (lam_K RA w b (bmux b) (hhx x)),
                          lam_mix RA b (cmuld RA (hey x) (bmuy b)) (hty x) (lam_K RA w b (bmuy b) (hhy x)))).
Proof. exact hlam_mixing. Qed.
Print Assumptions C05_harmonic_lam_mixing.

Theorem C05_harmonic_lam_formula :
  forall (b : mblock (F:=R)) (Mu th K : R * R), K <> (0, 0) ->
  lam_mix RA b Mu th K = Cadd (Cscal (bLamFill b) (Cmul (Cmul Mu th) (Cinv K))) (1 - bLamFill b, 0).
Proof. exact lam_mix_formula. Qed.
Print Assumptions C05_harmonic_lam_formula.

(* the harmonic solver drops the fill factor when d_lam = 0 although the static solver applies it:
   findings/C05-2.diff *)
Theorem C05_harmonic_fill_without_dlam_refuted :
  exists (w : R) (b : mblock (F:=R)) (x : hexp (F:=R)),
    bLamType b = 0%nat /\ x = dhexp RA /\
    el_mu RA b = (mu_par (bLamFill b) (bmux b), mu_par (bLamFill b) (bmuy b)) /\
    fst (block_mu RA w b x) <> (mu_par (bLamFill b) (bmux b), 0).
Proof. exact harmonic_fill_without_dlam_refuted. Qed.
Print Assumptions C05_harmonic_fill_without_dlam_refuted.

(* (h) write-out: node potentials are V*c; the voltage gradient written for a Case-2 circuit is j c w V *)
Theorem C05_harmonic_written_potentials :
  forall (nn : nat) (freq : R) (V : list (R * R)) (i : nat), (i < nn)%nat -> (i < length V)%nat ->
  nth i (hwritten RA nn freq V) (0, 0) = Cscal (c4pi RA) (nth i V (0, 0)).
Proof. exact hwritten_node. Qed.
Print Assumptions C05_harmonic_written_potentials.

(* (a') harmonic structural part: the complex system matrix after any sequence of "L.AddTo / L.Put(L.Get+v)"
   statements is, entry by entry, the initial matrix plus the sum of the statements' contributions ... *)
Theorem C05_complex_matrix_is_sum_of_contributions :
  forall (ops : list (nat * nat * (R * R))) (M : matrixT (R * R)),
  mat_ok M -> cmops_in_range (length M) ops ->
  mat_ok (capply_mops M ops) /\ length (capply_mops M ops) = length M /\
  forall i j, mget (CA RA) (capply_mops M ops) i j
              = Cadd (mget (CA RA) M i j) (clsum (fun o => cmop_entry o i j) ops).
Proof. exact capply_mops_spec. Qed.
Print Assumptions C05_complex_matrix_is_sum_of_contributions.

Theorem C05_complex_rhs_is_sum_of_contributions :
  forall (ops : list (nat * (R * R))) (b : list (R * R)), Forall (fun o => (fst o < length b)%nat) ops ->
  length (capply_bops b ops) = length b /\
  forall i, vget (CA RA) (capply_bops b ops) i = Cadd (vget (CA RA) b i) (clsum (fun o => cbop_entry o i) ops).
Proof. exact capply_bops_spec. Qed.
Print Assumptions C05_complex_rhs_is_sum_of_contributions.

(* ... and the element loop of Harmonic2D (element matrices, Case-2 circuit couplings) is such a sequence,
   for all meshes and element orders *)
Theorem C05_harmonic_element_loop_is_contributions :
  forall (P : mprob (F:=R)) (X : list (hexp (F:=R))) (w : R) (res : list (nat * (R * R) * (R * R))) (nn : nat)
         (els : list (melem (F:=R))) (M : matrixT (R * R)) (b : list (R * R)),
  fst (fold_left (helem_step RA P X w res nn) els (M, b)) = capply_mops M (flat_map (hstep_mops P X w res nn) els) /\
  snd (fold_left (helem_step RA P X w res nn) els (M, b)) = capply_bops b (flat_map (hstep_bops P X w res nn) els).
Proof. intros. split; [apply hloop_matrix|apply hloop_rhs]. Qed.
Print Assumptions C05_harmonic_element_loop_is_contributions.

(* (e1') harmonic Case 1: the complex flat current density reproduces the prescribed complex current *)
Theorem C05_harmonic_circuit_current_reproduced :
  forall (P : mprob (F:=R)) (i : nat),
  (i < length (mcircs P))%nat ->
  let c := nth i (mcircs P) (dmcirc RA) in
  cType c = 0%nat -> I2 P i = 0 -> I1 P i <> 0 ->
  let res := hcirc_results RA P in
  fst (fst (nth i res (dhres RA))) = 1%nat /\
  (csum P (fun el => (bJre (el_blk P el) + fst (fst (hcirc_Jv RA P res el))) * el_area P el * 100) i (melems P),
   csum P (fun el => (bJim (el_blk P el) + snd (fst (hcirc_Jv RA P res el))) * el_area P el * 100) i (melems P))
    = (cAre c, cAim c).
Proof. exact hcircuit_current_reproduced. Qed.
Print Assumptions C05_harmonic_circuit_current_reproduced.

(* (e3') the label lines of WriteHarmonic2D reproduce the applied source density for circuits whose
   current density / voltage gradient is known a priori (Case 0 and 1); for Case 2 the line carries the
   solved gradient j c w V of the circuit unknown (C05_harmonic_written_potentials' companion below). *)
Theorem C05_harmonic_written_circuit_data_matches_applied_partial :
  forall (P : mprob (F:=R)) (res : list (nat * (R * R) * (R * R))) (nn : nat) (bfinal : list (R * R)) (el : melem (F:=R)),
  (forall k, fst (fst (nth k res (dhres RA))) <> 2%nat) ->
  (forall k, (fst (fst (nth k res (dhres RA))) <= 2)%nat) ->
  fst (hcirc_Jv RA P res el)
    = happlied_from_written (hwritten_label RA res nn bfinal (nth (mlbl el) (mlabels P) dmlabel)) (bCduct (el_blk P el)).
Proof. exact hwritten_circuit_data_matches_applied. Qed.
Print Assumptions C05_harmonic_written_circuit_data_matches_applied_partial.

Theorem C05_harmonic_written_gradient_coefficient :
  forall freq : R, cmuld RA (cmuld RA (cI RA) (c4pi RA)) (wfreq RA freq) = Cscal (c4pi RA * (freq * 2 * PI)) Cj.
Proof. exact hwritten_circuit_coefficient. Qed.
Print Assumptions C05_harmonic_written_gradient_coefficient.

(* ---- non-vacuity ---- *)
Example C05_initial_state_ok : forall n bw prec lam,
  mat_wf (lM (lcreate RA n bw prec lam)) /\ length (lb (lcreate RA n bw prec lam)) = length (lM (lcreate RA n bw prec lam)).
Proof.
  intros. cbn [lM lb lcreate]. split; [apply mat_wf_mcreate|].
  rewrite mcreate_length, vzero_length. reflexivity.
Qed.

(* the two-element mesh of the refutation satisfies the hypotheses of the loop theorem and of the
   element theorems; with conductivity 0 it is a Case-1 circuit *)
Example C05_hypotheses_satisfiable :
  Forall (elem_okM 4) (melems Pw) /\
  Forall (el_regular Pw) (melems Pw) /\
  c4pi RA <> 0.
Proof.
  split; [|split].
  - repeat constructor; cbn; lia.
  - repeat constructor; try (apply no_mixed_edge_none; reflexivity); unfold mel_geom, geom, el_mu; cbn; ra_simpl; lra.
  - pose proof c4pi_pos. lra.
Qed.
